#!/usr/bin/env python3
"""tools/add_check.py <ID> <level> <technique> <text> <note>  - add/replace an entry in checks.json and regenerate MANIFEST.json"""
import json, subprocess, sys
pid, level, technique, text, note = sys.argv[1:6]
p = '/verif/checks.json'
c = json.load(open(p))
c["checks"] = [e for e in c["checks"] if e["property_id"] != pid]
c["checks"].append({"property_id": pid, "level": level, "technique": technique, "text": text, "note": note})
c["checks"].sort(key=lambda e: e["property_id"])
json.dump(c, open(p, 'w'), indent=1)
subprocess.run(["python3", "/verif/tools/mk_manifest.py"], check=True)
