#!/usr/bin/env python3
"""tools/resweep.py [jobs]  - re-evaluates every seeded change (demo + the check(s) that caught it) against /repo HEAD, in parallel.
Prints one line per seed; seeds whose patch no longer applies or whose demo no longer discriminates are listed at the end."""
import glob, json, os, subprocess, sys
from concurrent.futures import ThreadPoolExecutor
jobs = int(sys.argv[1]) if len(sys.argv) > 1 else 4
only = sys.argv[2] if len(sys.argv) > 2 else ""
def one(d):
    m = json.load(open(os.path.join(d, "meta.json")))
    name, prop = m["name"], m["breaks"]
    hits = [k.split(":")[0] for k, v in m.get("detected_by", {}).items() if v.get("exit") == 1] or [prop]
    checks = ",".join(dict.fromkeys(hits))
    r = subprocess.run(["/venv/bin/python", "tools/seed_eval.py", d, prop, name, "--skip-suite", "--checks", checks],
                       cwd="/verif", capture_output=True, text=True)
    tail = [l for l in r.stdout.splitlines() if l.strip()][-1:] or [r.stderr.strip()[-200:]]
    verdict = "CAUGHT" if "CAUGHT" in tail[0] else "MISSED" if "MISSED" in tail[0] else "PROBLEM"
    why = ""
    if verdict == "PROBLEM":
        why = next((l for l in r.stdout.splitlines() if "DOES NOT" in l or "NOT GREEN" in l), tail[0])[:120]
    return name, verdict, checks, why
dirs = sorted(d for d in glob.glob("/verif/seeded/C*") if os.path.exists(os.path.join(d, "meta.json")) and only in d)
with ThreadPoolExecutor(jobs) as ex:
    res = list(ex.map(one, dirs))
for r in res:
    print(*r)
print(len(res), "seeds;", sum(1 for r in res if r[1] == "MISSED"), "missed;", sum(1 for r in res if r[1] == "PROBLEM"), "problems")
