#!/bin/bash
# tools/mutant.sh <patch.diff> <ID> [quick|thorough]  - run a check against a scratch worktree of /repo with the patch applied
set -u
PATCH="$(readlink -f "$1")"; ID="$2"; TIER="${3:-quick}"
WT="/tmp/mut_$$"
git -C /repo worktree add -q --detach "$WT" HEAD || exit 2
trap 'git -C /repo worktree remove --force "$WT" >/dev/null 2>&1' EXIT
if ! git -C "$WT" apply "$PATCH"; then echo "PATCH DOES NOT APPLY"; exit 2; fi
cd /verif && VERIF_REPO="$WT" ./check "$ID" --tier "$TIER" 2>&1 | cut -c1-600 | grep -E "^VIOLATION|^KNOWN|^  key=|^$ID " | head -12
echo "exit=${PIPESTATUS[0]}"
