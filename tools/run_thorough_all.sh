#!/bin/bash
# Runs every check's thorough tier once, sequentially; prints one summary line per check.
cd "$(dirname "$0")/.."
for c in C12 C01 C03 C13 C18 C16 C02 C04 C06 C09 C20 C19 C15 C14 C05 C08 C11 C10 C17 C07; do
  s=$(date +%s)
  out=$(./check $c --tier thorough 2>&1); rc=$?
  echo "$c rc=$rc $(( $(date +%s) - s ))s :: $(echo "$out" | grep -E "^$c " | cut -c1-260)"
  echo "$out" | grep -E "^VIOLATION|^  key=" | head -8
done
