#!/bin/bash
# Every check's quick tier for several VERIF_SEED values, each from a fresh process; one line per run.
cd "$(dirname "$0")/.."
for seed in ${SEEDS:-1 2 7 12345}; do
for c in C01 C02 C03 C04 C05 C06 C07 C08 C09 C10 C11 C12 C13 C14 C15 C16 C17 C18 C19 C20; do
  s=$(date +%s)
  out=$(VERIF_SEED=$seed ./check $c --tier quick 2>&1); rc=$?
  echo "seed=$seed $c rc=$rc $(( $(date +%s) - s ))s :: $(echo "$out" | grep -E "^$c " | cut -c1-200)"
  echo "$out" | grep -E "^VIOLATION|^  key=" | head -6
done; done
