#!/usr/bin/env python3
"""tools/record_fix.py <PROP> <commit> <line-text> <what>  - append a 'fixed' entry to known_findings.json"""
import json, sys
prop, commit, line, what = sys.argv[1:5]
p = '/verif/known_findings.json'
d = json.load(open(p))
d["findings"].append({"property": prop, "status": "fixed", "commit": commit,
                      "line": f"fixed: property={prop} {commit} {line}", "what": what})
json.dump(d, open(p, 'w'), indent=1)
