import subprocess,sys,os
# usage: mkmut.py <name> <file> <old> <new>  -> writes /verif/mutants/<name>.diff from a scratch worktree
name,f,old,new=sys.argv[1:5]
wt="/tmp/mkmut_wt"
subprocess.run(["git","-C","/repo","worktree","add","-q","--detach",wt,"HEAD"],check=True)
try:
    p=os.path.join(wt,f); s=open(p).read()
    old=old.encode().decode('unicode_escape'); new=new.encode().decode('unicode_escape')
    assert s.count(old)>=1,"old text not found"
    s=s.replace(old,new,1); open(p,'w').write(s)
    d=subprocess.run(["git","-C",wt,"diff"],capture_output=True,text=True).stdout
    open(f"/verif/mutants/{name}.diff","w").write(d)
    print(d)
finally:
    subprocess.run(["git","-C","/repo","worktree","remove","--force",wt])
