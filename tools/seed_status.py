#!/usr/bin/env python3
import glob, json, os
rows=[]
for p in sorted(glob.glob("/verif/seeded/C*/meta.json")):
    m=json.load(open(p))
    det=m.get("detected_by",{})
    hit=[k for k,v in det.items() if v.get("exit")==1]
    rows.append((m["name"], "CAUGHT" if hit else "MISSED", ",".join(hit)))
for r in rows: print(*r)
print(len(rows), "seeded;", sum(1 for r in rows if r[1]=="MISSED"), "missed")
