#!/bin/bash
# tools/eval_round.sh <ID> <round>  - evaluates /tmp/seedout_<ID>_<round>/change* with seed_eval.py, one after the other
id=$1; r=$2
cd /verif
for d in /tmp/seedout_${id}_${r}/change*; do
  n=$(basename $d | sed 's/change//')
  echo "=== $id-s$r-change$n"
  /venv/bin/python tools/seed_eval.py $d $id $id-s$r-change$n 2>&1 | tail -12
done
