#!/usr/bin/env python3
"""
tools/seed_eval.py <change dir with patch.diff + demo*.py> <PROPERTY ID> <seed name> [--checks C01,C03] [--thorough]

Validates a seeded property-breaking change in a scratch worktree of /repo (never /repo itself):
  1. demo passes on the unmodified tree, 2. patch applies, 3. demo fails with the patch, 4. baseline suite still 602 green,
  5. which of our checks (quick, then thorough if asked) report a violation against the patched tree.
If 1-4 hold the change is copied to /verif/seeded/<seed name>/ with meta.json describing what was run.
"""
import glob
import json
import os
import re
import shutil
import subprocess
import sys
import time

VERIF = "/verif"


def sh(cmd, cwd=None, env=None, timeout=3600):
    e = dict(os.environ)
    if env:
        e.update(env)
    r = subprocess.run(cmd, shell=True, cwd=cwd, env=e, capture_output=True, text=True, timeout=timeout)
    return r.returncode, (r.stdout + r.stderr)


def main():
    args = sys.argv[1:]
    src, prop, name = args[0], args[1], args[2]
    checks = [prop]
    thorough = "--thorough" in args
    skip_suite = "--skip-suite" in args
    for i, a in enumerate(args):
        if a == "--checks":
            checks = args[i + 1].split(",")
    patch = os.path.join(src, "patch.diff")
    demos = sorted(glob.glob(os.path.join(src, "demo*.py")))
    assert os.path.exists(patch) and demos, "need patch.diff and demo*.py"
    demo = demos[0]
    wt = f"/tmp/seedeval_{os.getpid()}"
    meta = {"property": prop, "name": name, "ran": []}
    sh(f"git -C /repo worktree add -q --detach {wt} HEAD")
    try:
        is_test = "def test_" in open(demo).read() or "class Test" in open(demo).read()
        local_demo = os.path.join(wt, os.path.basename(demo) if not is_test else "test_seed_demo.py")
        shutil.copy(demo, local_demo)
        run_demo = (f"/venv/bin/python -m pytest -q -p no:cacheprovider -x {os.path.basename(local_demo)}" if is_test
                    else f"/venv/bin/python {os.path.basename(local_demo)}")
        env = {"PYTHONPATH": wt}
        rc0, out0 = sh(run_demo, cwd=wt, env=env, timeout=900)
        meta["ran"].append({"cmd": run_demo + "  (unmodified tree)", "exit": rc0})
        rc, out = sh(f"git -C {wt} apply {os.path.abspath(patch)}")
        if rc != 0:
            print("PATCH DOES NOT APPLY\n", out)
            return 2
        rc1, out1 = sh(run_demo, cwd=wt, env=env, timeout=900)
        meta["ran"].append({"cmd": run_demo + "  (with patch)", "exit": rc1})
        print(f"demo: unmodified exit={rc0}, patched exit={rc1}")
        if rc0 != 0 or rc1 == 0:
            print("DEMO DOES NOT DISCRIMINATE\n--- unmodified:\n", out0[-1500:], "\n--- patched:\n", out1[-1500:])
            return 3
        os.remove(local_demo)
        if not skip_suite:
            t = time.time()
            rc2, out2 = sh("/venv/bin/python -m pytest -q -p no:cacheprovider --timeout=900 ipv8 2>&1 | tail -3", cwd=wt,
                           timeout=1800)
            m = re.search(r"(\d+) passed", out2)
            failed = re.search(r"(\d+) failed", out2)
            meta["ran"].append({"cmd": "pytest ipv8 (with patch)", "summary": out2.strip().splitlines()[-1][:200]})
            print("suite:", out2.strip().splitlines()[-1][:200], f"({time.time() - t:.0f}s)")
            if not m or int(m.group(1)) < 602 or failed:
                print("BASELINE SUITE NOT GREEN WITH THE PATCH")
                return 4
        detected = {}
        for c in checks:
            for tier in (["quick", "thorough"] if thorough else ["quick"]):
                t = time.time()
                rc3, out3 = sh(f"./check {c} --tier {tier}", cwd=VERIF, env={"VERIF_REPO": wt}, timeout=7200)
                keys = re.findall(r"^\s+key=(.*)$", out3, re.M)
                detected[f"{c}:{tier}"] = {"exit": rc3, "keys": keys[:6], "wall_s": round(time.time() - t)}
                print(f"check {c} {tier}: exit={rc3} keys={keys[:4]} ({time.time() - t:.0f}s)")
                if rc3 == 1:
                    break
                if rc3 not in (0, 1):
                    print(out3[-1500:])
        meta["detected_by"] = detected
        meta["caught"] = any(v["exit"] == 1 for v in detected.values())
        dst = os.path.join(VERIF, "seeded", name)
        os.makedirs(dst, exist_ok=True)
        if os.path.realpath(os.path.dirname(patch)) != os.path.realpath(dst):
            shutil.copy(patch, os.path.join(dst, "patch.diff"))
            shutil.copy(demo, os.path.join(dst, os.path.basename(demo)))
        readme = os.path.join(src, "README.md")
        needs = ""
        if os.path.exists(readme):
            if os.path.realpath(readme) != os.path.realpath(os.path.join(dst, "README.md")):
                shutil.copy(readme, os.path.join(dst, "README.md"))
            needs = open(readme).read()[:1500]
        meta["breaks"] = prop
        meta["needs_to_manifest"] = needs
        with open(os.path.join(dst, "meta.json"), "w") as f:
            json.dump(meta, f, indent=1)
        print("CAUGHT" if meta["caught"] else "MISSED", "->", dst)
        return 0
    finally:
        sh(f"git -C /repo worktree remove --force {wt}")


if __name__ == "__main__":
    sys.exit(main())
