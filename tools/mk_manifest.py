import json
checks=json.load(open('/verif/checks.json'))
m={"version":1,
 "setup_cmd":"true",
 "hooks":{"guard":"IPV8_VERIF","enable":"no source hooks: every seam (clock, randomness, network, sockets) is injected from /verif/mc/seams.py before ipv8 is imported from /repo's working tree","baseline_off_cmd":"cd /repo && /venv/bin/python -m pytest -ra -q -p no:cacheprovider --timeout=900 --continue-on-collection-errors","source_commits":[],"add_only":True},
 "engines":[{"name":"mc","path":"/verif/mc","serves_properties":[c["property_id"] for c in checks["checks"]],"kind_free_text":"hand-written explicit-state / deviation-bounded explorer running the real ipv8 code on a virtual asyncio loop and a simulated network"}],
 "checks":[], "not_applicable":checks["not_applicable"],
 "notes":"See DESIGN.md. ./check <ID> [--tier quick|thorough] [--replay FILE]"}
for c in checks["checks"]:
    pid=c["property_id"]
    m["checks"].append({"property_id":pid,"quick_cmd":f"./check {pid} --tier quick","thorough_cmd":f"./check {pid} --tier thorough","evidence_file":f"/verif/evidence/{pid}.json","replay_cmd_template":f"./check {pid} --replay {{path}}","engine":"mc","level_claimed":{"category":c["level"],"text":c["text"],"design_ref":f"DESIGN.md section 6 ({pid})"},"level_note":c["note"],"technique":c["technique"]})
claimed={c["property_id"] for c in checks["checks"]}
na={e["property_id"] for e in m["not_applicable"]}
for l in open('/verif/properties.jsonl'):
    pid=json.loads(l)["id"]
    if pid not in claimed and pid not in na:
        m["not_applicable"].append({"property_id":pid,"reason":"check not built yet (design in DESIGN.md section 6); not claimed until its harness exists and is silent on the unchanged tree"})
json.dump(m,open('/verif/MANIFEST.json','w'),indent=1)
