"""
TunnelWorld: real TunnelCommunity nodes on SimNet with *default* timing settings, forced circuit paths
and white-box access to every routing table.
"""
from __future__ import annotations

from ipv8.messaging.anonymization.community import TunnelCommunity, TunnelSettings
from ipv8.messaging.anonymization.tunnel import (
    PEER_FLAG_EXIT_BT,
    PEER_FLAG_EXIT_IPV8,
    PEER_FLAG_RELAY,
    PEER_FLAG_SPEED_TEST,
    Circuit,
)

from . import simnet

RELAY = {PEER_FLAG_RELAY, PEER_FLAG_SPEED_TEST}
EXIT_ALL = {PEER_FLAG_RELAY, PEER_FLAG_SPEED_TEST, PEER_FLAG_EXIT_BT, PEER_FLAG_EXIT_IPV8}
EXIT_BT = {PEER_FLAG_RELAY, PEER_FLAG_SPEED_TEST, PEER_FLAG_EXIT_BT}

CONFIG_ROUTES = ("attr", "kwargs", "service", "loader")

BT_PAYLOAD = b"d1:ad2:id20:abcdefghij0123456789e1:q4:ping1:t2:aa1:y1:qe"   # bencoded dict: passes the DHT shape test


class TunnelWorld(simnet.World):
    def __init__(self, seed_key: object, roles: dict[str, set], community_cls=TunnelCommunity, key_offset: int = 0,
                 route: str = "attr", curves: dict[str, str] | None = None, **settings) -> None:  # noqa: ANN001
        """
        roles: node name -> peer flag set (insertion order fixes addresses n.n.n.n:100n and fixture key indices).
        settings: TunnelSettings attributes applied to every node (defaults are the library defaults).
        route: how the settings reach the overlay - one of CONFIG_ROUTES:
          attr     settings object, attributes assigned, overlay constructed (what the repository's tests do)
          kwargs   settings_class(**settings)                      (the documented constructor form)
          service  ipv8_service.IPv8(configuration) with the settings in the overlay's "initialize" section
          loader   ipv8.loader.IPv8CommunityLoader with a CommunityLauncher whose get_kwargs returns the settings
        curves: node name -> fixture curve of its identity key (default curve25519)
        """
        super().__init__(seed_key)
        self.ov: dict[str, TunnelCommunity] = {}
        for i, (name, flags) in enumerate(roles.items()):
            node = self.add_node(name, key_offset + i, curve=(curves or {}).get(name, "curve25519"))
            conf = {"peer_flags": set(flags), "min_circuits": 0, "max_circuits": 0, **settings}
            if route == "attr":
                s = community_cls.settings_class()
                for k, v in conf.items():
                    setattr(s, k, v)
                self.ov[name] = node.add_overlay(community_cls, s)
            elif route == "kwargs":
                self.ov[name] = node.add_overlay(community_cls, community_cls.settings_class(**conf))
            elif route in ("service", "loader"):
                self.ov[name] = node.run(self._make_via, route, node, community_cls, conf)
            else:
                raise ValueError(route)
        simnet.introduce(self, list(self.ov.values()))

    @staticmethod
    def _make_via(route: str, node, community_cls, conf: dict):  # noqa: ANN001, ANN205
        """Construct the overlay the way a deployment does; then give it the node's address like Node.add_overlay."""
        import base64  # noqa: PLC0415
        from types import SimpleNamespace  # noqa: PLC0415

        from . import fixtures  # noqa: PLC0415
        if route == "service":
            from ipv8_service import IPv8  # noqa: PLC0415
            configuration = {
                "logger": {"level": "CRITICAL"}, "walker_interval": 0.5,
                "keys": [{"alias": "k", "file": "", "generation": "curve25519",
                          "bin": base64.b64encode(fixtures.private_bin(node.key_index)).decode()}],
                "overlays": [{"class": community_cls.__name__, "key": "k", "walkers": [], "bootstrappers": [],
                              "initialize": dict(conf), "on_start": []}]}
            ipv8 = IPv8(configuration, endpoint_override=node.endpoint,
                        extra_communities={community_cls.__name__: community_cls})
            o = ipv8.overlays[0]
        else:
            from ipv8.loader import CommunityLauncher, IPv8CommunityLoader  # noqa: PLC0415
            from ipv8.peerdiscovery.network import Network  # noqa: PLC0415

            class Launcher(CommunityLauncher):
                def get_overlay_class(self):  # noqa: ANN202
                    return community_cls

                def get_my_peer(self, ipv8, session):  # noqa: ANN001, ANN202, ARG002
                    return node.my_peer

                def get_kwargs(self, session):  # noqa: ANN001, ANN202, ARG002
                    return dict(conf)

            ipv8 = SimpleNamespace(endpoint=node.endpoint, network=Network(), overlays=[], strategies=[])
            loader = IPv8CommunityLoader()
            loader.set_launcher(Launcher())
            loader.load(ipv8, None)
            o = ipv8.overlays[0]
        o.my_peer.address = node.address
        node.my_peer = o.my_peer
        node.network = o.network
        o.my_estimated_wan = node.address
        o.my_estimated_lan = node.address
        node.overlays.append(o)
        return o

    # -- helpers ----------------------------------------------------------------------------------
    def peer_of(self, viewer: str, target: str):  # noqa: ANN201
        """The Peer object for `target` as known to `viewer` (from its candidate table / network)."""
        key = self.nodes[target].my_peer.public_key.key_to_bin()
        p = self.nodes[viewer].network.get_verified_by_public_key_bin(key)
        assert p is not None, (viewer, target)
        return p

    def restrict(self, viewer: str, allowed: list[str]) -> None:
        """Limit viewer's circuit candidates to `allowed` (forces path selection)."""
        ov = self.ov[viewer]
        keep = {self.nodes[n].my_peer.public_key.key_to_bin() for n in allowed}
        for p in list(ov.candidates):
            if p.public_key.key_to_bin() not in keep:
                ov.candidates.pop(p)

    def start_circuit(self, origin: str, path: list[str], exit_flags=None, **kw) -> Circuit:  # noqa: ANN001, ANN003
        """Force `path` (relays..., exit) and send the first create; nothing is delivered yet."""
        ov = self.ov[origin]
        exit_name = path[-1]
        if len(path) == 1:
            self.restrict(origin, [exit_name])
        else:
            self.restrict(origin, [path[0], exit_name])
            for i in range(len(path) - 2):
                self.restrict(path[i], [path[i + 1]])
        c = self.nodes[origin].run(ov.create_circuit, len(path), required_exit=self.peer_of(origin, exit_name), **kw)
        assert c is not None, "create_circuit refused"
        return c

    def build_circuit(self, origin: str, path: list[str], **kw) -> Circuit:  # noqa: ANN003
        c = self.start_circuit(origin, path, **kw)
        self.flush()
        return c

    def tables(self) -> dict:
        return {n: (sorted(o.circuits), sorted(o.relay_from_to), sorted(o.exit_sockets)) for n, o in self.ov.items()}

    def table_sizes(self) -> dict:
        return {n: (len(o.circuits), len(o.relay_from_to), len(o.exit_sockets)) for n, o in self.ov.items()}

    def open_transports(self) -> list:
        return [t for t in self.loop.transports if not t.closed]

    def send_out(self, origin: str, circuit: Circuit, dest: tuple, data: bytes) -> None:
        ov = self.ov[origin]
        self.nodes[origin].run(ov.send_data, circuit.hop.address, circuit.circuit_id, dest, ("0.0.0.0", 0), data)

    def cell_fields(self, data: bytes):  # noqa: ANN201
        """(circuit_id, plaintext, relay_early, body) of a cell datagram, or None."""
        import struct
        prefix = next(iter(self.ov.values())).get_prefix()
        if len(data) < 29 or data[:22] != prefix or data[22] != 0:
            return None
        cid, plain, early = struct.unpack_from("!I??", data, 23)
        return cid, plain, early, data[29:]

    def kind(self, dg: simnet.Datagram) -> str:
        """Classify a datagram on the wire without decrypting it."""
        d = dg.data
        if len(d) < 23:
            return "short"
        if d[:22] != next(iter(self.ov.values())).get_prefix():
            return "other-prefix"
        m = d[22]
        if m == 0:
            f = self.cell_fields(d)
            if f is None:
                return "cell?"
            if f[1] and f[3]:
                return {2: "cell:create", 3: "cell:created"}.get(f[3][0], "cell:plain?")
            return "cell:enc"
        return {10: "destroy", 245: "intro-request", 246: "intro-response", 250: "puncture-request",
                249: "puncture", 234: "intro-request(new)", 233: "intro-response(new)"}.get(m, f"msg{m}")
