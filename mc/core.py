"""
Shared plumbing: reports, violations, evidence files, known findings, parallel map, BFS explorer.
"""
from __future__ import annotations

import fnmatch
import hashlib
import json
import multiprocessing
import os
import sys
from dataclasses import dataclass, field
from typing import Any, Callable, Iterable

from . import seams

VERIF = os.path.dirname(os.path.dirname(os.path.abspath(__file__)))


@dataclass
class Violation:
    key: str            # canonical class of the failing input / call site / history (for known-findings matching)
    what: str           # one line for humans
    replay: Any = None  # JSON-able: enough to reproduce without the explorer


@dataclass
class Report:
    level: str
    coverage: dict
    violations: list = field(default_factory=list)
    assumptions: list = field(default_factory=list)


@dataclass
class Ctx:
    prop: str
    tier: str
    seed: int
    jobs: int

    @property
    def thorough(self) -> bool:
        return self.tier == "thorough"


def jsonable(x: Any) -> Any:  # noqa: ANN401
    if isinstance(x, bytes):
        return {"hex": x.hex()} if len(x) <= 256 else {"hex_prefix": x[:64].hex(), "len": len(x)}
    if isinstance(x, (list, tuple)):
        return [jsonable(i) for i in x]
    if isinstance(x, (set, frozenset)):
        return sorted((jsonable(i) for i in x), key=repr)
    if isinstance(x, dict):
        return {str(k): jsonable(v) for k, v in x.items()}
    if isinstance(x, (str, int, float, bool)) or x is None:
        return x
    return repr(x)


def digest(obj: Any) -> bytes:  # noqa: ANN401
    """128-bit BLAKE2 over the canonical repr of a tuple/str/bytes structure."""
    return hashlib.blake2b(repr(obj).encode(), digest_size=16).digest()


# ------------------------------------------------------------------------------------------
# known findings
# ------------------------------------------------------------------------------------------

def load_known_findings() -> list[dict]:
    path = os.path.join(VERIF, "known_findings.json")
    if not os.path.exists(path):
        return []
    with open(path) as f:
        return json.load(f).get("findings", [])


def match_known(prop: str, key: str, findings: list[dict]) -> dict | None:
    for f in findings:
        if f.get("property") == prop and f.get("status") == "known" and fnmatch.fnmatchcase(key, f["key"]):
            return f
    return None


# ------------------------------------------------------------------------------------------
# parallel map over forked, long-lived workers
# ------------------------------------------------------------------------------------------

_WORKER_FN: Callable | None = None


def _call(chunk):  # noqa: ANN001, ANN202
    assert _WORKER_FN is not None
    return _WORKER_FN(chunk)


def chunks(items: list, n: int) -> list[list]:
    return [items[i:i + n] for i in range(0, len(items), n)]


class Pool:
    """fork()ed workers created after the seams and ipv8 are loaded; fn takes a chunk (list) and returns a result."""

    def __init__(self, fn: Callable, jobs: int, maxtasks: int | None = 200) -> None:
        global _WORKER_FN
        _WORKER_FN = fn
        self.jobs = jobs
        self.fn = fn
        self.pool = None
        if jobs > 1:
            ctx = multiprocessing.get_context("fork")
            self.pool = ctx.Pool(jobs, maxtasksperchild=maxtasks)

    def map_chunks(self, chunk_list: Iterable[list]):  # noqa: ANN201
        if self.pool is None:
            for c in chunk_list:
                yield self.fn(c)
        else:
            yield from self.pool.imap_unordered(_call, chunk_list)

    def close(self) -> None:
        if self.pool is not None:
            self.pool.close()
            self.pool.join()
            self.pool = None

    def __enter__(self) -> "Pool":
        return self

    def __exit__(self, *a) -> None:  # noqa: ANN002
        if self.pool is not None:
            self.pool.terminate()
            self.pool.join()
            self.pool = None


def pmap(fn: Callable, items: list, jobs: int, chunk: int = 64) -> list:
    """fn(list_of_items) -> list_of_results (any length); results concatenated (order not preserved)."""
    out: list = []
    with Pool(fn, jobs) as p:
        for r in p.map_chunks(chunks(items, chunk)):
            out.extend(r)
    return out


# ------------------------------------------------------------------------------------------
# explicit-state BFS with replay
# ------------------------------------------------------------------------------------------

class BfsModel:
    """
    Interface for explicit-state search.  A state is identified with the event history reaching it.

    alphabet: list of JSON-able events.
    initial() -> world
    enabled(world) -> iterable of indices into alphabet (default: all)
    apply(world, event) -> observation (anything repr()-able); exceptions propagate as violations unless handled
    digest(world) -> repr()-able canonical form of everything any later event can read
    check(world, hist_events, event, obs) -> list[(key, what)]
    """

    alphabet: list = []

    def initial(self):  # noqa: ANN201
        raise NotImplementedError

    def enabled(self, world) -> Iterable[int]:  # noqa: ANN001
        return range(len(self.alphabet))

    def apply(self, world, event):  # noqa: ANN001, ANN201
        raise NotImplementedError

    def digest(self, world):  # noqa: ANN001, ANN201
        raise NotImplementedError

    def check(self, world, hist, event, obs) -> list:  # noqa: ANN001
        return []

    def dispose(self, world) -> None:  # noqa: ANN001
        pass

    def build(self, hist: tuple):  # noqa: ANN201
        seams.reseed(("bfs", getattr(self, "seed", 0)))
        w = self.initial()
        for i in hist:
            self.apply(w, self.alphabet[i])
        return w


_BFS_MODEL: BfsModel | None = None


def _bfs_expand(chunk: list) -> list:
    m = _BFS_MODEL
    assert m is not None
    out = []
    for hist in chunk:
        w0 = m.build(hist)
        en = list(m.enabled(w0))
        m.dispose(w0)
        for i in en:
            ev = m.alphabet[i]
            w = m.build(hist)
            viol = []
            obs = None
            raised = False
            try:
                obs = m.apply(w, ev)
            except Exception as e:  # noqa: BLE001
                raised = True
                viol.append((f"exception:{type(e).__name__}:{_evname(ev)}", f"{type(e).__name__}: {e}"))
            d = digest(m.digest(w))  # before the oracle runs: the oracle may perturb w (it asks queries)
            try:
                viol.extend(m.check(w, [m.alphabet[j] for j in hist], ev, obs))
            except Exception as e:  # noqa: BLE001
                import traceback
                viol.append((f"oracle-crash:{type(e).__name__}", traceback.format_exc()[-600:]))
            m.dispose(w)
            # a transition that raised is reported and its state is not expanded (replaying it would raise again)
            out.append((None if raised else d, hist + (i,), viol, digest(obs) if obs is not None else b""))
    return out


def _evname(ev) -> str:  # noqa: ANN001
    return ev[0] if isinstance(ev, (list, tuple)) and ev else str(ev)


def bfs(model: BfsModel, depth: int, jobs: int, chunk: int = 32, max_states: int | None = None,
        max_viol_per_key: int = 1) -> dict:
    """
    Level-synchronous BFS.  Returns stats + violations (shortest history per key first).
    """
    global _BFS_MODEL
    _BFS_MODEL = model
    w = model.build(())
    d0 = digest(model.digest(w))
    model.dispose(w)
    seen = {d0}
    frontier: list[tuple] = [()]
    transitions = 0
    outcomes: set = set()
    violations: dict[str, Violation] = {}
    levels = []
    capped = False
    completed_depth = 0
    with Pool(_bfs_expand, jobs) as pool:
        for level in range(1, depth + 1):
            nxt: list[tuple] = []
            level_new: dict[bytes, tuple] = {}
            for res in pool.map_chunks(chunks(frontier, chunk)):
                for d, hist, viol, oh in res:
                    transitions += 1
                    outcomes.add(oh)
                    for key, what in viol:
                        if key not in violations:
                            violations[key] = Violation(key, what, {"history": [model.alphabet[j] for j in hist]})
                    if d is not None and d not in seen:
                        cand = level_new.get(d)
                        if cand is None or hist < cand:
                            level_new[d] = hist  # canonical representative: smallest history of this level
            seen.update(level_new)
            nxt = sorted(level_new.values())
            levels.append({"depth": level, "new_states": len(nxt), "frontier_in": len(frontier)})
            completed_depth = level
            frontier = nxt
            if not frontier:
                break
            if max_states is not None and len(seen) > max_states and level < depth:
                capped = True
                break
    samples = [[model.alphabet[j] for j in h] for h in frontier[:2]] or [[model.alphabet[0]]]
    return {
        "states": len(seen),
        "transitions": transitions,
        "completed_depth": completed_depth,
        "fixpoint": not frontier,
        "capped": capped,
        "levels": levels,
        "distinct_outcomes": len(outcomes),
        "samples": samples,
        "violations": list(violations.values()),
    }


# ------------------------------------------------------------------------------------------
# evidence
# ------------------------------------------------------------------------------------------

def write_evidence(ctx: Ctx, report: Report, wall_s: float, n_new: int, n_known: int) -> str:
    path = os.path.join(VERIF, "evidence", f"{ctx.prop}.json")
    if os.path.realpath(os.environ.get("VERIF_REPO", "/repo")) != os.path.realpath("/repo"):
        # a run against a scratch tree (seeded change, mutant): never overwrite the evidence of /repo
        path = os.path.join(VERIF, "build", "evidence-scratch", f"{ctx.prop}.json")
    os.makedirs(os.path.dirname(path), exist_ok=True)
    ev = {
        "property_id": ctx.prop,
        "tier": ctx.tier,
        "seed": ctx.seed,
        "level": report.level,
        "coverage": jsonable(report.coverage),
        "assumptions": report.assumptions,
        "wall_s": round(wall_s, 3),
        "violations": n_new,
        "known_findings_matched": n_known,
    }
    _poor_mans_validate(ev)
    tmp = f"{path}.{os.getpid()}.tmp"
    with open(tmp, "w") as f:
        json.dump(ev, f, indent=1, sort_keys=True)
        f.write("\n")
    _schema_validate(tmp)
    os.replace(tmp, path)
    return path


def _schema_validate(path: str) -> None:
    """Validate with jsonschema from the tooling venv (not installed in /venv); hard error if invalid."""
    import shutil
    import subprocess
    exe = shutil.which("python3-vt") or "/opt/veriftools/pyvenv/bin/python"
    schema = "/root/.vp/EVIDENCE.schema.json"
    if not (os.path.exists(exe) and os.path.exists(schema)):
        return
    code = ("import json,sys,jsonschema;"
            "jsonschema.validate(json.load(open(sys.argv[1])), json.load(open(sys.argv[2])))")
    env = {k: v for k, v in os.environ.items() if not k.startswith("PYTHON")}
    r = subprocess.run([exe, "-c", code, path, schema], capture_output=True, text=True, env=env)  # noqa: S603
    if r.returncode != 0:
        eprint("evidence does not validate against the schema:\n" + r.stderr[-1500:])
        sys.exit(2)




def _poor_mans_validate(ev: dict) -> None:
    cov = ev["coverage"]
    lvl = ev["level"]
    assert lvl in ("exploration", "fault_enumeration", "model_checking")
    assert isinstance(ev["seed"], int)
    if lvl == "model_checking" and all(k in cov for k in ("states", "transitions",
                                                          "traces_validated_against_impl", "samples")):
        assert cov["states"] >= 1 and cov["transitions"] >= 1 and len(cov["samples"]) >= 1
    else:
        assert cov["evaluations"] >= 1 and cov["distinct_nontrivial"] >= 2, cov
        assert isinstance(cov["rule"], str) and len(cov["samples"]) >= 1


def eprint(*a) -> None:  # noqa: ANN002
    print(*a, file=sys.stderr, flush=True)
