"""
./check <ID> [--tier quick|thorough] [--replay FILE] [--jobs N]

exit 0: property held on everything explored (known findings are printed, not counted)
exit 1: at least one violation not listed in known_findings.json (VIOLATION line per replay file)
exit 2: the machinery itself is broken (determinism self-check failed, wrong tree, invalid evidence)
"""
from __future__ import annotations

import argparse
import importlib
import json
import logging
import os
import sys

from . import seams

seams.install()

from . import core  # noqa: E402


def main() -> int:
    ap = argparse.ArgumentParser()
    ap.add_argument("prop")
    ap.add_argument("--tier", default=os.environ.get("VERIF_TIER") or "quick", choices=["quick", "thorough"])
    ap.add_argument("--replay", default=None)
    ap.add_argument("--jobs", type=int, default=int(os.environ.get("VERIF_JOBS", "0")) or (os.cpu_count() or 1))
    ap.add_argument("--verbose", action="store_true")
    args = ap.parse_args()
    prop = args.prop.upper()
    try:
        seed = int(os.environ.get("VERIF_SEED", "0") or 0)
    except ValueError:
        seed = 0
    ctx = core.Ctx(prop=prop, tier=args.tier, seed=seed, jobs=max(1, args.jobs))

    logging.disable(logging.CRITICAL if not args.verbose else logging.NOTSET)
    start = seams.REAL_PERF()
    try:
        harness = importlib.import_module(f"mc.harness.{prop.lower()}")
    except ModuleNotFoundError as e:
        if e.name == f"mc.harness.{prop.lower()}":
            core.eprint(f"no harness for {prop}")
            return 2
        raise
    seams.assert_ownership()

    if args.replay:
        with open(args.replay) as f:
            data = json.load(f)
        viols = harness.replay(ctx, data["replay"])
        for v in viols:
            print(f"REPLAYED-VIOLATION property={prop} key={v.key} :: {v.what}")
        if not viols:
            print(f"replay of {args.replay}: property held")
        return 1 if viols else 0

    report: core.Report = harness.run(ctx)
    wall = seams.REAL_PERF() - start

    findings = core.load_known_findings()
    new, known = [], []
    seen_keys = set()
    for v in report.violations:
        if v.key in seen_keys:
            continue
        seen_keys.add(v.key)
        k = core.match_known(prop, v.key, findings)
        (known if k else new).append((v, k))

    printed_known = set()
    for v, k in known:
        if k["key"] not in printed_known:
            printed_known.add(k["key"])
            print(f"KNOWN-FINDING: property={prop} {k['what']} [key={k['key']}]")

    rdir = os.path.join(core.VERIF, "replays", prop)
    if os.path.isdir(rdir):   # numbered replay files belong to one run: drop those of earlier runs
        for name in os.listdir(rdir):
            if name[:-5].isdigit() and name.endswith(".json"):
                os.remove(os.path.join(rdir, name))
    for n, (v, _) in enumerate(new[:20]):
        os.makedirs(rdir, exist_ok=True)
        path = os.path.join(rdir, f"{n}.json")
        with open(path, "w") as f:
            json.dump({"property": prop, "key": v.key, "what": v.what, "tier": ctx.tier, "seed": ctx.seed,
                       "replay": core.jsonable(v.replay) if not _is_plain(v.replay) else v.replay}, f, indent=1)
        print(f"VIOLATION property={prop} replay={path}")
        print(f"  key={v.key}\n  {v.what[:2000]}")
    if len(new) > 20:
        print(f"  ... and {len(new) - 20} more distinct violation keys")

    report.coverage.setdefault("violation_keys", [v.key for v, _ in new][:50])
    core.write_evidence(ctx, report, wall, len(new), len(known))
    cov = report.coverage
    summary = {k: cov[k] for k in ("states", "transitions", "evaluations", "distinct_nontrivial", "exhaustive",
                                   "completed_depth", "distinct_outcomes") if k in cov}
    print(f"{prop} tier={ctx.tier} seed={ctx.seed} level={report.level} {summary} "
          f"violations={len(new)} known={len(known)} wall={wall:.1f}s")
    return 1 if new else 0


def _is_plain(x) -> bool:  # noqa: ANN001
    try:
        json.dumps(x)
    except (TypeError, ValueError):
        return False
    return True


if __name__ == "__main__":
    sys.exit(main())
