"""
VirtualLoop: a steppable asyncio loop on virtual time that reuses the stock ``_run_once``.

The explorer owns (a) which I/O callbacks are injected into which iteration and (b) when time
passes.  Order inside an iteration is asyncio's own: I/O callbacks, then due timers, then the
batch of ready handles.
"""
from __future__ import annotations

import asyncio
import contextvars
import heapq
import socket
from asyncio import events
from collections import deque

from . import seams

CURRENT_NODE: contextvars.ContextVar = contextvars.ContextVar("verif_current_node", default=None)


class _FakeSelector:
    def __init__(self, loop: "VirtualLoop") -> None:
        self.loop = loop

    def select(self, timeout=None):  # noqa: ANN001
        evs = list(self.loop._io)
        self.loop._io.clear()
        return evs

    def close(self) -> None:
        pass


class FakeSocket:
    def __init__(self, addr) -> None:  # noqa: ANN001
        self.addr = addr
        self.family = socket.AF_INET6 if ":" in addr[0] else socket.AF_INET

    def getsockname(self):  # noqa: ANN201
        return self.addr

    def fileno(self) -> int:
        return -1


class FakeTransport(asyncio.DatagramTransport):
    """Records what the code sends to the outside world; the harness injects replies."""

    def __init__(self, loop: "VirtualLoop", protocol, local_addr, owner) -> None:  # noqa: ANN001
        super().__init__()
        self.loop = loop
        self.protocol = protocol
        self.local_addr = local_addr
        self.owner = owner
        self.sent: list[tuple[bytes, tuple]] = []
        self.sent_after_close: list[tuple[bytes, tuple]] = []
        self.closed = False
        self.opened_at = loop.time()
        self.sock = FakeSocket(local_addr)

    def sendto(self, data, addr=None) -> None:  # noqa: ANN001
        if self.closed:
            self.sent_after_close.append((bytes(data), addr))
            return
        self.sent.append((bytes(data), addr))
        self.loop.outside_log.append((self, bytes(data), addr))

    def close(self) -> None:
        if not self.closed:
            self.closed = True
            self.loop.call_soon(self.protocol.connection_lost, None)

    def abort(self) -> None:
        self.close()

    def is_closing(self) -> bool:
        return self.closed

    def get_extra_info(self, name, default=None):  # noqa: ANN001, ANN201
        if name == "socket":
            return self.sock
        if name == "sockname":
            return self.local_addr
        return default

    def inject(self, data: bytes, source: tuple) -> None:
        """A datagram from the outside world arrives on this socket (as an I/O event)."""
        if not self.closed:
            self.loop.io_event(self.protocol.datagram_received, data, source)


class LoopStuck(Exception):
    pass


class VirtualLoop(asyncio.BaseEventLoop):
    def __init__(self) -> None:
        super().__init__()
        self._clock = seams.CLOCK
        self._clock_resolution = 1e-6
        self._selector = _FakeSelector(self)
        self._io: deque = deque()
        self.transports: list[FakeTransport] = []
        self.outside_log: list = []
        self.exceptions: list[dict] = []
        self.resolver: dict[str, list] = {}
        self.iterations = 0
        self._port_counter = 40000
        self.set_exception_handler(self._on_exception)
        self.fail_datagram_endpoint = False     # True: every socket creation fails; "ipv6": only IPv6 ones (no IPv6 host)
        self.executor_delay = 0                 # loop iterations a run_in_executor job takes (0 = done at once, inline)

    # --- BaseEventLoop plumbing -------------------------------------------------------------
    def time(self) -> float:
        return self._clock.now

    def _process_events(self, event_list) -> None:  # noqa: ANN001
        for handle in event_list:
            self._ready.append(handle)

    def _write_to_self(self) -> None:
        pass

    def _on_exception(self, loop, context) -> None:  # noqa: ANN001
        self.exceptions.append(context)

    def run_in_executor(self, executor, func, *args):  # noqa: ANN001, ANN201
        fut = self.create_future()

        def finish() -> None:
            if fut.done():
                return
            try:
                fut.set_result(func(*args))
            except Exception as e:  # noqa: BLE001
                fut.set_exception(e)

        def hop(left: int) -> None:
            if left <= 0:
                finish()
            else:
                self.call_soon(hop, left - 1)
        if self.executor_delay <= 0:
            finish()
        else:
            # a worker thread hands its result back some loop iterations later
            self.call_soon(hop, self.executor_delay - 1)
        return fut

    async def getaddrinfo(self, host, port, *, family=0, type=0, proto=0, flags=0):  # noqa: ANN001, ANN201, A002
        await asyncio.sleep(0)
        gate = getattr(self, "resolver_gate", None)
        if gate is not None:
            await gate            # the harness decides when the resolver thread reports back
        if host in self.resolver:
            return [(socket.AF_INET6 if ":" in ip else socket.AF_INET, socket.SOCK_DGRAM, 17, "", (ip, port))
                    for ip in self.resolver[host]]
        raise socket.gaierror(-2, "Name or service not known")

    async def create_datagram_endpoint(self, protocol_factory, local_addr=None, remote_addr=None, **kwargs):  # noqa: ANN001, ANN201
        await asyncio.sleep(0)
        host, port = (local_addr or ("0.0.0.0", 0))[:2]
        if self.fail_datagram_endpoint is True:
            raise OSError(98, "Address already in use")
        if self.fail_datagram_endpoint == "ipv6" and ":" in str(host):
            raise OSError(97, "Address family not supported by protocol")
        protocol = protocol_factory()
        if port == 0:
            self._port_counter += 1
            port = self._port_counter
        transport = FakeTransport(self, protocol, (host, port), CURRENT_NODE.get())
        self.transports.append(transport)
        self.call_soon(protocol.connection_made, transport)
        return transport, protocol

    # --- explorer-facing API ----------------------------------------------------------------
    def io_event(self, cb, *args) -> None:  # noqa: ANN001
        """Queue an I/O callback: it runs at the start of the next iteration, before due timers."""
        self._io.append(events.Handle(cb, args, self, contextvars.copy_context()))

    def next_timer(self) -> float | None:
        while self._scheduled and self._scheduled[0]._cancelled:
            h = heapq.heappop(self._scheduled)
            h._scheduled = False
            self._timer_cancelled_count = max(0, self._timer_cancelled_count - 1)
        return self._scheduled[0]._when if self._scheduled else None

    def has_work(self) -> bool:
        if self._ready or self._io:
            return True
        nt = self.next_timer()
        return nt is not None and nt <= self.time() + self._clock_resolution

    def iteration(self) -> None:
        self.iterations += 1
        self._run_once()

    def settle(self, limit: int = 100000) -> int:
        """Iterate without letting time pass until nothing is runnable."""
        n = 0
        while self.has_work():
            self.iteration()
            n += 1
            if n > limit:
                raise LoopStuck(f"loop did not go quiescent within {limit} iterations at t={self.time()}")
        return n

    def advance_to(self, t: float, limit: int = 1000000) -> None:
        """Let virtual time pass up to t, firing every timer on the way in order."""
        n = 0
        while True:
            self.settle()
            nt = self.next_timer()
            if nt is None or nt > t:
                break
            self._clock.set(nt)
            n += 1
            if n > limit:
                raise LoopStuck("timer storm")
        self._clock.set(t)
        self.settle()

    def run_for(self, dt: float) -> None:
        self.advance_to(self.time() + dt)

    def step_to_next_timer(self) -> bool:
        """Settle, then jump to the next timer and run that iteration.  False if no timer exists."""
        self.settle()
        nt = self.next_timer()
        if nt is None:
            return False
        self._clock.set(nt)
        self.settle()
        return True

    def drive(self, aw, horizon: float = 3600.0):  # noqa: ANN001, ANN201
        """run_until_complete with time passing; raises LoopStuck on deadlock or horizon."""
        fut = asyncio.ensure_future(aw, loop=self)
        deadline = self.time() + horizon
        while True:
            self.settle()
            if fut.done():
                return fut.result()
            nt = self.next_timer()
            if nt is None:
                fut.cancel()
                self.settle()
                raise LoopStuck("deadlock: awaited future pending, no timers, nothing ready")
            if nt > deadline:
                fut.cancel()
                self.settle()
                raise LoopStuck(f"awaited future still pending after {horizon}s of virtual time")
            self._clock.set(nt)

    def drive_no_time(self, aw):  # noqa: ANN001, ANN201
        """run_until_complete without letting time pass; returns (done, result)."""
        fut = asyncio.ensure_future(aw, loop=self)
        self.settle()
        if fut.done():
            return True, fut.result()
        return False, fut

    # --- life cycle -------------------------------------------------------------------------
    def __enter__(self) -> "VirtualLoop":
        events._set_running_loop(self)
        return self

    def __exit__(self, *exc) -> None:  # noqa: ANN002
        self.shutdown()

    def shutdown(self) -> None:
        try:
            for _ in range(5):
                tasks = [t for t in asyncio.all_tasks(self) if not t.done()]
                if not tasks:
                    break
                for t in tasks:
                    t.cancel()
                try:
                    self.settle(10000)
                except LoopStuck:
                    break
            for t in asyncio.all_tasks(self):
                if t.done() and not t.cancelled():
                    t.exception()
        finally:
            self._ready.clear()
            self._scheduled.clear()
            self._io.clear()
            events._set_running_loop(None)
            if not self.is_closed():
                self.close()


def new_loop() -> VirtualLoop:
    loop = VirtualLoop()
    events._set_running_loop(None)
    events._set_running_loop(loop)
    return loop
