"""
How to construct every overlay class the library ships on a simnet Node (default settings, in-memory databases),
and helpers to find out - from the tree under test - which decorator guards each registered handler.
"""
from __future__ import annotations

from ipv8.attestation.identity.community import IdentityCommunity, IdentitySettings
from ipv8.attestation.wallet.community import AttestationCommunity, AttestationSettings
from ipv8.community import Community, CommunitySettings
from ipv8.dht.community import DHTCommunity
from ipv8.dht.discovery import DHTDiscoveryCommunity
from ipv8.messaging.anonymization.community import TunnelCommunity, TunnelSettings
from ipv8.messaging.anonymization.hidden_services import HiddenTunnelCommunity, HiddenTunnelSettings
from ipv8.messaging.anonymization.pex import PexCommunity, PexSettings
from ipv8.messaging.anonymization.tunnel import (
    PEER_FLAG_EXIT_BT,
    PEER_FLAG_EXIT_IPV8,
    PEER_FLAG_RELAY,
    PEER_FLAG_SPEED_TEST,
)
from ipv8.peerdiscovery.community import DiscoveryCommunity


class PlainCommunity(Community):
    """The base Community with nothing added (stands for 'every user overlay')."""

    community_id = bytes(range(100, 120))


def _tunnel_settings(cls):  # noqa: ANN001, ANN202
    s = cls()
    s.peer_flags = {PEER_FLAG_RELAY, PEER_FLAG_SPEED_TEST, PEER_FLAG_EXIT_BT, PEER_FLAG_EXIT_IPV8}
    s.min_circuits = 0
    s.max_circuits = 0
    return s


def _pex_settings():  # noqa: ANN202
    s = PexSettings()
    s.info_hash = bytes(range(20))
    return s


def _identity_settings():  # noqa: ANN202
    s = IdentitySettings()
    s.working_directory = ":memory:"
    return s


def _attestation_settings():  # noqa: ANN202
    s = AttestationSettings()
    s.working_directory = ":memory:"
    return s


# name -> (class, settings factory)
OVERLAYS = {
    "Community": (PlainCommunity, CommunitySettings),
    "DiscoveryCommunity": (DiscoveryCommunity, CommunitySettings),
    "DHTCommunity": (DHTCommunity, CommunitySettings),
    "DHTDiscoveryCommunity": (DHTDiscoveryCommunity, CommunitySettings),
    "TunnelCommunity": (TunnelCommunity, lambda: _tunnel_settings(TunnelSettings)),
    "HiddenTunnelCommunity": (HiddenTunnelCommunity, lambda: _tunnel_settings(HiddenTunnelSettings)),
    "PexCommunity": (PexCommunity, _pex_settings),
    "IdentityCommunity": (IdentityCommunity, _identity_settings),
    "AttestationCommunity": (AttestationCommunity, _attestation_settings),
}


def make(node, name: str):  # noqa: ANN001, ANN201
    cls, settings = OVERLAYS[name]
    return node.add_overlay(cls, settings())


# ---- decorator introspection ---------------------------------------------------------------------------------------

SIGNED_WRAPPERS = {"lazy_wrapper", "lazy_wrapper_wd"}
UNSIGNED_WRAPPERS = {"lazy_wrapper_unsigned", "lazy_wrapper_unsigned_wd"}


def unwrap_chain(fn) -> list:  # noqa: ANN001
    """[outermost function, ..., innermost user function] following __wrapped__."""
    chain = [fn]
    while hasattr(chain[-1], "__wrapped__"):
        chain.append(chain[-1].__wrapped__)
    return chain


def wrapper_kind(handler) -> str:  # noqa: ANN001
    """
    Name of the lazy_community decorator that guards this registered handler ('lazy_wrapper', 'lazy_wrapper_wd',
    'lazy_wrapper_unsigned', 'lazy_wrapper_unsigned_wd'), or 'raw:<qualname>' if it is a hand-written handler.
    """
    fn = getattr(handler, "__func__", handler)
    qual = getattr(getattr(fn, "__code__", None), "co_qualname", "")
    head = qual.split(".<locals>")[0]
    if head in SIGNED_WRAPPERS | UNSIGNED_WRAPPERS and qual.endswith(".wrapper"):
        return head
    return "raw:" + qual


def func_cell(handler):  # noqa: ANN001, ANN201
    """The closure cell of the decorator's wrapper that holds the wrapped user function (or None)."""
    fn = getattr(handler, "__func__", handler)
    inner = getattr(fn, "__wrapped__", None)
    for cell in (fn.__closure__ or ()):
        try:
            v = cell.cell_contents
        except ValueError:
            continue
        if inner is not None and v is inner:
            return cell
    for cell in (fn.__closure__ or ()):
        try:
            v = cell.cell_contents
        except ValueError:
            continue
        if callable(v) and getattr(v, "__name__", None) == getattr(fn, "__name__", None):
            return cell
    return None


def payload_classes(handler) -> tuple:  # noqa: ANN001
    """The payload classes a lazy_wrapper* decorator was given."""
    fn = getattr(handler, "__func__", handler)
    for cell in (fn.__closure__ or ()):
        try:
            v = cell.cell_contents
        except ValueError:
            continue
        if isinstance(v, tuple) and v and all(isinstance(c, type) for c in v):
            return v
    return ()
