"""Fixture identities (generated once, committed) so that Peer hashes and set orders are reproducible."""
from __future__ import annotations

import json
import os
from functools import lru_cache

_PATH = os.path.join(os.path.dirname(os.path.dirname(os.path.abspath(__file__))), "fixtures", "keys.json")


@lru_cache(maxsize=None)
def _raw() -> dict:
    with open(_PATH) as f:
        return json.load(f)


def private_bin(i: int, curve: str = "curve25519") -> bytes:
    keys = _raw()[curve]
    return bytes.fromhex(keys[i % len(keys)])


def private_key(i: int, curve: str = "curve25519"):  # noqa: ANN201
    from ipv8.keyvault.crypto import default_eccrypto
    return default_eccrypto.key_from_private_bin(private_bin(i, curve))


@lru_cache(maxsize=None)
def public_bin(i: int, curve: str = "curve25519") -> bytes:
    return private_key(i, curve).pub().key_to_bin()


def rotate(seed: int, n: int, curve: str = "curve25519") -> list[int]:
    """n distinct key indices, rotated by the seed (different seeds => different identities, same coverage)."""
    total = len(_raw()[curve])
    return [(seed + k) % total for k in range(n)]
