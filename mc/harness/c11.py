"""
C11 - An unloaded overlay is silent and holds no resources.

Fault enumeration (unload-point enumeration) on the real overlays with *default* settings:

* for every overlay class shipped, a scripted protocol run between 2-4 real nodes on SimNet whose steps are
  API calls of the script, single datagram deliveries (FIFO) and single timer firings;
* the fault-free run is executed once to count its events N; then for EVERY k <= N and every unload variant the
  world is rebuilt, k events are replayed, ``unload()`` of the overlay under test is driven to completion
  (``quiet``: nothing is delivered meanwhile; ``race``: one in-flight datagram is delivered per loop iteration while
  the unload coroutine is pending; ``lost``: like quiet but everything the node sends while unloading is lost, so
  its peers keep talking to it; ``mid<j>``, j = 0..4: the k-th event is only started and exactly j single loop
  iterations of it run before unload() is requested, i.e. unload lands between two loop iterations of a delivery,
  a timer firing or an API call - e.g. between the two socket opens of an exit socket), and then the node is bombarded: everything still in flight, a replay of a valid
  datagram for every message id seen on the wire, a synthetic short datagram for each of the other ids 0..255,
  fresh valid requests of the peers, datagrams from the Internet on every socket the node opened, and 2 hours of
  virtual time;
* oracle, from the moment ``unload()`` returned: (i) the overlay's own tagging endpoint sees no send and the
  node's outside sockets emit nothing, (ii) no message handler, cell handler or request-cache timeout of the
  overlay runs, (iii) no asyncio task or timer created in the node's context is pending and register_task /
  request_cache.add schedule nothing, (iv) every FakeTransport opened by the node is closed.

One scenario family runs a real ``ipv8_service.IPv8`` (configuration dict, endpoint_override = the node's tap, three
overlays with a RandomWalk each, ticking through its own on_tick task) and unloads one overlay at run time with
``IPv8.unload_overlay``; sends are attributed to the overlay by community prefix there.

Plus the TaskManager-only part: every sequence (up to a depth, modulo renaming of the three task names) of
register / register-interval / replace / cancel / loop-iteration / let-time-pass / shutdown on a bare TaskManager,
checked against a reference reading of the statement (an active name is refused, a replacement starts after the
replaced coroutine has exited, nothing runs or starts once shutdown has completed).
"""
from __future__ import annotations

import asyncio
import re
from asyncio import CancelledError
from binascii import unhexlify

import ipv8.bootstrapping.dispersy.bootstrapper as _dispersy_mod
import ipv8.bootstrapping.udpbroadcast.bootstrapper as _bcast_mod
from ipv8.attestation.identity.community import IdentityCommunity, IdentitySettings
from ipv8.attestation.identity.payload import RequestMissingPayload
from ipv8.attestation.wallet.community import AttestationCommunity, AttestationSettings
from ipv8.attestation.wallet.primitives.structs import BonehPrivateKey
from ipv8.bootstrapping.dispersy.bootstrapper import DispersyBootstrapper
from ipv8.bootstrapping.udpbroadcast.bootstrapper import HDR_ANNOUNCE, UDPBroadcastBootstrapper
from ipv8.community import Community
from ipv8.dht.community import DHTCommunity
from ipv8.dht.discovery import DHTDiscoveryCommunity
from ipv8.dht.routing import Node as DHTNode
from ipv8.messaging.anonymization.community import TunnelCommunity
from ipv8.messaging.anonymization.endpoint import TunnelEndpoint
from ipv8.messaging.anonymization.hidden_services import HiddenTunnelCommunity
from ipv8.messaging.anonymization.pex import PexCommunity, PexSettings
from ipv8.messaging.interfaces.endpoint import Endpoint
from ipv8.messaging.interfaces.statistics_endpoint import StatisticsEndpoint
from ipv8.peer import Peer
from ipv8.peerdiscovery.community import DiscoveryCommunity
from ipv8.requestcache import NumberCache
from ipv8.taskmanager import TaskManager
from ipv8.util import succeed

from .. import core, seams, simnet, vloop
from ..tunnelworld import BT_PAYLOAD, EXIT_ALL, RELAY, TunnelWorld
from ..vloop import CURRENT_NODE

LEVEL = "fault_enumeration"

HARNESS_TASK = "c11-harness:"
PROBE_NAME = "c11 probe"
OUTSIDE = ("9.9.9.9", 99)
UNREACHABLE = ("9.9.9.1", 9)
VARIANTS = ("quiet", "race", "lost")
MID_STEPS = (0, 1, 2, 3, 4)          # `mid<j>`: unload requested j loop iterations into the k-th event
MID_VARIANTS = tuple(f"mid{j}" for j in MID_STEPS)
POST_UNLOAD_S = 7200.0
PEERS_OFF_AFTER_S = 600.0     # quick tier: the peers are switched off this long after the unload


# ======================================================================================================================
# tagging endpoint + worlds whose overlays each get their own tap
# ======================================================================================================================

class TapEndpoint(Endpoint):
    """Thin per-overlay endpoint: forwards everything to the node's SimEndpoint, reports sends to its recorder."""

    def __init__(self, inner: Endpoint) -> None:
        super().__init__()
        self.inner = inner
        self.rec: Rec | None = None
        self.overlay = None

    def send(self, socket_address, packet) -> None:  # noqa: ANN001
        if self.rec is not None:
            self.rec.on_send(socket_address, bytes(packet))
        self.inner.send(socket_address, packet)

    def add_listener(self, listener) -> None:  # noqa: ANN001
        self.inner.add_listener(listener)

    def add_prefix_listener(self, listener, prefix: bytes) -> None:  # noqa: ANN001
        self.inner.add_prefix_listener(listener, prefix)

    def remove_listener(self, listener) -> None:  # noqa: ANN001
        self.inner.remove_listener(listener)

    def notify_listeners(self, packet) -> None:  # noqa: ANN001
        self.inner.notify_listeners(packet)

    def assert_open(self) -> None:
        self.inner.assert_open()

    def is_open(self) -> bool:
        return self.inner.is_open()

    def get_address(self):  # noqa: ANN201
        return self.inner.get_address()

    async def open(self) -> bool:
        return await self.inner.open()

    def close(self) -> None:
        return self.inner.close()

    def reset_byte_counters(self) -> None:
        self.inner.reset_byte_counters()


class TapNode(simnet.Node):
    def add_overlay(self, cls, settings=None, endpoint=None, **extra):  # noqa: ANN001, ANN003, ANN201
        tap = TapEndpoint(self.endpoint)
        # nodes listed in world.te_nodes get one of the library's own endpoint decorators on top, as ipv8_service does
        # (TunnelEndpoint when any overlay is configured with anonymize, StatisticsEndpoint with enable_statistics):
        # the overlay then talks to <Wrapper>(tap(SimEndpoint))
        wrap = getattr(self.world, "wrap_cls", TunnelEndpoint) if self.name in getattr(self.world, "te_nodes", ()) else None
        if wrap is StatisticsEndpoint:
            # this decorator reaches into the wrapped endpoint's listener tables through attribute fallback, so it has
            # to sit directly on the real endpoint: overlay -> tap -> StatisticsEndpoint -> SimEndpoint
            stats = StatisticsEndpoint(self.endpoint)
            tap = TapEndpoint(stats)
            ep = tap
        else:
            ep = wrap(tap) if wrap is not None else tap
        o = super().add_overlay(cls, settings, endpoint=ep, **extra)
        if wrap is StatisticsEndpoint:
            stats.enable_community_statistics(o.get_prefix(), True)
        tap.overlay = o
        self.taps[id(o)] = tap
        return o


class _TapMixin:
    def add_node(self, name, key_index, address=None, curve="curve25519"):  # noqa: ANN001, ANN201
        node = super().add_node(name, key_index, address, curve)
        node.__class__ = TapNode
        node.taps = {}
        return node


class TapWorld(_TapMixin, simnet.World):
    def __init__(self, seed_key, te_nodes=(), wrap_cls=TunnelEndpoint) -> None:  # noqa: ANN001
        self.te_nodes = set(te_nodes)
        self.wrap_cls = wrap_cls
        super().__init__(seed_key)


class TapTunnelWorld(_TapMixin, TunnelWorld):
    def __init__(self, seed_key, roles, te_nodes=(), wrap_cls=TunnelEndpoint, **kw) -> None:  # noqa: ANN001, ANN003
        self.te_nodes = set(te_nodes)
        self.wrap_cls = wrap_cls
        super().__init__(seed_key, roles, **kw)


# ======================================================================================================================
# seams of the bootstrappers: the broadcast socket and the DNS resolver
# ======================================================================================================================

STUB_DNS = {"tracker.c11.test": "2.2.2.2"}       # every other name does not resolve
_BCAST_REC: list = [None]                        # recorder of the execution in progress


def _stub_gethostbyname(host: str) -> str:
    if host in STUB_DNS:
        return STUB_DNS[host]
    import socket as _socket
    raise _socket.gaierror(-2, "Name or service not known")


class FakeBroadcastSocket:
    """
    What UDPBroadcastBootstrapper gets from socket(AF_INET, SOCK_DGRAM): never touches the OS.  The loop's
    create_datagram_endpoint(sock=...) turns it into a FakeTransport (owner = node that opened it); sendto() after
    the unload mark is reported to the recorder (a beacon is 65535 sends: only the first few are logged).
    """

    def __init__(self, *a) -> None:  # noqa: ANN002
        self.owner = CURRENT_NODE.get()
        self.sent = 0
        self.sent_after = 0

    def setsockopt(self, *a) -> None:  # noqa: ANN002
        pass

    def bind(self, addr) -> None:  # noqa: ANN001
        pass

    def getsockname(self):  # noqa: ANN201
        return ("0.0.0.0", 0)

    def fileno(self) -> int:
        return -1

    def close(self) -> None:
        pass

    def _closed(self, loop) -> bool:  # noqa: ANN001
        return any(t.closed for t in loop.transports if getattr(t.protocol, "_socket", None) is self)

    def sendto(self, data, addr) -> None:  # noqa: ANN001
        rec = _BCAST_REC[0]
        if rec is not None and rec.marked is not None and self.owner is rec.nut:
            if self._closed(rec.loop):
                raise OSError(9, "Bad file descriptor")
            self.sent_after += 1
            if self.sent_after <= 3:
                rec.log.append(("send", "broadcast-socket", f"to {addr[0]}:{addr[1]} ({len(data)} bytes)"))
        self.sent += 1


_bcast_mod.socket = FakeBroadcastSocket
_dispersy_mod.gethostbyname = _stub_gethostbyname


# ======================================================================================================================
# recorder
# ======================================================================================================================

class Rec:
    """What the overlay under test does; entries made after ``mark()`` are what the oracle looks at."""

    def __init__(self, loop) -> None:  # noqa: ANN001
        self.loop = loop
        self.via: str | None = None      # which path handed the current datagram to the overlay
        self.log: list[tuple] = []       # (kind, via, detail)
        self.marked: int | None = None
        self.outside_mark = 0
        self.probe_runs: list[str] = []
        self.nut = None                  # node under test (set by run_one)
        self.prefix: bytes | None = None # only sends with this community prefix are the overlay's (shared endpoint)

    def on_send(self, dst, data: bytes) -> None:  # noqa: ANN001
        if self.prefix is not None and data[:22] != self.prefix:
            return                               # another overlay of the same service
        self.log.append(("send", self.via or "task-or-timer", f"to {dst[0]} id {data[22] if len(data) > 22 else '-'}"))

    def on_handler(self, name: str) -> None:
        self.log.append(("handler", self.via or "task-or-timer", name))

    def on_timeout(self, name: str) -> None:
        self.log.append(("timeout", self.via or "task-or-timer", name))

    def mark(self) -> None:
        self.marked = len(self.log)
        self.outside_mark = len(self.loop.outside_log)

    def after(self) -> list[tuple]:
        return self.log[self.marked:] if self.marked is not None else []


def _handler_name(h) -> str:  # noqa: ANN001
    n = getattr(h, "__name__", "handler")
    return "handler" if n == "wrapper" else n


def _wrap_handler(rec: Rec, fn, name: str):  # noqa: ANN001, ANN202
    def recorded(*args):  # noqa: ANN002, ANN202
        rec.on_handler(name)
        return fn(*args)
    return recorded


def instrument(ctx: "Ctx") -> None:
    ov, rec = ctx.ov, ctx.rec
    ctx.nut.taps[id(ov)].rec = rec
    for i, h in enumerate(ov.decode_map):
        if h is not None:
            ov.decode_map[i] = _wrap_handler(rec, h, f"{_handler_name(h)}[{i}]")
    private = getattr(ov, "decode_map_private", None)
    if private is not None:
        for i, h in list(private.items()):
            private[i] = _wrap_handler(rec, h, f"cell:{_handler_name(h)}[{i}]")
    rc = getattr(ov, "request_cache", None)
    if rc is not None:
        orig_timeout = rc._on_timeout  # noqa: SLF001

        def on_timeout(cache):  # noqa: ANN001, ANN202
            rec.on_timeout(type(cache).__name__)
            return orig_timeout(cache)
        rc._on_timeout = on_timeout  # noqa: SLF001
    if hasattr(ov, "send_data"):
        # what an exit socket does with a datagram from outside: hand it to the overlay for tunnelling
        orig_send_data = ov.send_data

        def send_data(*a, **kw):  # noqa: ANN002, ANN003, ANN202
            if rec.via == "exit-socket":
                rec.on_handler("send_data(from exit socket)")
            return orig_send_data(*a, **kw)
        ov.send_data = send_data
    ep = ctx.nut.endpoint
    orig_deliver = ep._deliver_later  # noqa: SLF001

    def deliver_later(listener, packet):  # noqa: ANN001, ANN202
        prev = rec.via
        deco = next((c.__name__ for c in (TunnelEndpoint, StatisticsEndpoint)
                     if isinstance(ov.endpoint, c) or isinstance(getattr(ov.endpoint, "inner", None), c)), None)
        suffix = f"@{deco}" if deco else ""
        # (helper listeners registered through a decorator that does not forward remove_listener cannot be
        # unregistered either: same root cause, same suffix)
        rec.via = ("own-listener" if listener is ov else f"{type(listener).__name__}-listener") + suffix
        try:
            orig_deliver(listener, packet)
        finally:
            rec.via = prev
    ep._deliver_later = deliver_later  # noqa: SLF001


# ======================================================================================================================
# scenarios
# ======================================================================================================================

class Ctx:
    """One world of one scenario: nodes by name, overlays by name, the node/overlay under test, recorder, scratch."""

    def __init__(self, w, nut_name: str, label: str) -> None:  # noqa: ANN001
        self.w = w
        self.nodes = w.nodes
        self.ov_by: dict = {}
        self.nut_name = nut_name
        self.label = label
        self.rec = Rec(w.loop)
        self.x: dict = {}          # scratch shared by the script's actions
        self.task_prefixes: tuple | None = None   # set when other overlays share the node: only these names count
        self.skip_timers = False                  # set when a service ticker (not the overlay's) sleeps on the node
        self.harness_tasks: list = []

    @property
    def nut(self):  # noqa: ANN201
        return self.nodes[self.nut_name]

    @property
    def ov(self):  # noqa: ANN201
        return self.ov_by[self.nut_name]

    def peer(self, viewer: str, target: str) -> Peer:
        """`target` as `viewer`'s overlay knows it (falls back to a fresh Peer with the real address)."""
        key = self.nodes[target].my_peer.public_key.key_to_bin()
        p = self.ov_by[viewer].network.get_verified_by_public_key_bin(key)
        return p if p is not None else Peer(self.nodes[target].my_peer.public_key, self.nodes[target].address)

    def call(self, name: str, fn, *a, **kw):  # noqa: ANN001, ANN002, ANN003, ANN201
        return self.nodes[name].run(fn, *a, **kw)

    def spawn(self, name: str, coro_fn, *a, **kw):  # noqa: ANN001, ANN002, ANN003, ANN201
        """An application coroutine started on node `name` (not owned by any overlay)."""
        tok = CURRENT_NODE.set(self.nodes[name])
        try:
            t = asyncio.ensure_future(coro_fn(*a, **kw), loop=self.w.loop)
        finally:
            CURRENT_NODE.reset(tok)
        t.set_name(HARNESS_TASK + getattr(coro_fn, "__name__", "app"))
        t.add_done_callback(_swallow)
        self.harness_tasks.append(t)
        return t


def _swallow(fut) -> None:  # noqa: ANN001
    if not fut.cancelled():
        fut.exception()


class Scenario:
    name = ""
    label = ""            # class label used in violation keys
    quick = True          # part of the quick tier

    def build(self, seed: int) -> Ctx:
        raise NotImplementedError

    def phases(self) -> list[tuple]:
        """[(label, action(ctx) | None, seconds of virtual time to run afterwards)]"""
        raise NotImplementedError

    def stimulate(self, ctx: Ctx) -> None:
        """Fresh, valid requests of the peers to the (unloaded) node."""

    def unload_awaitable(self, ctx: Ctx):  # noqa: ANN201
        """What the application awaits to unload the overlay under test."""
        return ctx.ov.unload()

    def children(self, ctx: Ctx) -> list:
        """Overlays the overlay under test has created itself and therefore has to take down with it."""
        return []

    def outside_payloads(self, ctx: Ctx) -> list[bytes]:
        """What arrives, after the unload, on every socket the node still has open."""
        return [BT_PAYLOAD]

    quiesce_after: float | None = None      # seconds after the late traffic at which quiesce() is called

    def quiesce(self, ctx: Ctx) -> None:
        """Stop machinery of the scenario that is not the overlay under test and would tick for the whole 2 h."""

    def variants(self, thorough: bool = False) -> tuple:
        """
        `lost` differs from `quiet` only if unload() itself sends something (tunnel overlays: destroy messages).
        `mid<j>` (unload between two loop iterations of an event): every scenario in thorough; in quick the
        scenarios whose node under test is the exit of the circuit (it owns real sockets that open asynchronously).
        """
        tunnel = issubclass(getattr(self, "cls", Community), TunnelCommunity)
        base = VARIANTS if tunnel else VARIANTS[:2]
        if thorough or (tunnel and getattr(self, "nut", "") == "X"):
            return (*base, *MID_VARIANTS)
        return base


class TrivialCommunity(Community):
    """The smallest possible overlay: nothing but what Community itself provides."""

    community_id = unhexlify("c11c11c11c11c11c11c11c11c11c11c11c11c11c")


def _plain_world(scn: "Scenario", seed: int, cls, nut: str, names: str = "ABC", settings=None, te_nodes=()) -> Ctx:  # noqa: ANN001
    w = TapWorld(("c11", scn.name, seed), te_nodes=te_nodes, wrap_cls=getattr(scn, "wrap_cls", TunnelEndpoint))
    ctx = Ctx(w, nut, scn.label)
    for i, n in enumerate(names):
        node = w.add_node(n, (seed + i) % 12)
        ctx.ov_by[n] = node.add_overlay(cls, settings() if settings else None)
    return ctx


def _others(ctx: Ctx) -> list[str]:
    return [n for n in ctx.nodes if n != ctx.nut_name]


class WalkScenario(Scenario):
    """Discovery walk between three nodes: walk, introduction with puncture, incoming walks, idle timers."""

    cls = TrivialCommunity
    te = False
    wrap_cls = TunnelEndpoint       # which decorator `te` puts between overlay and tap

    def __init__(self, nut: str = "A") -> None:
        self.nut = nut
        self.name = f"{self.cls.__name__}{'@' + self.wrap_cls.__name__ if self.te else ''}/{nut}"
        self.label = self.cls.__name__

    def settings(self):  # noqa: ANN201
        return None

    def build(self, seed: int) -> Ctx:
        return _plain_world(self, seed, self.cls, self.nut, settings=self.settings if self.settings() is not None else None,
                            te_nodes=("A", "B", "C") if self.te else ())

    def phases(self) -> list[tuple]:
        def walk(c: Ctx) -> None:
            c.call("A", c.ov_by["A"].walk_to, c.nodes["B"].address)
            c.call("C", c.ov_by["C"].walk_to, c.nodes["B"].address)

        def intro(c: Ctx) -> None:
            c.call("A", c.ov_by["A"].get_new_introduction, c.peer("A", "B"))

        def incoming(c: Ctx) -> None:
            c.call("C", c.ov_by["C"].walk_to, c.nodes["A"].address)
            c.call("B", c.ov_by["B"].send_introduction_request, c.peer("B", "A"))

        return [("walk", walk, 1.0), ("get-introduction", intro, 1.0), ("incoming-walks", incoming, 1.0),
                ("idle", None, 11.0)]

    def stimulate(self, ctx: Ctx) -> None:
        for n in _others(ctx):
            ctx.call(n, ctx.ov_by[n].walk_to, ctx.nut.address)
            ctx.call(n, ctx.ov_by[n].send_introduction_request, ctx.peer(n, ctx.nut_name))


class TrivialOnTunnelEndpoint(WalkScenario):
    te = True


class TrivialOnStatisticsEndpoint(WalkScenario):
    te = True
    wrap_cls = StatisticsEndpoint


class PexScenario(WalkScenario):
    cls = PexCommunity

    def settings(self):  # noqa: ANN201
        return PexSettings(info_hash=b"\x07" * 20)

    def phases(self) -> list[tuple]:
        def announce(c: Ctx) -> None:
            c.ov_by["A"].start_announce(b"seeder-public-key-of-A".ljust(32, b"."))
            c.ov_by["B"].start_announce(b"seeder-public-key-of-B".ljust(32, b"."))
        return [("announce", announce, 0.0), *super().phases()]


class DiscoveryScenario(WalkScenario):
    cls = DiscoveryCommunity

    def phases(self) -> list[tuple]:
        def pings(c: Ctx) -> None:
            c.call("A", c.ov_by["A"].send_ping, c.peer("A", "B"))
            c.call("B", c.ov_by["B"].send_ping, c.peer("B", "A"))
            c.call("C", c.ov_by["C"].send_ping, c.peer("C", "A"))
            lost = Peer(c.nodes["C"].my_peer.public_key, UNREACHABLE)
            for n in "AB":
                c.call(n, c.ov_by[n].send_ping, lost)      # never answered: the ping cache times out after 5 s
        ph = super().phases()
        return [*ph[:3], ("pings", pings, 6.0), ("idle", None, 5.0)]

    def stimulate(self, ctx: Ctx) -> None:
        super().stimulate(ctx)
        for n in _others(ctx):
            ctx.call(n, ctx.ov_by[n].send_ping, ctx.peer(n, ctx.nut_name))
            ctx.call(n, ctx.ov_by[n].send_similarity_request, ctx.nut.address)


class DHTScenario(Scenario):
    cls = DHTCommunity
    tail = 11.0

    def __init__(self, nut: str = "A") -> None:
        self.nut = nut
        self.name = f"{self.cls.__name__}/{nut}"
        self.label = self.cls.__name__
        self.quick = nut == "A" or self.cls is DHTCommunity

    def build(self, seed: int) -> Ctx:
        return _plain_world(self, seed, self.cls, self.nut)

    def phases(self) -> list[tuple]:
        key = b"k" * 20

        def walk(c: Ctx) -> None:
            c.call("A", c.ov_by["A"].walk_to, c.nodes["B"].address)
            c.call("C", c.ov_by["C"].walk_to, c.nodes["B"].address)
            c.call("A", c.ov_by["A"].walk_to, c.nodes["C"].address)

        def store(c: Ctx) -> None:
            c.spawn("A", c.ov_by["A"].store_value, key, b"hello", sign=True)

        def find(c: Ctx) -> None:
            c.spawn("B", c.ov_by["B"].find_values, key)
            c.spawn("C", c.ov_by["C"].store_value, key, b"world")

        def lost_ping(c: Ctx) -> None:
            for n in "AB":
                ghost = DHTNode(c.nodes["C"].my_peer.public_key, UNREACHABLE)
                c.call(n, c.ov_by[n].ping, ghost)           # never answered: Request times out after 5 s
        return [("walk", walk, 1.0), ("store", store, 1.0), ("find+store", find, 1.0), ("lost-ping", lost_ping, self.tail)]

    def stimulate(self, ctx: Ctx) -> None:
        for n in _others(ctx):
            o = ctx.ov_by[n]
            ctx.call(n, o.walk_to, ctx.nut.address)
            ctx.call(n, o.ping, DHTNode(ctx.nut.my_peer.public_key, ctx.nut.address))
            ctx.spawn(n, o.find_values, b"k" * 20)


class DHTDiscoveryScenario(DHTScenario):
    cls = DHTDiscoveryCommunity
    tail = 31.5        # ping_all at 10/20/30 s, store_peer at 30 s

    def phases(self) -> list[tuple]:
        def connect(c: Ctx) -> None:
            c.spawn("C", c.ov_by["C"].connect_peer, c.nodes["A"].my_peer.mid)
            c.spawn("A", c.ov_by["A"].connect_peer, c.nodes["B"].my_peer.mid)
        return [*super().phases(), ("connect-peer", connect, 2.0)]

    def stimulate(self, ctx: Ctx) -> None:
        super().stimulate(ctx)
        for n in _others(ctx):
            ctx.spawn(n, ctx.ov_by[n].connect_peer, ctx.nut.my_peer.mid)


class TunnelScenario(Scenario):
    """2-hop circuit O -> R -> X: build, transfer with an enabled exit socket and an answer from outside, pings,
    teardown by the originator."""

    cls = TunnelCommunity
    te = False
    wrap_cls = TunnelEndpoint

    def __init__(self, nut: str, hops: int = 2, quick: bool = True) -> None:
        self.nut = nut
        self.hops = hops
        self.name = (f"{self.cls.__name__}{'@' + self.wrap_cls.__name__ if self.te else ''}/{nut}"
                     + (f"/h{hops}" if hops != 2 else ""))
        self.label = self.cls.__name__
        self.quick = quick
        self.path = {1: ["X"], 2: ["R", "X"], 3: ["R", "R2", "X"]}[hops]

    def roles(self) -> dict:
        r = {"O": RELAY, "R": RELAY, "X": EXIT_ALL}
        if self.hops == 3:
            r = {"O": RELAY, "R": RELAY, "R2": RELAY, "X": EXIT_ALL}
        return r

    def build(self, seed: int) -> Ctx:
        roles = self.roles()
        w = TapTunnelWorld(("c11", self.name, seed), roles, te_nodes=tuple(roles) if self.te else (),
                           wrap_cls=self.wrap_cls,
                           community_cls=self.cls, key_offset=seed % 8)
        ctx = Ctx(w, self.nut, self.label)
        ctx.ov_by = w.ov
        return ctx

    def phases(self) -> list[tuple]:
        def build(c: Ctx) -> None:
            c.x["circuit"] = c.w.start_circuit("O", self.path)

        def send(c: Ctx) -> None:
            c.w.send_out("O", c.x["circuit"], OUTSIDE, BT_PAYLOAD)

        def answer(c: Ctx) -> None:
            for t in c.w.loop.transports:
                if t.sent and not t.closed:
                    tok = CURRENT_NODE.set(t.owner)
                    try:
                        t.inject(BT_PAYLOAD, OUTSIDE)
                    finally:
                        CURRENT_NODE.reset(tok)

        def teardown(c: Ctx) -> None:
            ov = c.ov_by["O"]
            cid = c.x["circuit"].circuit_id
            if cid in ov.circuits:
                c.call("O", ov.remove_circuit, cid, "script teardown", destroy=1)
        return [("build", build, 1.0), ("send", send, 1.0), ("answer-from-outside", answer, 1.0),
                ("send-again+pings", send, 8.0), ("teardown", teardown, 7.0)]

    def stimulate(self, ctx: Ctx) -> None:
        w = ctx.w
        for n in _others(ctx):
            ctx.call(n, ctx.ov_by[n].walk_to, ctx.nut.address)
        if ctx.nut_name != "O":
            # whatever the originator still believes, it keeps using its circuit ...
            c = ctx.x.get("circuit")
            if c is not None and c.hops:
                w.send_out("O", c, OUTSIDE, BT_PAYLOAD)
            # ... and somebody asks the unloaded node to join a brand-new circuit
            other = next(n for n in _others(ctx) if n != "O")
            try:
                ctx.x["late-circuit"] = w.start_circuit(other, [ctx.nut_name])
            except AssertionError:
                pass


class TunnelOnTunnelEndpoint(TunnelScenario):
    te = True
    APP_PREFIX = b"\x00\x02" + b"c11-anonymized-app--"

    def stimulate(self, ctx: Ctx) -> None:
        super().stimulate(ctx)
        # ipv8_service puts every overlay of a node on ONE TunnelEndpoint: an application overlay of this node that
        # asked for anonymity (Community.__init__ registers its prefix) keeps sending after the tunnel overlay was
        # unloaded - the endpoint then asks "its" tunnel community for a circuit
        ep = ctx.ov.endpoint
        if isinstance(ep, TunnelEndpoint):
            def app_sends() -> None:
                ep.set_anonymity(self.APP_PREFIX, True)
                ep.send(OUTSIDE, self.APP_PREFIX + b"\x01application data")
            ctx.call(ctx.nut_name, app_sends)


class TunnelOnStatisticsEndpoint(TunnelScenario):
    te = True
    wrap_cls = StatisticsEndpoint


class HiddenScenario(TunnelScenario):
    """The TunnelScenario on HiddenTunnelCommunity plus a seeder establishing an introduction point at the exit."""

    cls = HiddenTunnelCommunity
    info_hash = b"\x42" * 20

    def build(self, seed: int) -> Ctx:
        from threading import RLock

        from ipv8_service import IPv8
        ctx = super().build(seed)
        for ov in ctx.ov_by.values():
            # settings.ipv8: the real IPv8 class (its add_strategy / unload_overlay are what hidden_services.py uses)
            # without its constructor and without a ticker: the node becomes able to spawn its PexCommunity
            service = IPv8.__new__(IPv8)
            service.overlay_lock = RLock()
            service.overlays = [ov]
            service.strategies = []
            ov.ipv8 = service
        return ctx

    def children(self, ctx: Ctx) -> list:
        ov = ctx.ov
        return [o for o in ov.ipv8.overlays if o is not ov]

    def stimulate(self, ctx: Ctx) -> None:
        super().stimulate(ctx)
        # a member of the swarm's PEX overlay walks to the (former) introduction point
        other = next(n for n in _others(ctx) if n != "O")
        pex = ctx.nodes[other].add_overlay(PexCommunity, PexSettings(info_hash=self.info_hash))
        ctx.call(other, pex.walk_to, ctx.nut.address)

    def phases(self) -> list[tuple]:
        def seed_swarm(c: Ctx) -> None:
            ov = c.ov_by["O"]
            c.call("O", ov.join_swarm, self.info_hash, 1, None, True)
            c.w.restrict("O", ["R", "X"])
            c.w.restrict("R", ["X"])
            c.spawn("O", ov.create_introduction_point, self.info_hash, c.w.peer_of("O", "X"))
        ph = super().phases()
        return [*ph[:4], ("introduction-point", seed_swarm, 2.0), ph[4]]


class TrivialCommunity2(TrivialCommunity):
    community_id = unhexlify("c11c11c11c11c11c11c11c11c11c11c11c11c22c")


class HiddenStopScenario(HiddenScenario):
    """The same, but the application shuts the whole service down: `await ipv8.stop()` (ipv8_service.IPv8.stop, which
    unregisters every overlay - the introduction point's PexCommunity included - and then awaits all unloads)."""

    def __init__(self, nut: str, hops: int = 2, quick: bool = True) -> None:
        super().__init__(nut, hops, quick)
        self.name += "/service-stop"

    def unload_awaitable(self, ctx: Ctx):  # noqa: ANN201
        from types import SimpleNamespace  # noqa: PLC0415
        service = ctx.ov.ipv8
        service.state_machine_task = None
        service.endpoint = SimpleNamespace(close=lambda: None)      # the node's socket stays: late datagrams still arrive
        return service.stop()


class ServiceScenario(Scenario):
    """
    A real ipv8_service.IPv8 built from a configuration dict on the node's endpoint: three overlays sharing one key
    and one endpoint, a RandomWalk each, ticking through IPv8's own on_tick task at the default walker interval; every
    overlay knows the peer P.  The overlay under test is unloaded at run time with IPv8.unload_overlay().
    """

    CLASSES = ("TrivialCommunity", "TrivialCommunity2", "DiscoveryCommunity")

    def __init__(self, which: int, interval: float = 0.5) -> None:
        # interval: the service's walker_interval.  From len(strategies) seconds on, on_tick really sleeps between the
        # strategies of one round (interval // len(strategies) >= 1), so an unload can land in the middle of a round.
        self.which = which
        self.interval = interval
        self.nut = "S"
        self.name = f"IPv8Service/unload:{self.CLASSES[which]}" + ("" if interval == 0.5 else f"/interval={interval:g}")
        self.label = f"{self.CLASSES[which]}@IPv8" + ("" if interval == 0.5 else "+slow-ticker")

    def variants(self, thorough: bool = False) -> tuple:
        return (*VARIANTS[:2], *MID_VARIANTS)

    def build(self, seed: int) -> Ctx:
        from base64 import b64encode

        from ipv8_service import IPv8

        from .. import fixtures
        w = TapWorld(("c11", self.name, seed))
        ctx = Ctx(w, "S", self.label)
        s_node = w.add_node("S", seed % 12)
        p_node = w.add_node("P", (seed + 1) % 12)
        extra = {"TrivialCommunity": TrivialCommunity, "TrivialCommunity2": TrivialCommunity2}
        classes = {**extra, "DiscoveryCommunity": DiscoveryCommunity}
        config = {
            "interfaces": [], "working_directory": ".", "walker_interval": self.interval,
            "logger": {"level": "CRITICAL"},
            "keys": [{"alias": "my peer", "file": None,
                      "bin": b64encode(fixtures.private_key(seed % 12, "curve25519").key_to_bin()).decode()}],
            "overlays": [{"class": c, "key": "my peer", "initialize": {}, "on_start": [], "bootstrappers": [],
                          "walkers": [{"strategy": "RandomWalk", "peers": 20, "init": {"timeout": 3.0}}]}
                         for c in self.CLASSES],
        }
        tap = TapEndpoint(s_node.endpoint)
        service = s_node.run(IPv8, config, endpoint_override=tap, extra_communities=extra)
        s_node.my_peer = service.keys["my peer"]
        s_node.my_peer.address = s_node.address
        for o in service.overlays:
            o.my_estimated_wan = s_node.address
            o.my_estimated_lan = s_node.address
            s_node.overlays.append(o)
            s_node.taps[id(o)] = tap
        ctx.x["service"] = service
        ctx.x["overlays"] = {c: o for c, o in zip(self.CLASSES, service.overlays)}
        ctx.x["peer_overlays"] = {c: p_node.add_overlay(classes[c]) for c in self.CLASSES}
        ov = service.overlays[self.which]
        ctx.ov_by = {"S": ov, "P": ctx.x["peer_overlays"][self.CLASSES[self.which]]}
        ctx.rec.prefix = ov.get_prefix()
        ctx.task_prefixes = (type(ov).__name__ + ":", *(("RequestCache:",) if hasattr(ov, "request_cache") else ()))
        # every overlay of the service meets its counterpart on P before the enumerated part starts
        for c in self.CLASSES:
            s_node.run(ctx.x["overlays"][c].walk_to, p_node.address)
        w.flush()
        return ctx

    def phases(self) -> list[tuple]:
        def start(c: Ctx) -> None:
            service = c.x["service"]
            c.spawn("S", service.start)
            c.w.loop.settle()
            if service.state_machine_task is not None:
                service.state_machine_task.set_name(HARNESS_TASK + "ipv8-ticker")   # the service's, not the overlay's
        return [("start-service (two tick rounds)", start, 1.2)]

    def unload_awaitable(self, ctx: Ctx):  # noqa: ANN201
        return ctx.x["service"].unload_overlay(ctx.ov)

    quiesce_after = 30.0        # 60 more tick rounds of the service after the unload, then its ticker is stopped

    def quiesce(self, ctx: Ctx) -> None:
        t = ctx.x["service"].state_machine_task
        if t is not None and not t.done():
            t.cancel()
            ctx.w.loop.settle()

    def stimulate(self, ctx: Ctx) -> None:
        for c, o in ctx.x["peer_overlays"].items():
            ctx.call("P", o.walk_to, ctx.nut.address)


BOOT_MID = tuple(f"mid{j}" for j in range(8))     # unload j = 0..7 loop iterations into every event of a bootstrap


def _make_bootstrapper(kind: str, tracker: tuple):  # noqa: ANN202
    if kind == "dispersy-ip":
        return DispersyBootstrapper(ip_addresses=[tracker], dns_addresses=[])
    if kind == "dispersy-dns":
        return DispersyBootstrapper(ip_addresses=[], dns_addresses=[("tracker.c11.test", tracker[1]),
                                                                    ("unresolvable.c11.test", 7)])
    return UDPBroadcastBootstrapper()


class BootstrapScenario(Scenario):
    """
    A fresh overlay with one shipped bootstrapper and no peers: bootstrap() (initialize + get_addresses + walk), a
    beacon arriving on the broadcast socket, a walker step, 31 s of timers and a second bootstrap after the
    bootstrap timeout.  B plays the tracker / the neighbour on the LAN.  Unload lands at every event and (mid0..7)
    at every loop iteration of every event, i.e. anywhere inside bootstrapper.initialize().
    """

    def __init__(self, kind: str) -> None:
        self.kind = kind
        self.nut = "A"
        self.name = f"Bootstrap/{kind}/direct"
        self.label = f"TrivialCommunity+{type(_make_bootstrapper(kind, ('2.2.2.2', 1002))).__name__}"

    def variants(self, thorough: bool = False) -> tuple:
        return (*VARIANTS[:2], *BOOT_MID)

    def build(self, seed: int) -> Ctx:
        ctx = _plain_world(self, seed, TrivialCommunity, "A", names="AB")
        ctx.ov_by["A"].bootstrappers = [_make_bootstrapper(self.kind, tuple(ctx.nodes["B"].address))]
        return ctx

    def outside_payloads(self, ctx: Ctx) -> list[bytes]:
        prefix = ctx.ov.get_prefix()
        return [HDR_ANNOUNCE + prefix, prefix + bytes([246]) + b"\x00" * 8, BT_PAYLOAD]

    def phases(self) -> list[tuple]:
        def bootstrap(c: Ctx) -> None:
            c.call("A", c.ov_by["A"].bootstrap)

        def beacon(c: Ctx) -> None:
            for t in c.w.loop.transports:
                if t.owner is c.nodes["A"] and not t.closed:
                    tok = CURRENT_NODE.set(t.owner)
                    try:
                        t.inject(HDR_ANNOUNCE + c.ov_by["A"].get_prefix(), tuple(c.nodes["B"].address))
                    finally:
                        CURRENT_NODE.reset(tok)

        def step(c: Ctx) -> None:
            c.call("A", c.ov_by["A"].get_new_introduction)
        return [("bootstrap", bootstrap, 1.0), ("beacon-on-broadcast-socket", beacon, 1.0), ("walker-step", step, 1.0),
                ("idle", None, 31.0), ("bootstrap-again", bootstrap, 1.0)]

    def stimulate(self, ctx: Ctx) -> None:
        ctx.call("B", ctx.ov_by["B"].walk_to, ctx.nut.address)


class BootstrapServiceScenario(Scenario):
    """
    The same through a real ipv8_service.IPv8: one overlay configured with a DispersyBootstrapper (literal IP + DNS
    names) and a UDPBroadcastBootstrapper, `bootstrap` in on_start and a RandomWalk that bootstraps on its first
    ticks (no peers); unloaded with IPv8.unload_overlay().
    """

    nut = "S"
    name = "Bootstrap/all/IPv8-service"
    label = "TrivialCommunity+bootstrappers@IPv8"
    quiesce_after = 30.0

    def variants(self, thorough: bool = False) -> tuple:
        return (*VARIANTS[:2], *BOOT_MID)

    def build(self, seed: int) -> Ctx:
        from base64 import b64encode

        from ipv8_service import IPv8

        from .. import fixtures
        w = TapWorld(("c11", self.name, seed))
        ctx = Ctx(w, "S", self.label)
        s_node = w.add_node("S", seed % 12)
        p_node = w.add_node("P", (seed + 1) % 12)
        tracker = tuple(p_node.address)
        config = {
            "interfaces": [], "working_directory": ".", "walker_interval": 0.5, "logger": {"level": "CRITICAL"},
            "keys": [{"alias": "my peer", "file": None,
                      "bin": b64encode(fixtures.private_key(seed % 12, "curve25519").key_to_bin()).decode()}],
            "overlays": [{"class": "TrivialCommunity", "key": "my peer", "initialize": {}, "on_start": [("bootstrap",)],
                          "walkers": [{"strategy": "RandomWalk", "peers": 20, "init": {"timeout": 3.0}}],
                          "bootstrappers": [
                              {"class": "DispersyBootstrapper",
                               "init": {"ip_addresses": [tracker], "dns_addresses": [("tracker.c11.test", tracker[1]),
                                                                                     ("unresolvable.c11.test", 7)],
                                        "bootstrap_timeout": 30.0}},
                              {"class": "UDPBroadcastBootstrapper", "init": {"bootstrap_timeout": 30.0}}]}],
        }
        tap = TapEndpoint(s_node.endpoint)
        service = s_node.run(IPv8, config, endpoint_override=tap, extra_communities={"TrivialCommunity": TrivialCommunity})
        s_node.my_peer = service.keys["my peer"]
        s_node.my_peer.address = s_node.address
        ov = service.overlays[0]
        ov.my_estimated_wan = s_node.address
        ov.my_estimated_lan = s_node.address
        s_node.overlays.append(ov)
        s_node.taps[id(ov)] = tap
        ctx.x["service"] = service
        ctx.ov_by = {"S": ov, "P": p_node.add_overlay(TrivialCommunity)}
        ctx.skip_timers = True
        return ctx

    phases = ServiceScenario.phases
    unload_awaitable = ServiceScenario.unload_awaitable
    quiesce = ServiceScenario.quiesce
    outside_payloads = BootstrapScenario.outside_payloads

    def stimulate(self, ctx: Ctx) -> None:
        ctx.call("P", ctx.ov_by["P"].walk_to, ctx.nut.address)


BONEH_SK = BonehPrivateKey.unserialize(unhexlify("01064c65dcb113f901064228da3ea57101064793a4f9c77901062b083e"
                                                 "8690fb0106408293c67e9f010601d1a9d3744901030f4243"))


class WalletScenario(Scenario):
    """A attests an attribute of B; C verifies it at B (chunks, challenges, responses); a verification of an unknown
    hash is left outstanding."""

    def __init__(self, nut: str, quick: bool = True) -> None:
        self.nut = nut
        self.quick = quick
        self.name = f"AttestationCommunity/{nut}"
        self.label = "AttestationCommunity"

    def build(self, seed: int) -> Ctx:
        return _plain_world(self, seed, AttestationCommunity, self.nut,
                            settings=lambda: AttestationSettings(working_directory=":memory:"))

    def phases(self) -> list[tuple]:
        def meet(c: Ctx) -> None:
            for a in "ABC":
                for b in "ABC":
                    if a != b:
                        c.call(a, c.ov_by[a].walk_to, c.nodes[b].address)

        def request(c: Ctx) -> None:
            c.x["got"] = []
            c.ov_by["A"].set_attestation_request_callback(lambda peer, name, md: succeed(b"value"))
            c.ov_by["B"].set_attestation_request_complete_callback(lambda *a: c.x["got"].append(a))
            c.call("B", c.ov_by["B"].request_attestation, c.peer("B", "A"), "attribute", BONEH_SK,
                   {"id_format": "id_metadata"})

        def verify(c: Ctx) -> None:
            c.x["verified"] = []
            if c.x.get("got"):
                h = c.x["got"][0][2]
                c.call("C", c.ov_by["C"].verify_attestation_values, c.nodes["B"].address, h, [b"value"],
                       lambda *a: c.x["verified"].append(a), "id_metadata")

        def unknown(c: Ctx) -> None:
            for n in "AC":
                c.call(n, c.ov_by[n].verify_attestation_values, c.nodes["B"].address, b"\x13" * 20, [b"value"],
                       lambda *a: None, "id_metadata")
            c.call("B", c.ov_by["B"].request_attestation, c.peer("B", "C"), "other", BONEH_SK,
                   {"id_format": "id_metadata"})        # C answers None: stays outstanding
        return [("meet", meet, 1.0), ("request-attestation", request, 1.0), ("verify", verify, 2.0),
                ("outstanding", unknown, 11.0)]

    def stimulate(self, ctx: Ctx) -> None:
        for n in _others(ctx):
            o = ctx.ov_by[n]
            ctx.call(n, o.walk_to, ctx.nut.address)
            ctx.call(n, o.request_attestation, ctx.peer(n, ctx.nut_name), "late", BONEH_SK, {"id_format": "id_metadata"})
            ctx.call(n, o.verify_attestation_values, ctx.nut.address, b"\x14" * 20, [b"value"], lambda *a: None,
                     "id_metadata")


class IdentityScenario(Scenario):
    """A discloses a credential to B and gets it attested; then one on top of a long chain (B asks for the missing
    tokens)."""

    def __init__(self, nut: str) -> None:
        self.nut = nut
        self.name = f"IdentityCommunity/{nut}"
        self.label = "IdentityCommunity"

    def build(self, seed: int) -> Ctx:
        return _plain_world(self, seed, IdentityCommunity, self.nut, names="AB",
                            settings=lambda: IdentitySettings(working_directory=":memory:"))

    def phases(self) -> list[tuple]:
        h = b"attribute-hash-".ljust(31, b"#")

        def meet(c: Ctx) -> None:
            c.call("A", c.ov_by["A"].walk_to, c.nodes["B"].address)
            c.call("B", c.ov_by["B"].walk_to, c.nodes["A"].address)

        def attest(c: Ctx) -> None:
            kb = c.nodes["A"].my_peer.public_key.key_to_bin()
            c.ov_by["B"].add_known_hash(h + b"\x00", "attribute0", kb)
            c.call("A", c.ov_by["A"].request_attestation_advertisement, c.peer("A", "B"), h + b"\x00", "attribute0")

        def long_chain(c: Ctx) -> None:
            kb = c.nodes["A"].my_peer.public_key.key_to_bin()
            for i in range(1, 25):
                c.ov_by["A"].self_advertise(h + bytes([i]), f"attribute{i}")
            c.ov_by["B"].add_known_hash(h + b"\x19", "attribute25", kb)
            c.call("A", c.ov_by["A"].request_attestation_advertisement, c.peer("A", "B"), h + b"\x19", "attribute25")
        return [("meet", meet, 1.0), ("attest", attest, 1.0), ("attest-long-chain", long_chain, 1.0), ("idle", None, 11.0)]

    def stimulate(self, ctx: Ctx) -> None:
        for n in _others(ctx):
            o = ctx.ov_by[n]
            ctx.call(n, o.walk_to, ctx.nut.address)
            ctx.call(n, o.ez_send, ctx.peer(n, ctx.nut_name), RequestMissingPayload(0))
            kb = ctx.nodes[n].my_peer.public_key.key_to_bin()
            ctx.ov.add_known_hash(b"late-attribute-hash".ljust(32, b"#"), "late", kb)
            ctx.call(n, o.request_attestation_advertisement, ctx.peer(n, ctx.nut_name),
                     b"late-attribute-hash".ljust(32, b"#"), "late")


def all_scenarios() -> list[Scenario]:
    s: list[Scenario] = [
        WalkScenario("A"), WalkScenario("B"),
        TrivialOnTunnelEndpoint("A"), TrivialOnStatisticsEndpoint("A"),
        DiscoveryScenario("A"), DiscoveryScenario("B"),
        PexScenario("A"),
        DHTScenario("A"), DHTScenario("B"),
        DHTDiscoveryScenario("A"), DHTDiscoveryScenario("B"),
        TunnelScenario("O"), TunnelScenario("R"), TunnelScenario("X"),
        TunnelScenario("X", hops=1, quick=False), TunnelScenario("R", hops=3, quick=False),
        TunnelScenario("R2", hops=3, quick=False), TunnelScenario("X", hops=3, quick=False),
        TunnelOnTunnelEndpoint("X"), TunnelOnTunnelEndpoint("O"), TunnelOnTunnelEndpoint("R", quick=False),
        TunnelOnStatisticsEndpoint("X"), TunnelOnStatisticsEndpoint("O"), TunnelOnStatisticsEndpoint("R", quick=False),
        HiddenScenario("O"), HiddenScenario("X"), HiddenScenario("R", quick=False),
        HiddenStopScenario("X"), HiddenStopScenario("O", quick=False),
        ServiceScenario(0), ServiceScenario(1), ServiceScenario(2),
        ServiceScenario(2, 3.0), ServiceScenario(1, 3.0),
        BootstrapScenario("dispersy-ip"), BootstrapScenario("dispersy-dns"), BootstrapScenario("udpbroadcast"),
        BootstrapServiceScenario(),
        IdentityScenario("A"), IdentityScenario("B"),
        WalletScenario("A", quick=False), WalletScenario("B"), WalletScenario("C"),
    ]
    return s


SCENARIOS = {s.name: s for s in all_scenarios()}


# ======================================================================================================================
# running a script event by event
# ======================================================================================================================

def events(ctx: Ctx, scn: Scenario, mid: tuple | None = None):  # noqa: ANN201
    """
    Generator: performs one event of the scripted run per next() and yields its description.

    mid = (k, j): the k-th event (1-based) is only *started* - the action is called / the datagram is handed to the
    loop / the clock is moved to the timer - and then exactly j single loop iterations run (no settle), so that the
    caller can request unload() between two loop iterations of that event.
    """
    w = ctx.w
    loop = w.loop
    n = 0

    def partial() -> bool:
        return mid is not None and n + 1 == mid[0]

    def spin() -> None:
        for _ in range(mid[1]):
            if loop.has_work():
                loop.iteration()

    for label, act, seconds in scn.phases():
        if act is not None:
            act(ctx)
            if partial():
                spin()
            else:
                loop.settle()
            n += 1
            yield ("act", label)
        deadline = loop.time() + seconds
        while True:
            if w.inflight:
                if partial():
                    dg = w.deliver(0, settle=False)
                    spin()
                else:
                    dg = w.deliver(0)
                n += 1
                yield ("datagram", dg.src[0], dg.dst[0], dg.data[22] if len(dg.data) > 22 else -1)
                continue
            nt = loop.next_timer()
            if nt is None or nt > deadline + 1e-9:
                break
            if partial():
                loop.settle()
                seams.CLOCK.set(nt)
                spin()
            else:
                loop.step_to_next_timer()
            n += 1
            yield ("timer", round(nt, 3))
        loop.advance_to(deadline)


def reference_run(scn: Scenario, seed: int) -> tuple[list, dict]:
    """The fault-free run: its event list and one valid datagram per message id for every destination node."""
    _BCAST_REC[0] = None
    ctx = scn.build(seed)
    try:
        evs = list(events(ctx, scn))
        lib: dict = {}
        nut_addr = tuple(ctx.nut.address)
        for dg in ctx.w.wire_log:
            if tuple(dg.dst) == nut_addr and len(dg.data) > 22:
                lib[dg.data[22]] = (tuple(dg.src), dg.data)
        return evs, lib
    finally:
        ctx.w.close()


_REF: dict = {}


def reference(scn: Scenario, seed: int) -> tuple[list, dict]:
    key = (scn.name, seed)
    if key not in _REF:
        _REF[key] = reference_run(scn, seed)
    return _REF[key]


# ======================================================================================================================
# one execution: k events, unload, late traffic, 2 h, oracle
# ======================================================================================================================

def _task_node(t):  # noqa: ANN001, ANN202
    try:
        return t.get_context().get(CURRENT_NODE)
    except Exception:  # noqa: BLE001
        return None


def _norm_task_name(name: str) -> str:
    name = re.sub(r"<(\w+)[^>]*>", r"<\1>", name)
    name = re.sub(r"[ _-]?\d+$", "", name)
    return re.sub(r"\d{3,}", "N", name)[:80]


def pending_of(ctx: Ctx) -> tuple[list[str], list[str]]:
    """(names of pending tasks, descriptions of live timers) created in the context of the node under test."""
    loop = ctx.w.loop
    nut = ctx.nut
    tasks = sorted(_norm_task_name(t.get_name()) for t in asyncio.all_tasks(loop)
                   if not t.done() and _task_node(t) is nut and not t.get_name().startswith(HARNESS_TASK)
                   and PROBE_NAME not in t.get_name()
                   and (ctx.task_prefixes is None or t.get_name().startswith(ctx.task_prefixes)))
    timers = []
    for h in ([] if ctx.task_prefixes is not None or ctx.skip_timers else loop._scheduled):  # noqa: SLF001
        if h._cancelled or h._context.get(CURRENT_NODE) is not nut:  # noqa: SLF001
            continue
        cb = h._callback  # noqa: SLF001
        timers.append(getattr(cb, "__qualname__", None) or getattr(cb, "__name__", None) or type(cb).__name__)
    return tasks, sorted(timers)


def pre_state(ctx: Ctx) -> tuple:
    """Signature of the node's state at the unload point (vacuity evidence: what was there to be cleaned up)."""
    ov = ctx.ov
    tasks, _ = pending_of(ctx)
    rc = getattr(ov, "request_cache", None)
    caches = sorted(type(c).__name__ for c in rc._identifiers.values()) if rc is not None else []  # noqa: SLF001
    tables = (len(ov.circuits), len(ov.relay_from_to), len(ov.exit_sockets)) if hasattr(ov, "exit_sockets") else ()
    to_nut = sum(1 for dg in ctx.w.inflight if tuple(dg.dst) == tuple(ctx.nut.address))
    open_sockets = sum(1 for t in ctx.w.loop.transports if t.owner is ctx.nut and not t.closed)
    return (tuple(tasks), tuple(caches), tables, to_nut, len(ctx.w.inflight), open_sockets)


class _ProbeCache(NumberCache):
    def __init__(self, rc, rec: Rec) -> None:  # noqa: ANN001
        super().__init__(rc, "c11-probe", 11)
        self.rec = rec

    @property
    def timeout_delay(self) -> float:
        return 1.0

    def on_timeout(self) -> None:
        self.rec.probe_runs.append("request_cache.add:on_timeout")


def probe_new_tasks(ctx: Ctx) -> list[tuple[str, str]]:
    """After unload: every way of handing the overlay new work must schedule nothing."""
    ov, rec, nut = ctx.ov, ctx.rec, ctx.nut
    out = []

    def runner(tag: str):  # noqa: ANN202
        async def probe() -> None:
            rec.probe_runs.append(tag)
        return probe

    def plain(tag: str):  # noqa: ANN202
        def probe() -> None:
            rec.probe_runs.append(tag)
        return probe

    tries = [
        ("register_task(coroutine function)", lambda: ov.register_task("c11 probe 1", runner("register_task"))),
        ("register_task(delay)", lambda: ov.register_task("c11 probe 2", plain("register_task(delay)"), delay=1.0)),
        ("register_task(interval)", lambda: ov.register_task("c11 probe 3", plain("register_task(interval)"),
                                                             interval=30.0)),
        ("register_anonymous_task", lambda: ov.register_anonymous_task("c11 probe", runner("register_anonymous_task"))),
        ("replace_task", lambda: ov.replace_task("c11 probe 1", runner("replace_task"))),
    ]
    for api, fn in tries:
        try:
            nut.run(fn)
        except Exception as e:  # noqa: BLE001 - refusing loudly is fine
            del e
    fut = ctx.w.loop.create_future()
    try:
        nut.run(ov.register_task, "c11 probe future", fut)
    except Exception:  # noqa: BLE001
        pass
    if ov.is_pending_task_active("c11 probe future"):
        out.append(("register_task(Future)", "a Future registered after unload is tracked as an active task"))
    if not fut.done():
        fut.cancel()
    rc = getattr(ov, "request_cache", None)
    if rc is not None:
        try:
            added = nut.run(rc.add, _ProbeCache(rc, rec))
        except Exception:  # noqa: BLE001
            added = None
        if added is not None:
            out.append(("request_cache.add", "request_cache.add() accepted a cache after unload"))
    return out


def switch_off_peers(ctx: Ctx) -> None:
    loop = ctx.w.loop
    peers = {id(n) for n in ctx.nodes.values() if n is not ctx.nut}
    for n in ctx.nodes.values():
        if n is not ctx.nut:
            n.endpoint.close()
    for t in asyncio.all_tasks(loop):
        node = _task_node(t)
        if not t.done() and node is not None and id(node) in peers:
            t.cancel()
    loop.settle()


def _outside_arrives(ctx: Ctx, transport, data: bytes = BT_PAYLOAD, src: tuple = OUTSIDE) -> None:  # noqa: ANN001
    rec = ctx.rec
    prev = rec.via
    rec.via = "exit-socket" if type(transport.protocol).__name__ == "TunnelProtocol" else "outside-socket"
    try:
        transport.protocol.datagram_received(data, src)
    finally:
        rec.via = prev


def run_one(scn_name: str, k: int, variant: str, seed: int, thorough: bool):  # noqa: ANN201
    """Returns (violations [(key, what)], observation, n_events_done)."""
    scn = SCENARIOS[scn_name]
    ref_events, lib = reference(scn, seed)
    ctx = scn.build(seed)
    w, loop = ctx.w, ctx.w.loop
    viol: list[tuple[str, str]] = []
    label = scn.label

    def add(key: str, what: str) -> None:
        if all(k0 != key for k0, _ in viol):
            viol.append((key, f"[{scn.name} k={k}/{len(ref_events)} {variant}: unload after "
                              f"{ref_events[k - 1] if k else 'nothing'}] {what}"))

    try:
        instrument(ctx)
        ctx.rec.nut = ctx.nut
        _BCAST_REC[0] = ctx.rec
        mid_j = int(variant[3:]) if variant.startswith("mid") else None
        gen = events(ctx, scn, (k, mid_j) if mid_j is not None and k > 0 else None)
        done = []
        for _ in range(k):
            try:
                done.append(next(gen))
            except StopIteration:
                break
        if [tuple(e) for e in done] != [tuple(e) for e in ref_events[:k]]:
            return [("harness:nondeterministic-replay", f"{scn.name}: prefix {k} of the scripted run diverged from the "
                     f"reference run: {done[-3:]} vs {ref_events[max(0, k - 3):k]}")], None, len(done)
        pre = pre_state(ctx)
        nut, ov, rec = ctx.nut, ctx.ov, ctx.rec
        children = scn.children(ctx)
        for child in children:                   # their handlers count as the overlay's own from now on
            for i, h in enumerate(child.decode_map):
                if h is not None:
                    child.decode_map[i] = _wrap_handler(rec, h, f"{type(child).__name__}.{_handler_name(h)}[{i}]")

        # ---- unload ---------------------------------------------------------------------------------------------
        n_wire = len(w.wire_log)
        if variant == "lost":
            w.send_hook = lambda dg: None if dg.sender is nut.endpoint else dg
        tok = CURRENT_NODE.set(nut)
        try:
            fut = asyncio.ensure_future(scn.unload_awaitable(ctx), loop=loop)
        finally:
            CURRENT_NODE.reset(tok)
        fut.set_name(HARNESS_TASK + "unload")
        horizon = loop.time() + 600.0
        delivered_during = 0
        while not fut.done():
            if variant == "race" and w.inflight:
                w.deliver(0, settle=False)
                delivered_during += 1
            if loop.has_work():
                loop.iteration()
                continue
            nt = loop.next_timer()
            if nt is None or nt > horizon:
                fut.cancel()
                loop.settle()
                add(f"unload-incomplete:{label}:hangs", "unload() did not return within 600 s of virtual time")
                break
            seams.CLOCK.set(nt)
        rec.mark()                                   # ---- unload() has returned: from here on silence is required
        w.send_hook = None
        sent_during = len(w.wire_log) - n_wire
        if fut.done() and not fut.cancelled() and fut.exception() is not None:
            e = fut.exception()
            add(f"unload-incomplete:{label}:{type(e).__name__}", f"unload() raised {type(e).__name__}: {e}")
        loop.settle()

        # (iii) nothing pending, (iv) sockets released - right after unload returned
        def check_resources(when: str) -> None:
            tasks, timers = pending_of(ctx)
            for name in sorted(set(tasks)):
                add(f"task-alive:{label}:{name}", f"{when}: task '{name}' of the unloaded node is still pending "
                                                  f"(all pending: {tasks})")
            if not tasks:
                for name in sorted(set(timers)):
                    add(f"timer-alive:{label}:{name}", f"{when}: a timer created by the unloaded node is still armed: "
                                                       f"{timers}")
            still_open = [t.local_addr for t in loop.transports if t.owner is nut and not t.closed]
            if still_open:
                add(f"socket-open:{label}", f"{when}: sockets opened by the node are still open: {still_open}")
            own_tasks = [str(n) for n, t in list(ov._pending_tasks.items())  # noqa: SLF001
                         if not t.done() and PROBE_NAME not in str(n)]
            if own_tasks:
                add(f"task-alive:{label}:registered", f"{when}: the overlay's TaskManager still tracks active tasks "
                                                      f"{own_tasks[:5]}")
        check_resources("when unload() returned")
        for child in children:
            ep = nut.endpoint
            registered = any(l is child for l in ep._listeners) or any(  # noqa: SLF001
                l is child for ls in ep._prefix_map.values() for l in ls)  # noqa: SLF001
            if registered:
                add(f"child-overlay-listening:{label}:{type(child).__name__}",
                    f"the {type(child).__name__} this overlay created is still registered as listener on the endpoint "
                    f"after unload() returned")

        # ---- late traffic ---------------------------------------------------------------------------------------
        n_late = len(w.inflight)
        w.flush()
        prefix = ov.get_prefix()
        nut_addr = tuple(nut.address)
        seen: dict = {}
        for dg in w.wire_log:
            if tuple(dg.dst) == nut_addr and len(dg.data) > 22 and dg.data[:22] == prefix:
                seen[dg.data[22]] = (tuple(dg.src), dg.data)
        peer_addr = tuple(ctx.nodes[_others(ctx)[0]].address)
        kinds = [0, 0, 0]
        for mid in range(256):
            if mid in seen:
                src, data = seen[mid]
                kinds[0] += 1
            elif mid in lib and lib[mid][1][:22] == prefix:
                src, data = lib[mid]
                kinds[1] += 1
            else:
                src, data = peer_addr, prefix + bytes([mid]) + b"\x00" * 8
                kinds[2] += 1
            w.inject(src, nut_addr, data, note="late")
            w.flush()
        for child in children:
            for mid in (233, 234, 245, 246, 249, 250):
                w.inject(peer_addr, nut_addr, child.get_prefix() + bytes([mid]) + b"\x00" * 8, note="late-child")
                w.flush()
        scn.stimulate(ctx)
        w.flush()
        for t in list(loop.transports):
            if t.owner is nut and not t.closed:
                tok = CURRENT_NODE.set(nut)
                try:
                    for payload in scn.outside_payloads(ctx):
                        loop.io_event(_outside_arrives, ctx, t, payload, peer_addr if payload[:1] != b"d" else OUTSIDE)
                finally:
                    CURRENT_NODE.reset(tok)
        w.flush()

        # ---- 2 hours --------------------------------------------------------------------------------------------
        first = scn.quiesce_after if scn.quiesce_after is not None else (POST_UNLOAD_S if thorough else PEERS_OFF_AFTER_S)
        w.run_for(first)
        scn.quiesce(ctx)
        if not thorough:
            switch_off_peers(ctx)
        w.run_for(POST_UNLOAD_S - first)

        # ---- oracle over everything since unload() returned -----------------------------------------------------
        after = rec.after()
        by_via: dict = {}
        for kind, via, detail in after:
            by_via.setdefault(via, []).append((kind, detail))
        for via, items in sorted(by_via.items()):
            kinds_seen = sorted({i[0] for i in items})
            add(f"reacts:{label}:via={via}", f"after unload() returned the overlay still ran {len(items)} times "
                f"({'+'.join(kinds_seen)}), reached via {via}; first: {items[:6]}")
        outside = [(t.local_addr, len(d), a) for t, d, a in loop.outside_log[rec.outside_mark:] if t.owner is nut]
        if outside:
            add(f"reacts:{label}:via=exit-socket", f"after unload() returned the node still sent {len(outside)} "
                f"datagrams to the Internet through its exit sockets: {outside[:3]}")
        check_resources("2 h after unload()")

        # ---- (iii, second half) new work handed to the unloaded overlay schedules nothing ------------------------
        for api, what in probe_new_tasks(ctx):
            add(f"accepts-task:{label}:{'request_cache' if api.startswith('request_cache') else 'taskmanager'}",
                f"{api}: {what}")
        w.run_for(35.0)
        for comp in ("request_cache", "taskmanager"):
            apis = sorted({a for a in rec.probe_runs if a.startswith("request_cache") == (comp == "request_cache")})
            if apis:
                add(f"accepts-task:{label}:{comp}", f"work handed to the overlay after unload() returned was executed: "
                                                    f"{apis}")
        obs = (scn.name, pre, ref_events[k - 1][0] if k else "start", sent_during > 0, delivered_during > 0, n_late > 0)
        return viol, obs, len(done)
    finally:
        w.close()


# ======================================================================================================================
# TaskManager alone: exhaustive short sequences
# ======================================================================================================================

TM_NAMES = ("a", "b", "c")
TM_OPS = ("reg", "regi", "rep", "can")
TM_GLOBAL = ("it", "tick", "sd")


class TMRun:
    """Executes one sequence on a bare TaskManager and checks it against the statement."""

    def __init__(self) -> None:
        self.loop = vloop.new_loop()
        self.tm = TaskManager()
        self.log: list[tuple] = []          # ("start"|"end"|"cancelled"|"exit"|"run", instance)
        self.inst: dict[int, dict] = {}     # instance -> {"name","kind","cancel_req","direct","replaces":[...]}
        self.next_id = 0
        self.shutdown_task = None
        self.viol: list[tuple[str, str]] = []
        self.shutdown_mark: int | None = None

    async def body(self, i: int) -> None:
        self.log.append(("start", i))
        try:
            try:
                await asyncio.sleep(3.0)
                self.log.append(("end", i))
            except CancelledError:
                self.log.append(("cancelled", i))
                await asyncio.sleep(0)      # a coroutine that needs one more iteration to wind down
                raise
        finally:
            self.log.append(("exit", i))

    def tickfn(self, i: int) -> None:
        self.log.append(("run", i))

    def exited(self, i: int) -> bool:
        return ("exit", i) in self.log

    def active(self, name: str) -> list[int]:
        """Instances the statement calls 'still active' under this name: known to be registered, not finished,
        nobody asked for their cancellation."""
        out = []
        for i, d in self.inst.items():
            if d["name"] != name or d["cancel_req"] or not d["registered"]:
                continue
            if d["kind"] == "coro" and self.exited(i):
                continue
            out.append(i)
        return out

    def new_instance(self, name: str, kind: str) -> int:
        i = self.next_id
        self.next_id += 1
        self.inst[i] = {"name": name, "kind": kind, "cancel_req": False, "registered": False, "replaces": []}
        return i

    def refresh(self) -> None:
        # a replacement is known to be registered once its coroutine has logged its start
        for i, d in self.inst.items():
            if not d["registered"] and d.get("via_replace") and ("start", i) in self.log:
                others = [o for o in self.active(d["name"]) if o != i]
                d["registered"] = True
                if others and self.shutdown_task is None:
                    self.viol.append(("tm:active-name-accepted", f"the replacement coroutine for '{d['name']}' "
                                      f"(instance {i}) was started although instance(s) {others} registered under "
                                      f"that name are still active"))
        if self.shutdown_task is not None and self.shutdown_task.done() and self.shutdown_mark is None:
            self.shutdown_mark = len(self.log)

    def apply(self, ev: tuple) -> None:
        op = ev[0]
        tm = self.tm
        shutting = self.shutdown_task is not None
        if op in ("reg", "regi"):
            name = ev[1]
            act = self.active(name)
            i = self.new_instance(name, "coro" if op == "reg" else "interval")
            try:
                if op == "reg":
                    tm.register_task(name, self.body, i)
                else:
                    tm.register_task(name, self.tickfn, i, interval=1.0)
                ok = True
            except RuntimeError:
                ok = False
            if ok and act and not shutting:
                self.viol.append(("tm:active-name-accepted", f"register_task('{name}') succeeded although instance(s) "
                                  f"{act} registered under that name are still active"))
            if ok:
                self.inst[i]["registered"] = True
                if shutting:
                    self.inst[i]["after_shutdown_request"] = True
        elif op == "rep":
            name = ev[1]
            olds = self.active(name)
            i = self.new_instance(name, "coro")
            self.inst[i]["via_replace"] = True
            self.inst[i]["replaces"] = olds
            for o in olds:
                self.inst[o]["cancel_req"] = True
            tm.replace_task(name, self.body, i).add_done_callback(_swallow)
        elif op == "can":
            name = ev[1]
            for o in self.active(name):
                self.inst[o]["cancel_req"] = True
            tm.cancel_pending_task(name)
        elif op == "it":
            if self.loop.has_work():
                self.loop.iteration()
        elif op == "tick":
            nt = self.loop.next_timer()
            if nt is not None and not self.loop.has_work():
                seams.CLOCK.set(nt)
            if self.loop.has_work():
                self.loop.iteration()
        elif op == "sd":
            if self.shutdown_task is None:
                self.shutdown_task = asyncio.ensure_future(tm.shutdown_task_manager(), loop=self.loop)
                for d in self.inst.values():
                    if d["registered"]:
                        d["cancel_req"] = True
        self.refresh()

    def finish(self) -> None:
        """Wind the sequence up: shutdown (if the sequence did not), wait for it, probe, 2 h; then the checks."""
        loop = self.loop
        if self.shutdown_task is None:
            # let what was started get going, then shut down
            for _ in range(3):
                if loop.has_work():
                    loop.iteration()
                    self.refresh()
            self.apply(("sd",))
        guard = 0
        while not self.shutdown_task.done():
            if loop.has_work():
                loop.iteration()
            else:
                nt = loop.next_timer()
                if nt is None or nt > loop.time() + 60:
                    self.viol.append(("tm:shutdown-hangs", "shutdown_task_manager() did not complete within 60 s"))
                    break
                seams.CLOCK.set(nt)
            self.refresh()
            guard += 1
            if guard > 10000:
                self.viol.append(("tm:shutdown-hangs", "shutdown_task_manager() did not complete in 10000 iterations"))
                break
        self.refresh()
        mark = self.shutdown_mark if self.shutdown_mark is not None else len(self.log)
        probe = self.new_instance("a", "coro")
        probe2 = self.new_instance("b", "interval")
        try:
            self.tm.register_task("a", self.body, probe)
            self.tm.register_task("b", self.tickfn, probe2, interval=1.0)
            self.tm.replace_task("c", self.body, probe).add_done_callback(_swallow)
        except RuntimeError:
            pass
        end = loop.time() + 7200.0
        while True:                 # 2 h of timers, but no need to watch a leaked interval task 7200 times
            loop.settle()
            if any(e[0] in ("start", "run", "end") for e in self.log[mark:]):
                break
            nt = loop.next_timer()
            if nt is None or nt > end:
                break
            seams.CLOCK.set(nt)
        late = [e for e in self.log[mark:] if e[0] in ("start", "run", "end")]
        late_probe = [e for e in late if e[1] in (probe, probe2)]
        late_old = [e for e in late if e[1] not in (probe, probe2)]
        if late_old:
            self.viol.append(("tm:runs-after-shutdown", f"after shutdown_task_manager() returned, registered work still "
                              f"ran: {late_old[:4]} (instances: "
                              f"{ {i: (d['name'], d['kind']) for i, d in self.inst.items() if i in {e[1] for e in late_old}} })"))
        if late_probe:
            self.viol.append(("tm:accepts-after-shutdown", f"work registered after shutdown was executed: {late_probe[:3]}"))
        # replacement order
        for j, d in self.inst.items():
            if not d.get("via_replace") or ("start", j) not in self.log:
                continue
            sj = self.log.index(("start", j))
            for o in d["replaces"]:
                if self.inst[o]["kind"] == "coro":
                    started = ("start", o) in self.log
                    if started and (("exit", o) not in self.log or self.log.index(("exit", o)) > sj):
                        self.viol.append(("tm:replace-overlap", f"replace_task('{d['name']}'): the new coroutine "
                                          f"(instance {j}) started before the replaced one (instance {o}) had finished: "
                                          f"{self.log[:sj + 1][-6:]}"))
                elif any(e == ("run", o) for e in self.log[sj:]):
                    self.viol.append(("tm:replace-overlap", f"replace_task('{d['name']}'): the replaced interval task "
                                      f"(instance {o}) still ran after its replacement (instance {j}) had started"))

    def close(self) -> None:
        self.loop.shutdown()


def tm_run_sequence(seq: list) -> tuple[list, tuple]:
    seams.reseed(("c11-tm",))
    r = TMRun()
    try:
        for ev in seq:
            r.apply(tuple(ev))
        r.finish()
        kinds = tuple(sorted({e[0] for e in r.log}))
        return r.viol, (kinds, len(r.log))
    finally:
        r.close()


def tm_extensions(used: int) -> list[tuple]:
    """Events available when `used` names have appeared so far (names are interchangeable: a new name is always
    the next unused one)."""
    out = []
    for ni in range(min(used + 1, len(TM_NAMES))):
        for op in TM_OPS:
            out.append((op, TM_NAMES[ni]))
    out.extend((g,) for g in TM_GLOBAL)
    return out


def tm_used(seq: tuple) -> int:
    return len({e[1] for e in seq if len(e) > 1})


_TM_DEPTH = 5


def tm_explore(chunk: list) -> list:
    """chunk: list of prefixes; explores every canonical extension up to _TM_DEPTH."""
    res = []
    for prefix in chunk:
        n = 0
        outcomes = set()
        viols: dict = {}
        stack = [tuple(tuple(e) for e in prefix)]
        while stack:
            seq = stack.pop()
            v, obs = tm_run_sequence(list(seq))
            n += 1
            outcomes.add(obs)
            for key, what in v:
                if key not in viols or len(seq) < len(viols[key][1]):
                    viols[key] = (what, seq)
            if len(seq) < _TM_DEPTH:
                for ev in tm_extensions(tm_used(seq)):
                    stack.append((*seq, ev))
        res.append((n, len(outcomes), viols))
    return res


def tm_prefixes(length: int) -> list[tuple]:
    seqs: list[tuple] = [()]
    for _ in range(length):
        seqs = [(*s, ev) for s in seqs for ev in tm_extensions(tm_used(s))]
    return seqs


# ======================================================================================================================
# run / replay
# ======================================================================================================================

_SEED = 0
_THOROUGH = False


def explore_points(chunk: list) -> list:
    out = []
    for scn_name, k, variant in chunk:
        try:
            v, obs, n = run_one(scn_name, k, variant, _SEED, _THOROUGH)
        except Exception as e:  # noqa: BLE001
            import traceback
            v, obs, n = [(f"harness:crash:{type(e).__name__}", f"{scn_name} k={k} {variant}: "
                          + traceback.format_exc()[-1500:])], None, 0
        out.append((scn_name, k, variant, v, obs))
    return out


def run(ctx: core.Ctx) -> core.Report:
    global _SEED, _THOROUGH, _TM_DEPTH
    _SEED = ctx.seed % 8
    _THOROUGH = ctx.thorough
    _TM_DEPTH = 6 if ctx.thorough else 5
    scns = [s for s in all_scenarios() if ctx.thorough or s.quick]
    violations: list[core.Violation] = []
    per = []
    samples: list = []
    items = []
    points = 0
    for s in scns:
        evs, lib = reference(s, _SEED)
        evs2, _ = reference_run(s, _SEED)           # determinism self-check of the scripted run
        if [tuple(e) for e in evs] != [tuple(e) for e in evs2]:
            core.eprint(f"C11: scripted run {s.name} is not reproducible")
            raise SystemExit(2)
        kinds = {}
        for e in evs:
            kinds[e[0]] = kinds.get(e[0], 0) + 1
        per.append({"scenario": s.name, "events": len(evs), "kinds": kinds, "valid_msg_ids_captured": len(lib)})
        if len(samples) < 3:
            k = (len(evs) * (len(samples) + 1)) // 4
            samples.append({"scenario": s.name, "unload_after_event": k, "variant": s.variants()[len(samples) % 2],
                            "history": [list(e) for e in evs[:k]]})
        for k in range(len(evs) + 1):
            for v in s.variants(ctx.thorough):
                if v.startswith("mid") and k == 0:
                    continue                    # there is no event to be in the middle of
                items.append((s.name, k, v))
        points += len(evs) + 1
    res = core.pmap(explore_points, items, ctx.jobs, chunk=3)
    seen_keys: dict = {}
    obs_set = set()
    execs = 0
    rank = {v: i for i, v in enumerate((*VARIANTS, *(f"mid{j}" for j in range(16))))}
    for scn_name, k, variant, v, obs in sorted(res, key=lambda r: (r[0], r[1], rank[r[2]])):
        execs += 1
        if obs is not None:
            obs_set.add(repr(obs))
        for key, what in v:
            if key not in seen_keys:
                seen_keys[key] = core.Violation(key, what, {"kind": "unload", "scenario": scn_name, "k": k,
                                                           "variant": variant, "seed": _SEED, "thorough": _THOROUGH})
    broken = [v for key, v in seen_keys.items() if key.startswith("harness:")]
    if broken:
        for v in broken[:3]:
            core.eprint(f"C11: harness failure {v.key}: {v.what[:1500]}")
        raise SystemExit(2)
    violations.extend(seen_keys.values())

    # TaskManager alone
    prefixes = tm_prefixes(2)
    tm_res = core.pmap(tm_explore, [list(p) for p in prefixes], ctx.jobs, chunk=2)
    for short in [(), *tm_prefixes(1)]:             # the sequences shorter than a prefix
        v, obs = tm_run_sequence(list(short))
        tm_res.append((1, 1, {key: (what, short) for key, what in v}))
    tm_execs = sum(r[0] for r in tm_res)
    tm_outcomes = sum(r[1] for r in tm_res)
    tm_v: dict = {}
    for _, _, viols in tm_res:
        for key, (what, seq) in viols.items():
            if key not in tm_v or (len(seq), seq) < (len(tm_v[key][1]), tm_v[key][1]):
                tm_v[key] = (what, seq)
    for key, (what, seq) in sorted(tm_v.items()):
        violations.append(core.Violation(key, f"TaskManager sequence {[list(e) for e in seq]}: {what}",
                                         {"kind": "taskmanager", "sequence": [list(e) for e in seq]}))

    cov = {
        "evaluations": execs + tm_execs,
        "distinct_nontrivial": len(obs_set) + tm_outcomes,
        "rule": "one evaluation = (a) one complete execution of real overlays with default settings: k events of a "
                "scripted run, unload() of the overlay under test in one of the variants quiet/race/lost/mid<j>, late traffic "
                "(everything in flight, a valid datagram for every message id seen plus synthetic ones for all other "
                "ids 0..255, fresh requests of the peers, datagrams from outside on the node's sockets) and 2 h of "
                "virtual time, for EVERY k <= N of every scenario; or (b) one sequence of TaskManager operations "
                "(register, register interval, replace, cancel on up to three interchangeable names; one loop "
                "iteration; advance to next timer; shutdown) up to the stated depth followed by shutdown and 2 h. "
                "distinct_nontrivial = distinct (scenario, tasks/caches/tunnel tables/in-flight/open sockets at the "
                "unload point, kind of the last event, whether unload sent / raced / left traffic in flight) "
                "observations + distinct (set of coroutine log kinds, log length) outcomes summed over TaskManager "
                "prefix classes",
        "samples": [*samples, {"taskmanager_sequence": [list(e) for e in prefixes[len(prefixes) // 2]] + [["it"], ["sd"]]}],
        "exhaustive": True,
        "scenarios": per,
        "unload_points": points,
        "variants": {"tunnel overlays": list(VARIANTS), "other overlays": list(VARIANTS[:2]),
                     "mid<j> (unload j loop iterations into event k, k >= 1)": {
                         "j": list(MID_STEPS),
                         "scenarios": "all" if ctx.thorough else sorted(s.name for s in scns if len(s.variants()) > 3)}},
        "unload_executions": execs,
        "distinct_unload_observations": len(obs_set),
        "taskmanager_depth": _TM_DEPTH,
        "taskmanager_sequences": tm_execs,
        "post_unload_virtual_seconds": POST_UNLOAD_S,
        "peers_alive_after_unload_s": POST_UNLOAD_S if ctx.thorough else PEERS_OFF_AFTER_S,
    }
    return core.Report(LEVEL, cov, violations, [
        "FIFO delivery in the scripted run (losses/reorderings are C09's subject); the unload point, not the schedule, "
        "is what is enumerated",
        "AttestationCommunity and IdentityCommunity run with working_directory=':memory:' (the default would create "
        "sqlite files in the current directory), PexCommunity needs an info_hash; everything else is default settings",
        "HiddenTunnelCommunity without an IPv8 service object (settings default): no PexCommunity is spawned; e2e "
        "rendezvous circuits are not scripted",
        "PythonCryptoEndpoint only; crypto primitives trusted; bootstrappers none",
        "IPv8Service scenarios: the service's ticker is stopped 30 s after the unload (60 more tick rounds); tasks are "
        "judged by the unloaded overlay's own TaskManager name prefixes because its sibling overlays share the node",
        "a task whose cancellation was requested is not counted as 'still active' for the refuse-active-name check",
        "quick tier switches the peers off 600 s after the unload (the remaining time only the node itself runs); "
        "thorough keeps them alive for the whole 2 h",
    ])


def replay(ctx: core.Ctx, data) -> list:  # noqa: ANN001
    if not data:
        return []
    if data.get("kind") == "taskmanager":
        v, _ = tm_run_sequence([tuple(e) for e in data["sequence"]])
        seen = {}
        for key, what in v:
            seen.setdefault(key, what)
        return [core.Violation(k, w) for k, w in seen.items()]
    v, _, _ = run_one(data["scenario"], int(data["k"]), data["variant"], int(data["seed"]), bool(data.get("thorough")))
    return [core.Violation(k, w) for k, w in v]
