"""
C13 - Introduced peers behind cone NATs become mutually reachable.

Configuration x order enumeration on real ``Community`` overlays over a NAT-enforcing SimNet (mc/ref/c13_nat.py).

World: requester A, introducer B (public), introduced candidate C plus up to four further candidates D1..D4
(public / full cone / address restricted / port restricted, each on its own box).  Nodes are set up as in production:
RFC 1918 socket address, LAN discovery returns that address, ``my_estimated_lan`` derived by the library,
``my_estimated_wan`` LEARNT from introduction responses, ``my_peer`` created without an address.

One execution:
  warm-up   A, C, D1.. walk to B in that order (FIFO delivery), so that B knows everybody and everybody learnt its
            WAN address; then every NAT session except the one with B times out (mappings stay).
            Variants: ``warm=cold`` - A skips the warm-up, the round is its very first contact (no mapping, WAN address
            unknown); ``via=b-walked`` - B gets to know C the other way round: C walks to the public D1, B walks to
            D1, D1 introduces C to B, B walks to C (B then verified C from an introduction *response*).
  round     A asks B for an introduction; ``random.choice`` inside ``get_peer_for_introduction`` is an enumerated
            choice point (every candidate is forced in turn, X = the introduced peer); B's answer and puncture
            request are in flight; from here on the delivery order is the explored schedule: the first DEPTH
            deliveries range over every datagram in flight, the rest is FIFO (thorough: DEPTH unbounded = every
            delivery order of the whole round).  As soon as A knows walkable addresses it walks to all of them
            ("A's next walk").
  oracle    (1) B sent a puncture request to X;
            (2) if X's puncture left X before any contact attempt of A arrived at X (or X's NAT): at quiescence
                X in A.get_peers() and A in X.get_peers();
            (3) otherwise A walks once more to everything walkable and then (2)'s conclusion must hold;
            (4) same-box pairs never address each other through their box's public IP (hairpin log empty);
            (5) after the FIFO schedule the stock RandomWalk (time-out 3 s, step every 0.5 s) runs on A and X for 10 s of
                virtual time: at every tick A and X must still be in each other's get_peers();
            (6) nothing raises (loop exception handler, exceptions logged by Community.on_packet, API calls).
"""
from __future__ import annotations

import random
import sys
import traceback

import ipv8.community as community_mod
import ipv8.peerdiscovery.discovery as discovery_mod
from ipv8.community import Community, CommunitySettings
from ipv8.messaging.interfaces.udp.endpoint import UDPv4Address
from ipv8.peer import Peer
from ipv8.peerdiscovery.community import DiscoveryCommunity
from ipv8.peerdiscovery.discovery import RandomWalk
from ipv8.peerdiscovery.network import Network

from .. import core, fixtures
from ..ref.c13_nat import NAT_KINDS, NatWorld

LEVEL = "exploration"

B_ADDR = ("2.2.2.2", 2000)
EXTRA_KINDS = ["none", "full", "addr", "port"]      # D1..D4
STEP_CAP = 400


class C13Community(Community):
    community_id = b"c13-introduction-nat"
    assert len(community_id) == 20


class C13Discovery(DiscoveryCommunity):
    """The overlay every IPv8 node runs: its own handler for old-style introduction requests, plus similarity traffic."""

    community_id = b"c13-discovery-in-nat"
    assert len(community_id) == 20


# --- choice seam --------------------------------------------------------------------------------------------------

class Chooser:
    """Replacement of ``ipv8.community.choice``: deterministic default, one forced pick on request."""

    def __init__(self) -> None:
        self.world = None

    def __call__(self, seq):  # noqa: ANN001, ANN204
        seq = list(seq)
        w = self.world
        if w is None or not seq:
            return seq[0]
        if not all(isinstance(p, Peer) for p in seq):       # RandomWalk.take_step choosing a walkable address
            if w.force_addr is not None and w.force_addr in seq:
                return seq[seq.index(w.force_addr)]
            return sorted(seq)[random.randrange(len(seq))]    # seeded per world: deterministic
        names = sorted(w.name_of(p) for p in seq)
        by_name = {w.name_of(p): p for p in seq}
        caller = w.current_node_name()
        pick = names[random.randrange(len(names))] if w.phase == "post" else names[0]
        forced = False
        if w.force_pick is not None and caller == "B":
            idx = w.force_pick
            w.force_pick = None
            w.offered = names
            if idx < len(names):
                pick, forced = names[idx], True
            else:
                w.pick_unavailable = True
        w.choice_log.append((w.phase, caller, tuple(names), pick, forced))
        if forced:
            w.introduced = pick
        return by_name[pick]


CHOOSER = Chooser()
community_mod.choice = CHOOSER
discovery_mod.choice = CHOOSER


def _randint(a: int, b: int) -> int:
    """RandomWalk's walk-or-ask-for-an-introduction coin: forced to "walk" while the harness drives a step."""
    w = CHOOSER.world
    return b if (w is not None and w.force_walk) else random.randint(a, b)


discovery_mod.randint = _randint


class RecLogger:
    """Stands in for an overlay's logger: Community.on_packet swallows handler exceptions into logger.exception."""

    def __init__(self, inner, sink: list, name: str) -> None:  # noqa: ANN001
        self._inner, self._sink, self._name = inner, sink, name

    def exception(self, msg, *args, **kwargs) -> None:  # noqa: ANN001, ANN002, ANN003
        exc = sys.exc_info()[1]
        self._sink.append((self._name, type(exc).__name__ if exc else "?", "".join(traceback.format_exception(exc))[-800:]
                           if exc else str(msg)))

    def __getattr__(self, item):  # noqa: ANN001, ANN204
        return getattr(self._inner, item)


# --- the world ----------------------------------------------------------------------------------------------------

class IntroWorld(NatWorld):
    def __init__(self, cfg: dict, seed: int) -> None:
        super().__init__(("c13", seed, repr(sorted(cfg.items()))))
        self.cfg = cfg
        self.ov: dict[str, C13Community] = {}
        self.key_name: dict[bytes, str] = {}
        self.logged: list = []
        self.api_errors: list = []
        self.force_pick: int | None = None
        self.offered: list | None = None
        self.pick_unavailable = False
        self.introduced: str | None = None
        self.choice_log: list = []
        self.kind_of: dict[str, str] = {}
        self.strat: dict[str, RandomWalk] = {}
        self.force_addr: tuple | None = None
        self.force_walk = False
        keys = fixtures.rotate(seed, 3 + 4)
        ports = cfg["ports"]
        placement, ta, tc = cfg["placement"], cfg["ta"], cfg["tc"]
        self._mk("B", keys[1], "none", None, B_ADDR[0], None, B_ADDR[1])
        if placement == "same":
            assert ta == tc and ta != "none"
            box = self.add_box("N", "9.9.9.9", ta, ports)
            self._mk("A", keys[0], ta, box, None, "192.168.1.2", 5000)
            self._mk("C", keys[2], tc, box, None, "192.168.1.3", 6000)
        elif cfg.get("twin"):
            # A2 is a second node behind A's NAT box (same public IP, another mapped port)
            assert ta != "none"
            box_a = self.add_box("NA", "5.5.5.5", ta, ports)
            self._mk("A", keys[0], ta, box_a, None, "192.168.1.2", 5000)
            self._mk("A2", keys[6], ta, box_a, None, "192.168.1.9", 5001)
            self._mk("C", keys[2], tc, None, "6.6.6.6", "10.0.2.3", 6000)
        else:
            self._mk("A", keys[0], ta, None, "5.5.5.5", "192.168.1.2", 5000)
            self._mk("C", keys[2], tc, None, "6.6.6.6", "10.0.2.3", 6000)
        if cfg.get("shadow"):
            # E lives behind another (full-cone) NAT and happens to have the very LAN address C has: consumer routers
            # hand out the same few private ranges everywhere
            assert placement == "same"
            self._mk("E", keys[6], "full", None, "7.7.7.7", "192.168.1.3", 6000)
        lan_ips = ["11.1.1.1", "10.12.0.2", "172.16.13.2", "192.168.14.2"]
        for i in range(cfg["k"] - 1):
            self._mk(f"D{i + 1}", keys[3 + i], EXTRA_KINDS[i], None, f"1{i + 1}.1.1.1", lan_ips[i], 7001 + i)
        CHOOSER.world = self

    def _mk(self, name: str, key_index: int, kind: str, box, public_ip, lan_ip, port: int) -> None:  # noqa: ANN001
        self.kind_of[name] = kind
        if kind == "none":
            node = self.add_public_node(name, key_index, public_ip, port)
        else:
            if box is None:
                box = self.add_box("N" + name, public_ip, kind, self.cfg["ports"])
            node = self.add_lan_node(name, key_index, box, lan_ip, port)
        # production: IPv8 creates my_peer without any address; the overlay derives its LAN estimate itself and the
        # WAN estimate starts out as that same value until an introduction response says otherwise
        node.my_peer = Peer(fixtures.private_key(key_index))
        cls = C13Discovery if self.cfg.get("overlay") == "discovery" else C13Community
        ov = node.run(lambda: cls(cls.settings_class(my_peer=node.my_peer, endpoint=node.endpoint,
                                                     network=node.network)))
        ov.logger = RecLogger(ov.logger, self.logged, name)
        node.overlays.append(ov)
        self.ov[name] = ov
        self.key_name[node.my_peer.public_key.key_to_bin()] = name

    def name_of(self, peer: Peer) -> str:
        return self.key_name.get(peer.public_key.key_to_bin(), "?")

    def current_node_name(self) -> str | None:
        from ..vloop import CURRENT_NODE
        n = CURRENT_NODE.get()
        return n.name if n is not None else None

    def call(self, name: str, fn, *args) -> None:  # noqa: ANN001, ANN002
        try:
            self.nodes[name].run(fn, *args)
        except Exception as e:  # noqa: BLE001
            self.api_errors.append((name, getattr(fn, "__name__", "?"), type(e).__name__,
                                    "".join(traceback.format_exception(e))[-800:]))

    def request_intro(self, name: str, address: tuple, new_style: bool) -> None:
        ov = self.ov[name]
        if new_style:
            self.call(name, lambda: ov.endpoint.send(address, ov.create_introduction_request(address, new_style=True)))
        else:
            self.call(name, ov.walk_to, address)

    def peers_of(self, name: str) -> set:
        return {self.name_of(p) for p in self.ov[name].get_peers()}

    def strategy(self, name: str) -> RandomWalk:
        """The stock walker, parameterised as ipv8_service does by default."""
        if name not in self.strat:
            self.strat[name] = RandomWalk(self.ov[name], timeout=3.0)
        return self.strat[name]

    def walk_all(self, name: str, stock_walker: bool = False) -> list:
        ov = self.ov[name]
        addrs = sorted(tuple(a) for a in ov.get_walkable_addresses())
        if stock_walker:
            # through the real RandomWalk.take_step (window 5), so that its time-out bookkeeping knows about the walks
            st = self.strategy(name)
            for a in addrs:
                self.force_addr, self.force_walk = a, True
                try:
                    self.call(name, st.take_step)
                finally:
                    self.force_addr, self.force_walk = None, False
            return [a for a in addrs if a in st.intro_timeouts]
        for a in addrs:
            # walk_to() decides the message style from what the introduction said about the address
            self.call(name, ov.walk_to, next(x for x in ov.get_walkable_addresses() if tuple(x) == a))
        return addrs

    def close(self) -> None:
        if CHOOSER.world is self:
            CHOOSER.world = None
        super().close()


def style_of(cfg: dict, name: str) -> bool:
    s = cfg["style"]
    return s == "new" or (s == "A-new" and name == "A") or (s == "X-new" and name != "A")


POST_TICKS = 20        # x 0.5 s: the stock walker runs 10 s of virtual time after the round (its time-out is 3 s)


def run_one(cfg: dict, schedule: tuple, seed: int, depth: int, post: bool = False) -> dict:
    """One execution.  Returns violations [(key, what)], avail (in-flight count per main-round step), obs, trace."""
    cfg = {"style": "old", "k": 1, "pick": 0, "ports": "shift", "warm": "warm", "via": "x-walked", "rewarm": "1",
           "remap": "none", "start": "fresh", **cfg}
    w = IntroWorld(cfg, seed)
    viol: list = []
    try:
        # ---- warm-up ------------------------------------------------------------------------------------------
        w.phase = "warmup"
        cold = cfg["warm"] == "cold"
        b_walked = cfg["via"] == "b-walked"
        order = ([] if cold else ["A"]) + ["C"] + [f"D{i + 1}" for i in range(cfg["k"] - 1)]
        rewarm = cfg["rewarm"] != "1"

        def again(name: str) -> None:
            # the periodic walk to a peer one already knows: the library picks the message style it was upgraded to
            ov = w.ov[name]
            pb = next((p for p in ov.get_peers() if w.name_of(p) == "B"), None)
            if pb is not None:
                w.call(name, ov.get_new_introduction, pb)
                w.flush()

        if not cold:        # A first (twice in the re-walk variants), so that A enters the round knowing only B
            w.request_intro("A", B_ADDR, style_of(cfg, "A"))
            w.flush()
            if rewarm:
                again("A")
        if b_walked:
            # B gets to know C by walking to it: C walks to the public D1, B walks to D1, D1 introduces C to B (and asks
            # C to puncture), B walks to what it was told.  B then has verified C from an introduction *response*.
            assert cfg["k"] >= 2
            d1 = tuple(w.nodes["D1"].address)
            w.request_intro("C", d1, style_of(cfg, "C"))
            w.flush()
            w.request_intro("B", d1, style_of(cfg, "B"))
            w.flush()
            w.walk_all("B")
            w.flush()
            walkers = [f"D{i + 1}" for i in range(1, cfg["k"] - 1)]
        else:
            walkers = [n for n in order if n != "A"]
        for name in walkers:
            w.request_intro(name, B_ADDR, style_of(cfg, name))
            w.flush()
        if rewarm:          # everybody asks B a second time (in b-walked worlds this is C's first request to B)
            for name in (["C"] if b_walked else []) + walkers:
                again(name)
        if cfg["rewarm"] == "2+b":      # ... and B itself asks C once more
            ov_b = w.ov["B"]
            pc = next((p for p in ov_b.get_peers() if w.name_of(p) == "C"), None)
            if pc is not None:
                w.call("B", ov_b.get_new_introduction, pc)
                w.flush()
        if cfg.get("shadow"):
            # E registers with B; A gets to know E (a verified peer of A whose recorded LAN address equals C's)
            w.request_intro("E", B_ADDR, style_of(cfg, "C"))
            w.flush()
            w.request_intro("A", w.public_address_of("E"), style_of(cfg, "A"))
            w.flush()
            order = [*order, "E"]
        # history: NAT mapping renewed on another port (public node: re-bound), then an ordinary re-announcement to B
        remapped = {}
        stash: list = []
        if cfg["remap"] == "C-restart":
            # C's process restarted (same key and LAN port) and its NAT mapping had expired: the new process comes out of
            # another public port and, knowing nothing about B's abilities, registers with an OLD-style request.  B handles
            # that request; A's request is the very next datagram B handles - C's follow-up traffic arrives afterwards.
            old_addr, _ = w.remap("C")
            w.request_intro("C", B_ADDR, False)
            if w.inflight:
                w.deliver(0)
            remapped["C"] = (old_addr, w.public_address_of("C"))
            stash = list(w.inflight)
            del w.inflight[:]
        for name in {"none": (), "C": ("C",), "A": ("A",), "both": ("C", "A"), "C-restart": ()}[cfg["remap"]]:
            old_addr, _ = w.remap(name)
            if w.box_of[name] is None:
                w.ov[name]._my_estimated_lan = None      # a re-opened socket: the library derives its LAN estimate anew
            again(name)
            remapped[name] = (old_addr, w.public_address_of(name))
        reunion = None
        if cfg["start"] in ("reunion", "reunion-both"):
            # A and C have been connected before: a complete earlier round (FIFO), after which C's NAT lost its state
            # (new public port, empty filter), C re-announced itself to B, and A dropped C as churn does with a peer that
            # stopped answering - while C (reunion) still lists A as verified or (reunion-both) dropped A as well.
            ov_a0 = w.ov["A"]
            pb0 = next((p for p in ov_a0.get_peers() if w.name_of(p) == "B"), None)
            if pb0 is not None:
                w.force_pick = cfg["pick"]
                w.call("A", ov_a0.get_new_introduction, pb0)
                w.flush()
                for _ in range(2):
                    w.walk_all("A")
                    w.flush()
            reunion = ("C" in w.peers_of("A"), "A" in w.peers_of("C"))
            old_addr, _ = w.remap("C")
            if w.box_of["C"] is None:
                w.ov["C"]._my_estimated_lan = None
            again("C")
            remapped["C"] = (old_addr, w.public_address_of("C"))
            for holder, gone in (("A", "C"), ("C", "A"))[:2 if cfg["start"] == "reunion-both" else 1]:
                net = w.nodes[holder].network
                for p in [p for p in net.verified_peers if w.name_of(p) == gone]:
                    net.remove_peer(p)
            w.introduced = None
            w.offered = None
            w.force_pick = None
        if cfg.get("twin"):
            # A2 (behind A's NAT) registers with B and is introduced to the same peer by a request that carries the very
            # identifier A's request is going to carry (two freshly started nodes count from the same global time);
            # afterwards B has forgotten A2 again (churn), so that B's candidates are what they were
            w.request_intro("A2", B_ADDR, style_of(cfg, "A"))
            w.flush()
            ov_2 = w.ov["A2"]
            pb2 = next((p for p in ov_2.get_peers() if w.name_of(p) == "B"), None)
            if pb2 is None:
                viol.append(("warmup-failed", f"{cfg}: A2 does not know B after walking to it; drops: {fmt_drops(w, 0)}"))
                return {"viol": viol, "avail": [], "obs": ("warmup-failed",), "trace": []}
            w.force_pick = 1            # B's candidates for A2, sorted by name, are [A, C, ...]
            w.call("A2", ov_2.get_new_introduction, pb2)
            twin_id = ov_2.global_time % 65536           # the identifier that request carried
            w.flush()
            w.walk_all("A2")
            w.flush()
            twin_ok = "C" in w.peers_of("A2") if w.introduced == "C" else None
            net_b = w.nodes["B"].network
            for p in [p for p in net_b.verified_peers if w.name_of(p) == "A2"]:
                net_b.remove_peer(p)
            w.introduced = None
            w.offered = None
            w.force_pick = None
            # A's next request carries the same 16-bit identifier (its clock is one wrap-around ahead of A2's)
            w.nodes["A"].my_peer.update_clock(twin_id + 65536 - 1)
            if twin_ok is False:
                viol.append(("warmup-failed", f"{cfg}: the twin's own introduction round did not connect A2 and C; "
                                              f"drops: {fmt_drops(w, 0)}"))
                return {"viol": viol, "avail": [], "obs": ("warmup-failed",), "trace": []}
        learnt = {n: tuple(w.ov[n].my_estimated_wan) == w.public_address_of(n) for n in order if n != "D1" or not b_walked}
        b_knows = w.peers_of("B")
        w.expire_sessions(B_ADDR)
        n_warm = len(w.send_log)

        # ---- the round ----------------------------------------------------------------------------------------
        w.phase = "main"
        ov_a = w.ov["A"]
        peer_b = next((p for p in ov_a.get_peers() if w.name_of(p) == "B"), None)
        if (peer_b is None and not cold) or b_knows != set(order):
            viol.append(("warmup-failed", f"{cfg}: after the warm-up walks A knows {sorted(w.peers_of('A'))}, B knows "
                         f"{sorted(b_knows)} (expected {order}); drops: {fmt_drops(w, 0)}"))
            return {"viol": viol, "avail": [], "obs": ("warmup-failed",), "trace": []}
        if reunion is not None and reunion != (True, True):
            viol.append(("warmup-failed", f"{cfg}: the earlier round did not connect A and C (A has C, C has A) = {reunion}; "
                         f"drops: {fmt_drops(w, 0)}"))
            return {"viol": viol, "avail": [], "obs": ("warmup-failed",), "trace": []}
        if cfg["start"] == "snapshot":
            # A restarted: its address book was loaded from the snapshot of a session in which it was connected to C
            # (Network.snapshot() stores the preferred address: the LAN address on a shared LAN, else the public one)
            same = cfg["placement"] == "same"
            c_addr = tuple(w.nodes["C"].address) if same else w.public_address_of("C")
            old_book = Network()
            old_book.add_verified_peer(Peer(w.nodes["C"].my_peer.public_key.key_to_bin(), UDPv4Address(*c_addr)))
            w.nodes["A"].network.load_snapshot(old_book.snapshot())
        elif cfg["start"] == "clock":
            # long-running nodes: the 16-bit request identifier (global time mod 65536) wraps during the round
            for name in ("A", "C"):
                w.nodes[name].my_peer.update_clock(65535)
        w.force_pick = cfg["pick"]
        if cold:        # A's very first contact: it does not know its WAN address yet and has no NAT mapping
            w.request_intro("A", B_ADDR, style_of(cfg, "A"))
        else:
            w.call("A", ov_a.get_new_introduction, peer_b)
        if len(w.inflight) != 1:
            # A could not even send its request (seen only on broken trees): whatever was raised is the violation
            for name, fn, etype, text in w.api_errors:
                viol.append((f"exception|{fn}|{etype}", f"{name}.{fn} raised: {text}; {cfg}"))
            for name, etype, text in w.logged:
                viol.append((f"exception|handler|{etype}", f"{name} logged an exception while handling a packet: {text}; {cfg}"))
            viol.append(("request-not-sent", f"{cfg}: A's introduction request to B did not leave A ({len(w.inflight)} in flight)"))
            return {"viol": viol, "avail": [], "obs": ("request-not-sent",), "trace": []}
        w.deliver(0)                              # the request reaches B; B chooses, answers, asks for a puncture
        if stash:
            w.inflight[:0] = stash                # what C's re-registration had set in motion was sent earlier
            stash = []
        x = w.introduced
        b_sent = [r for r in w.send_log[n_warm:] if r["from"] == "B"]
        if x is None:
            if w.pick_unavailable:
                return {"viol": [], "avail": [], "obs": ("pick-unavailable", tuple(w.offered or ())), "trace": [],
                        "skipped": True}
            viol.append(("vacuous:no-introduction", f"{cfg}: B knows {sorted(b_knows)} but made no choice when answering A"))
            return {"viol": viol, "avail": [], "obs": ("no-introduction",), "trace": []}
        if x == "A":     # not "a third peer": nothing the statement speaks about (seen only on mutated trees)
            return {"viol": [], "avail": [], "obs": ("introduced-the-requester",), "trace": [], "skipped": True}
        if not any(r["kind"] == "puncture-request" and r["to"] == x for r in b_sent):
            viol.append(("no-puncture-request", f"{cfg}: B introduced {x} to A but sent no puncture request to {x}; B sent "
                         f"{[(r['kind'], r['dst'], r['fate']) for r in b_sent]}"))

        avail: list[int] = []
        walked: list = []
        steps = 0
        while w.inflight:
            idx = 0
            if steps < depth:
                avail.append(len(w.inflight))
                if steps < len(schedule):
                    idx = schedule[steps]
                    if idx >= len(w.inflight):
                        return {"viol": [("harness:schedule-out-of-range", f"{cfg} {schedule}")], "avail": avail,
                                "obs": ("bad-schedule",), "trace": []}
            w.deliver(idx)
            steps += 1
            if not walked and ov_a.get_walkable_addresses():
                walked = w.walk_all("A", stock_walker=True)
            if steps > STEP_CAP:
                viol.append(("harness:step-cap", f"{cfg} {schedule}: network did not go quiet"))
                break

        # ---- oracle -------------------------------------------------------------------------------------------
        main_sends = w.send_log[n_warm:]
        main_deliv = [r for r in w.delivery_log if r["phase"] == "main"]
        punct = [r["step"] for r in main_sends if r["from"] == x and r["kind"] == "puncture"]
        attempts = [r for r in main_deliv if r["from"] == "A" and r["kind"] == "intro-request" and r["to"] == x]
        punctured_first = bool(punct) and all(r["step"] > punct[0] for r in attempts)

        def connected() -> tuple[bool, bool]:
            return x in w.peers_of("A"), "A" in w.peers_of(x)

        first = connected()
        placement = "same-box" if (cfg["placement"] == "same" and x == "C") else "different"
        how = "introducer-walked-to-peer" if (b_walked and x == "C") else "peer-walked-to-introducer"
        if cfg.get("shadow"):
            how += "|requester-knows-a-peer-elsewhere-with-the-same-lan-address"
        tx = w.kind_of[x]
        trail = (f"{cfg} introduced={x}({tx}) schedule={list(schedule)}: A walked to {walked}; "
                 f"main-round deliveries: {fmt_deliveries(main_deliv)}; drops: {fmt_drops(w, n_warm)}; "
                 f"A.wan={tuple(ov_a.my_estimated_wan)} {x}.wan={tuple(w.ov[x].my_estimated_wan)}"
                 + (f"; mappings renewed before the round (old, new): {remapped}" if remapped else ""))
        rewalked: list = []
        second = first
        if punctured_first:
            if first != (True, True):
                viol.append((f"unreachable|{placement}|{how}|first-attempt",
                             f"{x}'s puncture was out before A's contact attempt arrived, yet A has {x}: {first[0]}, "
                             f"{x} has A: {first[1]}; {trail}"))
        if first != (True, True):
            rewalked = w.walk_all("A")
            w.flush()
            second = connected()
            if second != (True, True) and not (punctured_first and first != (True, True)):
                viol.append((f"unreachable|{placement}|{how}|further-walk",
                             f"after one further walk of A to {rewalked} A has {x}: {second[0]}, {x} has A: {second[1]}; "
                             f"{trail}; later drops: {fmt_drops(w, n_warm)[-6:]}"))
        if placement == "same-box":
            hp = [r for r in w.drop_log if r["phase"] == "main" and r["reason"] == "hairpin" and r["from"] in ("A", x)]
            if hp:
                viol.append((f"same-box:wan-address-used|{how}",
                             f"peers on one LAN addressed each other through their box's public IP: "
                             f"{[(r['from'], r['kind'], r['dst']) for r in hp]}; {trail}"))
        # ---- afterwards: the stock walkers of A and X run on; whoever connected must stay connected -------------------
        lost = None
        if post and second == (True, True):
            w.phase = "post"
            for tick in range(POST_TICKS):
                for name in ("A", x):
                    w.call(name, w.strategy(name).take_step)
                w.run_for(0.5)
                now = connected()
                if now != (True, True) and lost is None:
                    lost = (tick, now)
            if lost is not None:
                viol.append((f"evicted-after-connecting|{placement}",
                             f"A and {x} were verified peers of each other after the round, but {0.5 * (lost[0] + 1):.1f} s "
                             f"later (stock RandomWalk, take_step every 0.5 s, time-out 3 s, FIFO delivery) A has {x}: "
                             f"{lost[1][0]}, {x} has A: {lost[1][1]}; at the end of the 10 s: {connected()}; {trail}"))
        for name, etype, text in w.logged:
            viol.append((f"exception|handler|{etype}", f"{name} logged an exception while handling a packet: {text}; {trail}"))
        for name, fn, etype, text in w.api_errors:
            viol.append((f"exception|{fn}|{etype}", f"{name}.{fn} raised: {text}; {trail}"))
        for e in w.loop.exceptions:
            exc = e.get("exception")
            viol.append((f"exception|loop|{type(exc).__name__}", f"{e.get('message')}: "
                         f"{''.join(traceback.format_exception(exc))[-800:] if exc else ''}; {trail}"))
        trace = [(r["kind"], r["from"], r["to"], r["outcome"]) for r in main_deliv]
        reasons = tuple(sorted({r["reason"] for r in w.drop_log if r["phase"] == "main"}))
        learnt["A"] = tuple(ov_a.my_estimated_wan) == w.public_address_of("A")
        obs = (cfg["placement"], cfg["ta"], tx, cfg["style"], punctured_first, first, second, reasons,
               all(learnt.values()), cfg["warm"], cfg["ports"], cfg["via"], cfg["rewarm"],
               cfg["remap"], cfg["start"])
        return {"viol": viol, "avail": avail, "obs": obs, "trace": trace, "introduced": x,
                "offered": len(w.offered or ()), "post": post and second == (True, True), "kept": lost is None}
    finally:
        w.close()


def fmt_deliveries(recs: list) -> str:
    return "[" + ", ".join(f"{r['kind']} {r['from']}->{r['to'] or r['dst']}{'' if r['outcome'] == 'ok' else ' DROPPED ' + r['outcome']}"
                           for r in recs[:14]) + (", ..." if len(recs) > 14 else "") + "]"


def fmt_drops(w: NatWorld, n_from: int) -> list:
    return [(r["from"], r["kind"], r["dst"], r["reason"]) for r in w.drop_log if r["phase"] == "main" or n_from == 0][:12]


# --- enumeration --------------------------------------------------------------------------------------------------

def base_configs(thorough: bool) -> list[dict]:
    """
    placement x NAT kinds x style x candidates x forced choice x port mode x warm/cold.

    When the forced choice is one of the extra candidates D_i, C is a bystander: its NAT kind cannot matter, so only
    tc = "port" is kept for those (all four kinds of A, and the three shared boxes).
    via = "b-walked": B learnt C by walking to it (needs the public D1 as rendezvous, so k >= 2; only C is forced).
    """
    pairs = [("diff", ta, tc) for ta in NAT_KINDS for tc in NAT_KINDS]       # (none, none) = both public
    pairs += [("same", t, t) for t in NAT_KINDS if t != "none"]
    # group = (style, port mode, warm/cold, candidate counts when X walked to B, candidate counts when B walked to C)
    if thorough:
        groups = [(st, ports, warm, ks, kb) for st in ("old", "new")
                  for ports, warm, ks, kb in (("shift", "warm", (1, 2, 3, 4, 5), (2, 4)),
                                              ("shift", "cold", (1, 2, 3, 4, 5), (2, 4)),
                                              ("keep", "warm", (1, 2, 3), (2,)))]
        groups += [(st, "shift", warm, (1, 2), (2,)) for st in ("A-new", "X-new") for warm in ("warm", "cold")]
    else:
        groups = [(st, "shift", warm, ks, kb) for st in ("old", "new")
                  for warm, ks, kb in (("warm", (1, 3), (2,)), ("cold", (1,), ()))]
    out = []
    for style, ports, warm, ks, kb in groups:
        for placement, ta, tc in pairs:
            for via, counts in (("x-walked", ks), ("b-walked", kb)):
                for k in counts:
                    for pick in range(k):
                        if pick > 0 and (via == "b-walked" or (placement == "diff" and tc != "port")):
                            continue
                        out.append({"placement": placement, "ta": ta, "tc": tc, "style": style, "k": k, "pick": pick,
                                    "ports": ports, "warm": warm, "via": via, "rewarm": "1"})
    # re-walk variants: every warm-up walker asks B twice (the second time in whatever style the library upgraded to),
    # optionally B then asks C again.  All same-box placements; different boxes: all 16 (thorough) / 2 (quick).
    diff = [p for p in pairs if p[0] == "diff" and (thorough or (p[1], p[2]) in (("port", "port"), ("none", "none")))]
    styles = ("old", "new", "A-new", "X-new") if thorough else ("old", "new")
    for rewarm in ("2", "2+b"):
        for style in styles:
            for warm, ks in (("warm", (1, 3)), ("cold", (1,))):
                for placement, ta, tc in [p for p in pairs if p[0] == "same"] + diff:
                    if style in ("A-new", "X-new") and placement != "same":
                        continue
                    for k in ks:
                        for pick in range(k if placement == "same" else 1):
                            out.append({"placement": placement, "ta": ta, "tc": tc, "style": style, "k": k, "pick": pick,
                                        "ports": "shift", "warm": warm, "via": "x-walked", "rewarm": rewarm})
                    if rewarm == "2" and warm == "warm" and style in ("old", "new"):
                        out.append({"placement": placement, "ta": ta, "tc": tc, "style": style, "k": 2, "pick": 0,
                                    "ports": "shift", "warm": warm, "via": "b-walked", "rewarm": rewarm})
    # history / start-state variants (forced choice = C).  remap: the NAT mapping of C / A / both was renewed on another
    # public port (public node: re-bound) and the node re-announced itself to B; snapshot: A's address book holds C's
    # address as a parent-less entry loaded from a snapshot; clock: A's and C's global time is 65535 when the round starts.
    # quick: the placements in which the kind of the affected node varies; thorough: all 19.
    def variant(placement, ta, tc, style, k, warm, via, **kw):  # noqa: ANN001, ANN003, ANN202
        return {"placement": placement, "ta": ta, "tc": tc, "style": style, "k": k, "pick": 0, "ports": "shift",
                "warm": warm, "via": via, "rewarm": "1", **kw}

    same = [p for p in pairs if p[0] == "same"]
    vary_c = same + [("diff", "port", t) for t in NAT_KINDS] + [("diff", "none", "none")]
    vary_a = same + [("diff", t, "port") for t in NAT_KINDS]
    for style in ("old", "new"):
        for p in (pairs if thorough else vary_c):
            for warm, ks in ((("warm", (1, 3)), ("cold", (1,))) if thorough else (("warm", (1,)),)):
                for k in ks:
                    out.append(variant(*p, style, k, warm, "x-walked", remap="C"))
            out.append(variant(*p, style, 2, "warm", "b-walked", remap="C"))
            if thorough:
                out.append(variant(*p, style, 1, "warm", "x-walked", remap="C", ports="keep"))
                out.append(variant(*p, style, 1, "warm", "x-walked", remap="both"))
        for p in (pairs if thorough else vary_a):
            for k in ((1, 3) if thorough else (1,)):
                out.append(variant(*p, style, k, "warm", "x-walked", remap="A"))
        for p in (pairs if thorough else same + [("diff", "port", "port"), ("diff", "none", "none")]):
            for warm in ("warm", "cold"):
                out.append(variant(*p, style, 1, warm, "x-walked", start="snapshot"))
                if thorough or warm == "warm":
                    out.append(variant(*p, style, 1, warm, "x-walked", start="clock"))
            if thorough:
                out.append(variant(*p, style, 2, "warm", "b-walked", start="snapshot"))
                out.append(variant(*p, style, 1, "cold", "x-walked", start="snapshot", remap="C"))
        # the introduced peer restarted behind a NAT that gave it a new port; A's request follows its re-registration at once
        for p in (pairs if thorough else vary_c):
            for ovl in ("discovery", "community"):
                out.append(variant(*p, style, 1, "warm", "x-walked", remap="C-restart", overlay=ovl))
        # every node runs the DiscoveryCommunity (own old-style request handler, similarity requests in flight as well)
        for p in (pairs if thorough else same + [("diff", "port", "port"), ("diff", "addr", "full")]):
            for k in ((1, 3) if thorough else (1,)):
                out.append(variant(*p, style, k, "warm", "x-walked", overlay="discovery"))
            if thorough or p[0] == "same":
                out.append(variant(*p, style, 2, "warm", "b-walked", overlay="discovery"))
        # A already has a verified peer behind ANOTHER NAT whose LAN address is the one C has on A's own LAN
        for p in same:
            out.append(variant(*p, style, 1, "warm", "x-walked", shadow=True))
        # earlier connection, then C's mapping renewed and A (or both) forgot the other: a second introduction
        for p in (pairs if thorough else vary_c):
            out.append(variant(*p, style, 1, "warm", "x-walked", start="reunion"))
            if thorough:
                out.append(variant(*p, style, 3, "warm", "x-walked", start="reunion"))
                out.append(variant(*p, style, 1, "warm", "x-walked", start="reunion-both"))
    # a second requester behind A's NAT was introduced to the same peer just before, with the same request identifier
    for style in ("old", "new"):
        for ta in (NAT_KINDS if thorough else ("full", "port")):
            for tc in NAT_KINDS:
                if ta != "none":
                    out.append(variant("diff", ta, tc, style, 1, "warm", "x-walked", twin=True))
    for c in out:
        c.setdefault("twin", False)
        c.setdefault("remap", "none")
        c.setdefault("start", "fresh")
        c.setdefault("shadow", False)
        c.setdefault("overlay", "community")
    return out


_SEED = 0
_DEPTH = 4
_POST_LEN = 0       # schedules up to this length are followed by the stock-walker phase


def explore_configs(chunk: list) -> list:
    res = []
    for cfg in chunk:
        execs = skipped = 0
        viols: dict[str, tuple] = {}
        sigs: set = set()
        classes: set = set()
        sample = None
        introduced = set()
        posts = kept = 0
        stack = [()]
        while stack:
            sched = stack.pop()
            post = len(sched) <= _POST_LEN
            r = run_one(cfg, sched, _SEED, _DEPTH, post)
            execs += 1
            posts += bool(r.get("post"))
            kept += bool(r.get("post") and r.get("kept"))
            if r.get("skipped"):
                skipped += 1
                continue
            for key, what in r["viol"]:
                old = viols.get(key)
                if old is None or (len(sched), sched) < (len(old[1]["schedule"]), tuple(old[1]["schedule"])):
                    viols[key] = (what, {"cfg": cfg, "schedule": list(sched), "seed": _SEED, "depth": _DEPTH,
                                          "post": post})
            if r.get("introduced"):
                introduced.add(r["introduced"])
                sigs.add(core.digest((r["obs"][:4], cfg["ports"], cfg["warm"], cfg["via"], cfg["rewarm"],
                                      cfg.get("remap"), cfg.get("start"), r["trace"])))
                classes.add(r["obs"])
            if sample is None:
                sample = {"cfg": cfg, "schedule": list(sched), "introduced": r.get("introduced"),
                          "main_round_deliveries": r["trace"][:12]}
            av = r["avail"]
            for j in range(len(sched), min(_DEPTH, len(av))):
                for i in range(1, av[j]):
                    stack.append(sched + (0,) * (j - len(sched)) + (i,))
        res.append({"cfg": cfg, "execs": execs, "skipped": skipped, "viols": viols, "sigs": sigs, "classes": classes,
                    "sample": sample, "introduced": sorted(introduced), "posts": posts, "kept": kept})
    return res


def _cfg_rank(cfg: dict) -> tuple:
    return (cfg.get("remap", "none") != "none", cfg.get("start", "fresh") != "fresh", cfg["rewarm"], cfg["via"] != "x-walked", cfg["k"], cfg["warm"] != "warm", cfg["style"] != "old", cfg["ports"] != "shift", cfg["placement"],
            cfg["ta"], cfg["tc"], cfg["pick"])


def run(ctx: core.Ctx) -> core.Report:
    global _SEED, _DEPTH, _POST_LEN
    _SEED = ctx.seed % 12
    _POST_LEN = 1 if ctx.thorough else 0
    _DEPTH = STEP_CAP if ctx.thorough else 4      # thorough: every delivery order of the whole round
    cfgs = base_configs(ctx.thorough)
    # replay determinism: the same (configuration, schedule) must give the same observation log in a fresh world
    for cfg, sched in ((cfgs[0], ()), (cfgs[-1], (1, 1)), (cfgs[len(cfgs) // 2], (0, 1, 1))):
        r1, r2 = (run_one(cfg, sched, _SEED, 4, True) for _ in range(2))
        if (r1["obs"], r1["trace"], r1["avail"], r1["viol"]) != (r2["obs"], r2["trace"], r2["avail"], r2["viol"]):
            core.eprint(f"C13: replay of {cfg} {sched} is not deterministic:\n{r1}\n{r2}")
            sys.exit(2)
    res = core.pmap(explore_configs, cfgs, ctx.jobs, chunk=1 if ctx.thorough else 2)
    res.sort(key=lambda r: _cfg_rank(r["cfg"]))
    execs = sum(r["execs"] for r in res)
    skipped = sum(r["skipped"] for r in res)
    sigs: set = set()
    classes: set = set()
    best: dict[str, tuple] = {}
    per_intro: dict[str, int] = {}
    for r in res:
        sigs |= r["sigs"]
        classes |= r["classes"]
        for n in r["introduced"]:
            per_intro[n] = per_intro.get(n, 0) + 1
        for key, (what, rp) in r["viols"].items():
            rank = (_cfg_rank(r["cfg"]), len(rp["schedule"]), rp["schedule"])
            if key not in best or rank < best[key][0]:
                best[key] = (rank, what, rp)
    violations = [core.Violation(k, what, rp) for k, (_, what, rp) in sorted(best.items())]
    if not per_intro and not violations:
        violations.append(core.Violation("vacuous:no-introductions", "no execution contained an introduction", None))
    success_first = sum(1 for c in classes if c[5] == (True, True))
    cov = {
        "evaluations": execs,
        "distinct_nontrivial": len(sigs),
        "rule": "one evaluation = warm-up + one introduction round of real Community overlays on a NAT-enforcing network "
                "under one configuration (placement x NAT kind of A x NAT kind of C x message style x number of "
                "candidates at B x forced choice x port mode x warm/cold requester) and one delivery schedule (stateless "
                "DFS: each of the first `schedule_depth` deliveries after B answered ranges over every datagram in "
                "flight, FIFO afterwards; the empty schedule is FIFO); non-trivial = B introduced a third peer; "
                "distinct = distinct (placement, NAT kind of A, NAT kind of the introduced peer, style, port mode, "
                "warm/cold, sequence of (message kind, sender, receiver, NAT verdict) of the round), i.e. executions "
                "that differ only in bystander candidates are counted once - measured as a set of digests",
        "samples": [r["sample"] for r in res[:2] + res[-2:] if r["sample"]],
        "exhaustive": skipped == 0,
        "configurations": len(cfgs),
        "schedule_depth": _DEPTH if _DEPTH < STEP_CAP else "unbounded (every delivery order of the whole round)",
        "max_schedules_per_configuration": max(r["execs"] for r in res),
        "skipped_choice_not_offered": skipped,
        "stock_walker_phases": sum(r["posts"] for r in res),
        "stock_walker_phases_still_connected_throughout": sum(r["kept"] for r in res),
        "stock_walker_phase": f"after the FIFO schedule{' and every schedule deviating in its first delivery' if ctx.thorough else ''}"
                              f" of each configuration: RandomWalk(timeout=3) on A and X, take_step every 0.5 s for "
                              f"{POST_TICKS * 0.5:.0f} s of virtual time, FIFO delivery; checked after every tick",
        "distinct_outcome_classes": len(classes),
        "outcome_classes_connected_without_further_walk": success_first,
        "outcome_classes_needing_further_walk": len(classes) - success_first,
        "configurations_per_introduced_peer": per_intro,
        "drop_reasons_seen": sorted({x for c in classes for x in c[7]}),
        "bounds": {"nat_kinds": list(NAT_KINDS), "placements": ["different boxes (4x4, none/none = both public)",
                                                               "same box (3 cone kinds)"],
                   "styles": sorted({c["style"] for c in cfgs}), "candidates": sorted({c["k"] for c in cfgs}),
                   "port_modes": sorted({c["ports"] for c in cfgs}), "requester": sorted({c["warm"] for c in cfgs}),
                   "introducer_learnt_peer_by": sorted({c["via"] for c in cfgs}),
                   "requests_to_introducer_before_round": sorted({c["rewarm"] for c in cfgs}),
                   "mapping_renewed_before_round": sorted({c.get("remap", "none") for c in cfgs}),
                   "requester_start_state": sorted({c.get("start", "fresh") for c in cfgs})},
    }
    return core.Report(LEVEL, cov, violations, [
        "NAT model: endpoint-independent mapping, filtering none/full-cone/address-restricted/port-restricted, LAN "
        "short-circuit, no hairpinning, no symmetric NATs, sessions learnt at send time and checked at arrival time",
        "idle NAT sessions (everything but the session with the introducer) expire between warm-up and the round",
        "the introducer is public; IPv4 only; one overlay per node; no packet loss or duplication (order only)",
        "A's walks of the round go through RandomWalk.take_step with its coin and address choice forced (so its time-out "
        "bookkeeping is the library's); the 'one further walk' is a direct walk_to",
        "new-style messages are requested by the harness (create_introduction_request(new_style=True)); the library "
        "itself only switches style after having seen a new-style message",
    ])


def replay(ctx: core.Ctx, data) -> list:  # noqa: ANN001
    if not data:
        return []
    r = run_one(data["cfg"], tuple(data["schedule"]), data["seed"], data.get("depth", 4), data.get("post", True))
    return [core.Violation(k, what) for k, what in r["viol"]]
