"""
C07 - Anonymized overlays never send from the node's own address.

Explicit-state BFS over event histories on one real node N whose overlays (a real TunnelCommunity, one toy
overlay that asked for anonymity, one plain toy overlay) all sit on ``TunnelEndpoint(SimEndpoint)``; two more
real tunnel nodes (exit X with PEER_FLAG_EXIT_IPV8, exit Y without it, both also relay) serve the circuits.  Every
event is a macro step run to network quiescence; time passes only in the explicit "tick" event (5 s).

Oracle (written from the statement; it reads the wire and the arguments of ``send_data``, never the routing code):
 * N's raw socket never carries a datagram that starts with the anonymized overlay's prefix while that overlay
   asks for anonymity;
 * every ``TunnelCommunity.send_data`` that carries such a datagram names a circuit that is READY, of the
   configured length and whose exit advertised (and really has) PEER_FLAG_EXIT_IPV8, and carries the bytes the
   overlay produced to the destination the overlay asked for;
 * the hold queue never exceeds 100 entries and only ever holds datagrams of the anonymized overlay;
 * every datagram of the plain overlay leaves N's raw socket exactly once, byte-identical, to the requested
   destination, and never enters the tunnel or the queue.
The plain overlay may itself be switched to anonymous (event ``setp plain True``); it is then held to the first three
rules.  After *every* transition a probe re-declares anonymity off for all other prefixes (what loading or configuring
another overlay does) and lets both overlays send once more, judged by the same rules.
"""
from __future__ import annotations

import base64
import gc
import os
import random
import sys
import time
from asyncio import events

from ipv8.community import Community, CommunitySettings
from ipv8.messaging.anonymization.caches import RetryRequestCache
from ipv8.messaging.anonymization.community import TunnelCommunity
from ipv8.messaging.anonymization.endpoint import TunnelEndpoint
from ipv8.messaging.anonymization.tunnel import (
    CIRCUIT_STATE_CLOSING,
    CIRCUIT_STATE_READY,
    PEER_FLAG_EXIT_IPV8,
)
from ipv8.messaging.interfaces.udp.endpoint import UDPv4Address
from ipv8.messaging.lazy_payload import VariablePayload, vp_compile

from ipv8.attestation.communication_manager import CommunicationManager
from ipv8.messaging.anonymization.hidden_services import HiddenTunnelCommunity
from ipv8_service import IPv8

from .. import core, fixtures, simnet
from ..tunnelworld import EXIT_ALL, EXIT_BT, RELAY

LEVEL = "model_checking"

QUEUE_BOUND = 100            # "held in a bounded queue": the library's documented bound (deque(maxlen=100))
BURST = 101
TICK = 5.0                   # == TunnelSettings.remove_tunnel_delay
DEST_ANON = UDPv4Address("9.9.9.9", 99)
DEST_PLAIN = UDPv4Address("8.8.8.8", 88)
UNKNOWN_PREFIX = b"\x00\x02" + b"\xee" * 20            # a community id nobody on N uses
ROLES = {"X": EXIT_ALL, "Y": EXIT_BT}     # X exits IPv8 traffic, Y does not; both also relay (2-hop circuits)


@vp_compile
class MarkerPayload(VariablePayload):
    msg_id = 1
    format_list = ["I"]
    names = ["seq"]


class _ToyOverlay(Community):
    """A minimal overlay: it signs a numbered message and hands it to whatever endpoint it was given."""

    def __init__(self, settings: CommunitySettings) -> None:
        super().__init__(settings)
        self.produced: list[bytes] = []

    def send_marker(self, address: tuple, seq: int) -> bytes:
        packet = self.ezr_pack(MarkerPayload.msg_id, MarkerPayload(seq))
        self.produced.append(packet)
        self.endpoint.send(address, packet)
        return packet


class AnonOverlay(_ToyOverlay):
    community_id = bytes.fromhex("c007a0") + b"\xaa" * 17


class PlainOverlay(_ToyOverlay):
    community_id = bytes.fromhex("c007b0") + b"\xbb" * 17


# ------------------------------------------------------------------------------------------------
# reference: what the statement lets the harness know, tracked from the events alone
# ------------------------------------------------------------------------------------------------

class Ref:
    def __init__(self) -> None:
        # who asks for anonymity right now / ever did: AnonOverlay was created with settings.anonymize = True
        self.asked = {"anon": True, "plain": False}
        self.ever_asked = {"anon": True, "plain": False}
        self.packets: dict[str, set] = {"anon": set(), "plain": set()}   # everything each toy overlay ever produced
        self.fates = {"anon_tunnelled": 0, "anon_raw_while_not_anonymous": 0, "plain_raw": 0, "anon_produced": 0,
                      "anon_exited_at": {}}


# ------------------------------------------------------------------------------------------------
# the explored world
# ------------------------------------------------------------------------------------------------

ROUTES = ("wired", "service", "service+stats", "pseudonym")


def find_tunnel_endpoint(endpoint):  # noqa: ANN001, ANN201
    """The TunnelEndpoint somewhere in a stack of endpoint wrappers (None if there is none)."""
    seen = 0
    while endpoint is not None and seen < 8:
        if isinstance(endpoint, TunnelEndpoint):
            return endpoint
        endpoint = vars(endpoint).get("endpoint")
        seen += 1
    return None


class C07World(simnet.World):
    def __init__(self, seed: int, route: str = "wired") -> None:
        """
        route: how node N is put together.  "wired": the harness stacks TunnelEndpoint(SimEndpoint) and constructs the
        overlays itself.  "service" / "service+stats": N is constructed by ipv8_service.IPv8 from a configuration that
        lists a TunnelCommunity, the anonymized overlay (initialize: anonymize) and the plain overlay, with the SimEndpoint
        as endpoint_override and enable_statistics False / True - the endpoint stack is then the deployment's own.
        "pseudonym": N is an ipv8_service.IPv8 with a HiddenTunnelCommunity on its main socket; a pseudonym is loaded through
        CommunicationManager.load() (what the REST identity API does), which creates an IdentityCommunity and an
        AttestationCommunity on one anonymizing endpoint with a socket of its own.  Both asked for anonymity; here "anon" is
        the identity overlay, "plain" (a misnomer on this route) the attestation overlay, the raw socket is the pseudonym's.
        """
        super().__init__(("c07", seed))
        idx = fixtures.rotate(seed, 1 + len(ROLES))
        self.route = route
        self.ov: dict[str, TunnelCommunity] = {}

        n = self.add_node("N", idx[0])
        self.n = n
        self.raw = n.endpoint                          # the socket: what leaves here leaves from N's own address
        if route == "wired":
            self.app_ep = TunnelEndpoint(self.raw)     # what the overlays (and the application) are handed
            self.tc = n.add_overlay(TunnelCommunity, self._tunnel_settings(RELAY), endpoint=self.app_ep)
            anon_settings = AnonOverlay.settings_class()
            anon_settings.anonymize = True
            self.anon = n.add_overlay(AnonOverlay, anon_settings, endpoint=self.app_ep)
            self.plain = n.add_overlay(PlainOverlay, endpoint=self.app_ep)
        elif route == "pseudonym":
            self.tc, self.anon, self.plain = n.run(self._via_communication_manager, n, idx[0])
        else:
            self.tc, self.anon, self.plain = n.run(self._via_service, n, route == "service+stats")
        self.ov["N"] = self.tc
        # the TunnelEndpoint object inside the stack (white box: queue, settings and attachment are read from it);
        # application-level calls (set_anonymity, set_tunnel_community) go to app_ep, as an embedding application would
        self.tep = find_tunnel_endpoint(self.app_ep)
        assert self.tep is not None, "an overlay asked for anonymity but the node has no TunnelEndpoint at all"
        # Keep the TunnelCommunity from being registered next to its crypto endpoint on the raw socket (older trees did
        # not forward TunnelEndpoint.remove_listener: a C11 matter); otherwise control flow depends on ciphertext bytes.
        self.raw.remove_listener(self.tc)
        self.inst: dict[int, AnonOverlay | None] = {1: self.anon, 2: None}
        for i, (name, flags) in enumerate(ROLES.items()):
            node = self.add_node(name, idx[1 + i])
            self.ov[name] = node.add_overlay(TunnelCommunity, self._tunnel_settings(flags))
        self.by_key = {nd.my_peer.public_key.key_to_bin(): name for name, nd in self.nodes.items()}
        # every pair meets once (the request teaches the receiver, the response teaches the sender)
        names = list(self.ov)
        for i, a in enumerate(names):
            for b in names[i + 1:]:
                self.nodes[a].run(self.ov[a].walk_to, self.nodes[b].address)
        self.flush()

        self.a_prefix, self.p_prefix, self.t_prefix = self.anon.get_prefix(), self.plain.get_prefix(), self.tc.get_prefix()
        self.ref = Ref()
        if route == "pseudonym":
            self.ref.asked["plain"] = self.ref.ever_asked["plain"] = True   # the attestation overlay of an anonymized pseudonym
        self.marker = 0
        self.calls: list[dict] = []                    # send_data calls of the current step
        self.wire_mark = len(self.wire_log)
        self.out_mark = len(self.loop.outside_log)
        self.ctx_before = ""
        self.asked_before = dict(self.ref.asked)
        self.sent_now: dict[str, list] = {"anon": [], "plain": []}
        self.prefix_of = {"anon": self.a_prefix, "plain": self.p_prefix, "tunnel": self.t_prefix, "unknown": UNKNOWN_PREFIX}
        self.dest_of = {"anon": tuple(DEST_ANON), "plain": tuple(DEST_PLAIN)}
        self.max_queue = 0
        self.removal_requested: set[int] = set()       # circuit ids somebody called remove_circuit for (reference)
        self._wrap_send_data()
        self._wrap_remove_circuit()
        self.created_exit: dict[int, tuple] = {}       # circuit id -> (exit node, the flags it REALLY had at creation)
        self._wrap_create_circuit()

    def _via_communication_manager(self, node, key_index: int):  # noqa: ANN001, ANN202
        """N = IPv8(HiddenTunnelCommunity on the main socket) + one pseudonym loaded by the CommunicationManager."""
        configuration = {
            "logger": {"level": "CRITICAL"}, "walker_interval": 0.5, "working_directory": ":memory:",
            "keys": [{"alias": "k", "file": "", "generation": "curve25519",
                      "bin": base64.b64encode(fixtures.private_bin(node.key_index)).decode()}],
            "overlays": [{"class": "HiddenTunnelCommunity", "key": "k", "walkers": [], "bootstrappers": [], "on_start": [],
                          "initialize": {"peer_flags": set(RELAY), "min_circuits": 0, "max_circuits": 0}}]}
        ipv8 = IPv8(configuration, endpoint_override=node.endpoint)
        self.ipv8 = ipv8
        tc = ipv8.get_overlay(HiddenTunnelCommunity)
        tc.my_peer.address = node.address
        tc.my_estimated_wan = tc.my_estimated_lan = node.address
        node.overlays.append(tc)
        node.my_peer, node.network = tc.my_peer, ipv8.network
        # the pseudonym's own socket: produce_anonymized_endpoint() opens a UDPEndpoint; here it is a second SimEndpoint
        p_address = UDPv4Address(node.address[0], node.address[1] + 7000)
        p_raw = simnet.SimEndpoint(self, p_address, "N-pseudonym")
        p_raw.node = node
        self.endpoints[tuple(p_address)] = p_raw

        async def produce_anonymized_endpoint() -> TunnelEndpoint:
            return TunnelEndpoint(p_raw)

        ipv8.produce_anonymized_endpoint = produce_anonymized_endpoint
        manager = CommunicationManager(ipv8, working_directory=":memory:")
        # identities are fixtures, never generated or stored at run time
        manager.pseudonym_folder_manager = type("Keys", (), {"get_or_create_private_key": staticmethod(
            lambda name: fixtures.private_key(key_index + 5))})()
        channel = self.drive(manager.load("pseudonym"))
        self.manager = manager
        for o in (channel.identity_overlay, channel.attestation_overlay):
            o.my_peer.address = p_address
            o.my_estimated_wan = o.my_estimated_lan = p_address
            node.overlays.append(o)
        self.raw = p_raw                                # what leaves here leaves from the pseudonym's own address
        self.app_ep = channel.identity_overlay.endpoint
        return tc, channel.identity_overlay, channel.attestation_overlay

    def _via_service(self, node, statistics: bool):  # noqa: ANN001, ANN202
        """Node N as ipv8_service.IPv8 builds it (mirrors mc.tunnelworld.TunnelWorld._make_via, three overlays)."""
        def entry(cls, **init) -> dict:  # noqa: ANN001, ANN003
            return {"class": cls.__name__, "key": "k", "walkers": [], "bootstrappers": [], "initialize": init, "on_start": []}

        configuration = {
            "logger": {"level": "CRITICAL"}, "walker_interval": 0.5,
            "keys": [{"alias": "k", "file": "", "generation": "curve25519",
                      "bin": base64.b64encode(fixtures.private_bin(node.key_index)).decode()}],
            "overlays": [entry(TunnelCommunity, peer_flags=set(RELAY), min_circuits=0, max_circuits=0),
                         entry(AnonOverlay, anonymize=True), entry(PlainOverlay)]}
        ipv8 = IPv8(configuration, endpoint_override=self.raw, enable_statistics=statistics,
                    extra_communities={"AnonOverlay": AnonOverlay, "PlainOverlay": PlainOverlay})
        self.ipv8 = ipv8
        self.app_ep = ipv8.endpoint
        for o in ipv8.overlays:
            o.my_peer.address = node.address
            o.my_estimated_wan = node.address
            o.my_estimated_lan = node.address
            node.overlays.append(o)
        node.my_peer = ipv8.overlays[0].my_peer
        node.network = ipv8.network
        return ipv8.overlays

    @staticmethod
    def _tunnel_settings(flags):  # noqa: ANN001, ANN205
        s = TunnelCommunity.settings_class()
        s.peer_flags = set(flags)
        s.min_circuits = 0
        s.max_circuits = 0
        return s

    # -- observation seam: arguments of send_data on N's TunnelCommunity ----------------------------
    def _wrap_send_data(self) -> None:
        tc, inner = self.tc, self.tc.send_data

        def send_data(target, circuit_id, dest_address, source_address, data):  # noqa: ANN001, ANN202
            c = tc.circuits.get(circuit_id)
            self.calls.append({
                "target": tuple(target), "dest": tuple(dest_address), "data": bytes(data),
                "configured_hops": self.tep.hops,
                "being_removed": circuit_id in self.removal_requested,
                "circuit": None if c is None else self.circuit_view(c),
                "first_hop": None if c is None or not c.hops else tuple(c.hop.address),
            })
            self.max_queue = max(self.max_queue, len(self.tep.send_queue))
            return inner(target, circuit_id, dest_address, source_address, data)

        tc.send_data = send_data

    def _wrap_remove_circuit(self) -> None:
        """Reference knowledge: from the moment anybody asks for a circuit's removal it is on its way out, not ready."""
        tc, inner = self.tc, self.tc.remove_circuit

        def remove_circuit(circuit_id, *args, **kwargs):  # noqa: ANN001, ANN002, ANN003, ANN202
            if circuit_id in tc.circuits:
                self.removal_requested.add(circuit_id)
            return inner(circuit_id, *args, **kwargs)

        tc.remove_circuit = remove_circuit

    def _wrap_create_circuit(self) -> None:
        """Ground truth for "ends in an IPv8-capable exit": what the exit node itself is configured as when the circuit starts."""
        tc, inner = self.tc, self.tc.create_circuit

        def create_circuit(*args, **kwargs):  # noqa: ANN002, ANN003, ANN202
            c = inner(*args, **kwargs)
            if c is not None and c.required_exit is not None:
                name = self.by_key.get(c.required_exit.public_key.key_to_bin(), "?")
                self.created_exit[c.circuit_id] = (name, tuple(sorted(self.true_flags(name))))
            return c

        tc.create_circuit = create_circuit

    def true_flags(self, name: str) -> set:
        o = self.ov.get(name)
        return set(o.settings.peer_flags) if o is not None else set()

    def set_exit_flag(self, name: str, announce: bool) -> None:
        """The exit's operator switches IPv8 exiting on/off; the exit and N then meet again through real introductions."""
        o = self.ov[name]
        flags = set(o.settings.peer_flags)
        flags = flags | {PEER_FLAG_EXIT_IPV8} if announce else flags - {PEER_FLAG_EXIT_IPV8}
        o.settings.peer_flags = flags
        self.nodes[name].run(o.walk_to, self.n.address)      # N learns it from the request ...
        self.flush()
        self.n.run(self.tc.walk_to, self.nodes[name].address)  # ... and from the response to its own request
        self.flush()

    def node_of(self, hop) -> str:  # noqa: ANN001
        return self.by_key.get(hop.peer.public_key.key_to_bin(), "?")

    def circuit_view(self, c) -> dict:  # noqa: ANN001
        hops = c.hops
        exit_name = self.node_of(hops[-1]) if hops else None
        return {"state": c.state, "goal_hops": c.goal_hops, "hops": len(hops), "exit_flags": sorted(c.exit_flags),
                "exit": exit_name,
                "exit_true_flags": list(self.created_exit.get(c.circuit_id, (exit_name, tuple(sorted(self.true_flags(exit_name)))))[1])
                if exit_name else [],
                "first": self.node_of(hops[0]) if hops else None}

    # -- coarse description of the routing situation (violation keys and event enabling only) ----------
    def situation(self) -> str:
        """detached | no-suitable-circuit | suitable-not-ready | suitable-ready (judged on the first suitable circuit)."""
        if self.tep.tunnel_community is None:
            return "detached"
        want = self.tep.hops
        match = [c for c in self.tc.circuits.values() if c.goal_hops == want and c.ctype == "DATA"
                 and PEER_FLAG_EXIT_IPV8 in c.exit_flags]
        if not match:
            return "no-suitable-circuit"
        return "suitable-ready" if match[0].state == CIRCUIT_STATE_READY else "suitable-not-ready"

    # -- steps ------------------------------------------------------------------------------------------
    def begin(self) -> None:
        self.calls = []
        self.wire_mark = len(self.wire_log)
        self.out_mark = len(self.loop.outside_log)
        self.ctx_before = self.situation()
        self.asked_before = dict(self.ref.asked)
        self.sent_now = {"anon": [], "plain": []}
        self.max_queue = len(self.tep.send_queue)

    def send_anon(self, count: int = 1, inst: int = 1) -> None:
        overlay = self.inst[inst]
        assert overlay is not None, "a send by an overlay after its own unload is C11's subject, not judged here"
        for _ in range(count):
            self.marker += 1
            p = self.n.run(self._emit, overlay, DEST_ANON)
            self.sent_now["anon"].append(p)
            self.ref.packets["anon"].add(p)
            self.ref.fates["anon_produced"] += 1
            self.max_queue = max(self.max_queue, len(self.tep.send_queue))

    def _emit(self, overlay, dest) -> bytes:  # noqa: ANN001
        """One datagram of the overlay: the toy overlays' numbered message, a real overlay's introduction request (walk_to)."""
        if hasattr(overlay, "send_marker"):
            return overlay.send_marker(dest, self.marker)
        packet = overlay.create_introduction_request(dest)
        overlay.endpoint.send(dest, packet)
        return packet

    def send_plain(self) -> None:
        self.marker += 1
        p = self.n.run(self._emit, self.plain, DEST_PLAIN)
        self.sent_now["plain"].append(p)
        self.ref.packets["plain"].add(p)
        self.max_queue = max(self.max_queue, len(self.tep.send_queue))

    def load_second(self) -> None:
        """A second instance of the anonymized overlay class on the same TunnelEndpoint (the reload pattern)."""
        settings = AnonOverlay.settings_class()
        settings.anonymize = True
        self.inst[2] = self.n.add_overlay(AnonOverlay, settings, endpoint=self.app_ep)
        self.ref.asked["anon"] = True          # the new instance asked for anonymity (Community.__init__ registers it)

    def load_pex(self) -> None:
        """
        The PEX overlay that HiddenTunnelCommunity.on_establish_intro creates on the node's TunnelEndpoint for the SHA-1
        a remote seeder names; here the SHA-1 whose PEX community id equals the anonymized overlay's id (same prefix).
        It did not ask for anonymity, and it does not send anything by itself.
        """
        from ipv8.messaging.anonymization.pex import PEX_VERSION, PexCommunity, PexSettings  # noqa: PLC0415
        from ipv8.peerdiscovery.network import Network  # noqa: PLC0415
        info_hash = ((int.from_bytes(AnonOverlay.community_id, "big") - PEX_VERSION) % (1 << 160)).to_bytes(20, "big")
        pex = self.n.run(lambda: PexCommunity(PexSettings(my_peer=self.n.my_peer, endpoint=self.app_ep,
                                                          network=Network(), info_hash=info_hash)))
        assert pex.get_prefix() == self.a_prefix
        self.inst[3] = pex

    def unload(self, inst: int) -> None:
        overlay = self.inst[inst]
        t0 = self.loop.time()
        self.n.run(self.drive, overlay.unload())
        assert self.loop.time() == t0, "unload needed virtual time"
        self.inst[inst] = None
        # the remaining instance (if any) still asks for anonymity: ref.asked is deliberately left alone

    def set_other(self, which: str, enable: bool) -> None:
        """set_anonymity for a prefix other than the anonymized overlay's own (what loading/configuring another overlay does)."""
        if which == "plain":
            self.ref.asked["plain"] = enable
            self.ref.ever_asked["plain"] |= enable
        self.app_ep.set_anonymity(self.prefix_of[which], enable)

    def peer_of(self, target: str):  # noqa: ANN201
        p = self.n.network.get_verified_by_public_key_bin(self.nodes[target].my_peer.public_key.key_to_bin())
        assert p is not None, target
        return p

    def build(self, exit_name: str, hops: int) -> None:
        """Start a circuit of `hops` hops that must end in `exit_name`; the caller runs the handshake to quiescence."""
        self.n.run(self.tc.create_circuit, hops, required_exit=self.peer_of(exit_name))

    def removable(self) -> list:
        return [c for c in self.tc.circuits.values() if c.state != CIRCUIT_STATE_CLOSING]

    def remove(self, which: str) -> None:
        cs = self.removable()
        c = cs[0] if which == "first" else cs[-1]
        self.n.run(self.tc.remove_circuit, c.circuit_id, "c07", destroy=1)


class _Forked:
    """Stand-in for 'the cached world of this history, one event later'; filled in by a forked child."""

    def __init__(self, base: C07World, hist: tuple) -> None:
        self.base, self.hist, self.result = base, hist, None


class Model(core.BfsModel):
    """
    BfsModel over C07World.  core.bfs rebuilds the world of a history once per enabled event; because a world costs
    ~20 ms to set up and an event ~1 ms, `fork=True` builds each history once and runs every successor event in a
    fork()ed copy of the process (apply + digest + oracle happen in the child, the results come back over a pipe).
    The computation is the same as with plain replay (`fork=False`, used by --replay and by the self-check in run()).
    """

    def __init__(self, seed: int, alphabet: list, max_circuits: int = 99, fork: bool = False, route: str = "wired") -> None:
        self.seed = seed
        self.route = route
        self.alphabet = [tuple(e) for e in alphabet]
        self.max_circuits = max_circuits
        self.fork = fork and hasattr(os, "fork")
        self._cached: C07World | None = None
        self._cached_hist: tuple | None = None

    def params(self) -> dict:
        return {"seed": self.seed, "route": self.route, "alphabet": [list(e) for e in self.alphabet],
                "max_circuits": self.max_circuits}

    def initial(self) -> C07World:
        return C07World(self.seed, self.route)

    def replay_build(self, hist: tuple) -> C07World:
        w = self.initial()
        for i in hist:
            self._apply(w, self.alphabet[i])
        return w

    # -- BfsModel interface (with the fork shortcut) ------------------------------------------------------
    def build(self, hist: tuple):  # noqa: ANN201
        hist = tuple(hist)
        if not self.fork:
            return self.replay_build(hist)
        if self._cached is not None and self._cached_hist == hist:
            return _Forked(self._cached, hist)
        self.drop_cache()
        self._cached = self.replay_build(hist)
        self._cached_hist = hist
        return self._cached

    def drop_cache(self) -> None:
        if self._cached is not None:
            self._cached.close()
            self._cached = None
            self._cached_hist = None

    def dispose(self, w) -> None:  # noqa: ANN001
        if isinstance(w, C07World) and w is not self._cached:
            w.close()

    def enabled(self, w):  # noqa: ANN001, ANN201
        return self._enabled(w.base if isinstance(w, _Forked) else w)

    def apply(self, w, ev):  # noqa: ANN001, ANN201
        if not isinstance(w, _Forked):
            return self._apply(w, ev)
        w.result = res = self._in_child(w.base, w.hist, ev)
        if res["exc"] is not None:
            raise type(res["exc"][0], (Exception,), {})(res["exc"][1])
        return res["obs"]

    def digest(self, w):  # noqa: ANN001, ANN201
        if not isinstance(w, _Forked):
            return self._digest(w)
        return w.result["digest"] if w.result is not None else self._digest(w.base)

    def check(self, w, hist, ev, obs) -> list:  # noqa: ANN001
        if not isinstance(w, _Forked):
            return self._check(w, hist, ev, obs)
        if w.result["check_exc"] is not None:
            raise RuntimeError(w.result["check_exc"])
        return w.result["viol"]

    def _in_child(self, base: C07World, hist: tuple, ev) -> dict:  # noqa: ANN001
        import pickle
        rfd, wfd = os.pipe()
        rng = random.getstate()                         # the random module re-seeds itself in a forked child
        pid = os.fork()
        if pid == 0:
            code = 0
            try:
                os.close(rfd)
                gc.disable()                            # a collection in the child only dirties copy-on-write pages
                events._set_running_loop(None)          # asyncio remembers the pid that set the running loop
                events._set_running_loop(base.loop)
                random.setstate(rng)
                res = {"obs": None, "exc": None, "viol": [], "check_exc": None}
                try:
                    res["obs"] = self._apply(base, ev)
                except Exception as e:  # noqa: BLE001
                    res["exc"] = (type(e).__name__, str(e)[:600])
                res["digest"] = self._digest(base)
                try:
                    res["viol"] = self._check(base, [self.alphabet[j] for j in hist], ev, res["obs"])
                except Exception:  # noqa: BLE001
                    import traceback
                    res["check_exc"] = traceback.format_exc()[-900:]
                view = memoryview(pickle.dumps(res))
                while view:
                    view = view[os.write(wfd, view):]
            except BaseException:  # noqa: BLE001
                code = 3
            finally:
                os._exit(code)
        os.close(wfd)
        parts = []
        while True:
            b = os.read(rfd, 1 << 16)
            if not b:
                break
            parts.append(b)
        os.close(rfd)
        _, status = os.waitpid(pid, 0)
        if status != 0 or not parts:
            msg = f"forked successor of {hist} + {ev} died (status {status})"
            raise RuntimeError(msg)
        return pickle.loads(b"".join(parts))  # noqa: S301

    # -- enabling -------------------------------------------------------------------------------------
    def _enabled(self, w: C07World) -> list:
        out = []
        attached = w.tep.tunnel_community is not None
        for i, ev in enumerate(self.alphabet):
            k = ev[0]
            if k == "rm" and (not w.removable() or (ev[1] == "last" and len(w.removable()) < 2)):
                continue
            if k in ("build", "buildsa", "buildcw") and len(w.tc.circuits) >= self.max_circuits:
                continue
            if k == "buildsa" and w.inst[1] is None:
                continue
            if k == "detach" and not attached:
                continue
            if k == "attach" and attached and w.tep.hops == ev[1]:
                continue
            if k in ("sa", "burst") and w.inst[1] is None:
                continue
            if k == "burst" and not self.burst_ok(w):
                continue
            if k == "xflags" and (PEER_FLAG_EXIT_IPV8 in w.true_flags(ev[1])) == bool(ev[2]):
                continue
            if k == "sa2" and w.inst[2] is None:
                continue
            if k == "load2" and w.inst[2] is not None:
                continue
            if k == "unload" and w.inst[ev[1]] is None:
                continue
            if k == "pex" and w.inst.get(3) is not None:
                continue
            out.append(i)
        return out

    @staticmethod
    def burst_ok(w: C07World) -> bool:
        # With the tunnel community attached and no suitable circuit in sight, each of the 101 sends starts a circuit
        # of its own (the library only recognises a circuit as "coming" once its first hop answered); that situation
        # is covered by the single send-anon event, the burst is skipped there to keep worlds small.
        return not (w.tep.tunnel_community is not None and w.ref.asked["anon"]
                    and w.situation() == "no-suitable-circuit")

    # -- transitions ------------------------------------------------------------------------------------
    def _apply(self, w: C07World, ev):  # noqa: ANN001, ANN201
        w.begin()
        k = ev[0]
        if k == "sa":
            w.send_anon()
        elif k == "sp":
            w.send_plain()
        elif k == "burst":
            w.send_anon(BURST)
        elif k == "build":
            w.build(ev[1], ev[2])
        elif k == "buildsa":
            # an anonymized send k deliveries into a circuit's handshake (the circuit is then half-built), rest flushed
            w.build(ev[1], ev[2])
            w.loop.settle()
            for _ in range(ev[3]):
                if not w.inflight:
                    break
                w.deliver(0)
            w.send_anon()
        elif k == "buildcw":
            # somebody awaits the new circuit's `ready` future (as hidden services, the REST API and applications do) and
            # is cancelled k deliveries into the handshake - a wait_for() timeout or a client that went away
            before = set(w.tc.circuits)
            w.build(ev[1], ev[2])
            w.loop.settle()
            new = [c for cid, c in w.tc.circuits.items() if cid not in before]
            for _ in range(ev[3]):
                if not w.inflight:
                    break
                w.deliver(0)
            if new:
                async def waiter(c=new[0]) -> None:  # noqa: ANN001
                    await c.ready
                t = w.loop.create_task(waiter())
                w.loop.settle()
                t.cancel()
                w.loop.settle()
        elif k == "rm":
            w.remove(ev[1])
        elif k == "tick":
            w.run_for(TICK)
        elif k == "detach":
            w.app_ep.set_tunnel_community(None)
        elif k == "attach":
            w.app_ep.set_tunnel_community(w.tc, hops=ev[1])
        elif k == "toggle":
            w.ref.asked["anon"] = not w.ref.asked["anon"]
            w.app_ep.set_anonymity(w.a_prefix, w.ref.asked["anon"])
        elif k == "setp":
            w.set_other(ev[1], bool(ev[2]))
        elif k == "xflags":
            w.set_exit_flag(ev[1], bool(ev[2]))
        elif k == "sa2":
            w.send_anon(inst=2)
        elif k == "load2":
            w.load_second()
        elif k == "unload":
            w.unload(ev[1])
        elif k == "pex":
            w.load_pex()
        else:
            raise ValueError(ev)
        w.flush()
        return self.observe(w)

    # -- observation (also the outcome hash): kinds and counts, never ciphertext ------------------------
    @staticmethod
    def label(w: C07World, data: bytes) -> str:
        p = data[:22]
        return "anon" if p == w.a_prefix else "plain" if p == w.p_prefix else "tunnel" if p == w.t_prefix else "other"

    def observe(self, w: C07World) -> tuple:
        def tally(items) -> tuple:  # noqa: ANN001
            d: dict = {}
            for i in items:
                d[i] = d.get(i, 0) + 1
            return tuple(sorted(d.items(), key=repr))

        raw = tally(self.label(w, dg.data) for dg in w.wire_log[w.wire_mark:] if dg.sender is w.raw)
        exited = tally((t.owner.name if t.owner else None, self.label(w, d)) for t, d, a in w.loop.outside_log[w.out_mark:])
        calls = tally((self.label(w, c["data"]), None if c["circuit"] is None else
                       (c["circuit"]["state"], c["circuit"]["goal_hops"], c["circuit"]["exit"])) for c in w.calls)
        return (w.ctx_before, tuple(sorted(w.asked_before.items())), raw, calls, exited, len(w.tep.send_queue), w.max_queue)

    # -- digest -----------------------------------------------------------------------------------------
    def _digest(self, w: C07World):  # noqa: ANN201
        now = time.time()
        tep, tc = w.tep, w.tc
        labels = {w.t_prefix: "tunnel", w.a_prefix: "anon", w.p_prefix: "plain", UNKNOWN_PREFIX: "unknown"}
        # every plain-valued attribute of the endpoint object: a flag or counter somebody adds there is state as well
        scalars = tuple(sorted((k, repr(x)) for k, x in vars(tep).items()
                               if isinstance(x, (bool, int, float, str, bytes, type(None)))))
        settings = tuple(sorted((labels.get(k, k.hex()), v) for k, v in tep.settings.items()))
        circuits = []
        for c in tc.circuits.values():      # dict order: find_circuits()[0] depends on it
            v = w.circuit_view(c)
            circuits.append((v["state"], c.ctype, v["goal_hops"], v["hops"], tuple(v["exit_flags"]), v["exit"], v["first"],
                             c.unverified_hop is not None,
                             c.required_exit is not None and w.by_key.get(c.required_exit.public_key.key_to_bin()),
                             round(now - c.last_activity, 3), tc.request_cache.has(RetryRequestCache, c.circuit_id),
                             c.circuit_id in w.removal_requested, w.created_exit.get(c.circuit_id)))
        tables = []
        for name in ("N", *ROLES):
            o = w.ov[name]
            tables.append((name,
                           tuple(sorted((round(now - e.last_activity, 3), w.node_of(e.hop)) for e in o.exit_sockets.values())),
                           tuple(sorted((round(now - r.last_activity, 3), r.direction, w.node_of(r.hop))
                                        for r in o.relay_from_to.values())),
                           tuple(sorted((w.by_key.get(p.public_key.key_to_bin(), "?"), tuple(sorted(f)))
                                        for p, f in o.candidates.items())),
                           len(o.request_cache._identifiers), tuple(sorted(o.settings.peer_flags))))  # noqa: SLF001
        timers = tuple(sorted(round(h._when - w.loop.time(), 3) for h in w.loop._scheduled if not h._cancelled))  # noqa: SLF001
        queue = [(labels.get(p[:22], "other"), tuple(a)) for a, p in tep.send_queue]
        return (settings, tep.tunnel_community is tc, tep.tunnel_community is None, tep.hops,
                (len(queue), tuple(sorted(set(queue))), type(tep.send_queue).__name__, getattr(tep.send_queue, "maxlen", None)),
                tuple(circuits), tuple(tables), timers, len(w.inflight),
                tuple(sorted(w.ref.asked.items())), tuple(sorted(w.ref.ever_asked.items())), scalars,
                tuple(w.inst.get(i) is not None for i in (1, 2, 3)))

    # -- oracle -----------------------------------------------------------------------------------------
    def judge(self, w: C07World, what: str) -> list:
        """Judge everything N did since w.begin() against the statement.  `what` names the step for the messages."""
        v: list = []
        ref = w.ref
        ctx = w.ctx_before
        overlay_of = {w.a_prefix: "anon", w.p_prefix: "plain"}
        # an overlay is held to the anonymity rules if it asked during the whole step, and to "unaffected" if it never asked
        asked = {o: w.asked_before[o] and ref.asked[o] for o in ref.asked}
        raw = [dg for dg in w.wire_log[w.wire_mark:] if dg.sender is w.raw]

        # 1. N's own socket
        raw_seen: dict[bytes, int] = {}
        for dg in raw:
            o = overlay_of.get(dg.data[:22])
            if o is None:
                continue
            raw_seen[dg.data] = raw_seen.get(dg.data, 0) + 1
            if asked[o]:
                v.append((f"raw-leak|{ctx}",
                          f"N's own socket sent a datagram of the {o} overlay to {dg.dst} ({len(dg.data)} bytes; produced by "
                          f"the overlay: {dg.data in ref.packets[o]}) while that overlay asks for anonymity; situation before "
                          f"the step: {ctx}; step {what}"))
            elif ref.ever_asked[o]:
                ref.fates["anon_raw_while_not_anonymous"] += 1
            elif dg.data not in ref.packets[o]:
                v.append((f"{o}-affected:altered", f"raw datagram with the {o} overlay's prefix that the overlay never "
                          f"produced ({len(dg.data)} bytes to {dg.dst}); step {what}"))
            elif tuple(dg.dst) != w.dest_of[o]:
                v.append((f"{o}-affected:misrouted", f"{o} overlay datagram sent to {dg.dst}, asked {w.dest_of[o]}; step {what}"))
        # 4. an overlay that never asked for anonymity is unaffected
        for o, sent in w.sent_now.items():
            if ref.ever_asked[o]:
                continue
            for p in sent:
                n = raw_seen.get(p, 0)
                if n == 1:
                    ref.fates["plain_raw"] += 1
                    continue
                fate = ("duplicated" if n > 1 else "tunnelled" if any(c["data"] == p for c in w.calls) else
                        "queued" if any(q == p for _, q in w.tep.send_queue) else "vanished")
                v.append((f"{o}-affected:{fate}", f"the {o} overlay (never asked for anonymity) sent a datagram that left N's "
                          f"raw socket {n} times (expected exactly once, byte-identical): {fate}; situation {ctx}; step {what}"))

        # 2. tunnel data
        for c in w.calls:
            o = overlay_of.get(c["data"][:22])
            if o is None:
                continue
            if not ref.ever_asked[o]:
                if c["data"] not in w.sent_now[o]:
                    v.append((f"{o}-affected:tunnelled", f"send_data was called with an earlier datagram of the {o} overlay, "
                              f"which never asked for anonymity; step {what}"))
                continue
            cv = c["circuit"]
            why = None
            if cv is None:
                why = "unknown-circuit"
            elif cv["state"] != CIRCUIT_STATE_READY:
                why = f"circuit-{cv['state'].lower()}"
            elif c["being_removed"]:
                why = "circuit-being-removed"
            elif cv["goal_hops"] != c["configured_hops"] or cv["hops"] != c["configured_hops"]:
                why = "wrong-length"
            elif PEER_FLAG_EXIT_IPV8 not in cv["exit_flags"] or PEER_FLAG_EXIT_IPV8 not in cv["exit_true_flags"]:
                why = "exit-not-ipv8"
            elif c["target"] != c["first_hop"]:
                why = "not-sent-to-first-hop"
            elif c["data"] not in ref.packets[o]:
                why = "bytes-altered"
            elif c["dest"] != w.dest_of[o]:
                why = "destination-altered"
            if why:
                v.append((f"tunnel-data:{why}|{ctx}", f"send_data for a datagram of the {o} overlay named circuit {cv} "
                          f"(configured length {c['configured_hops']}, target {c['target']}, dest {c['dest']}): {why}; "
                          f"situation before the step: {ctx}; step {what}"))
            else:
                ref.fates["anon_tunnelled"] += 1

        # 3. the hold queue
        reached = max(w.max_queue, len(w.tep.send_queue))
        if reached > QUEUE_BOUND:
            v.append(("queue-unbounded", f"hold queue reached {reached} entries (bound {QUEUE_BOUND}); step {what}"))
        foreign = [q for _, q in w.tep.send_queue
                   if overlay_of.get(q[:22]) is None or (not ref.ever_asked[overlay_of[q[:22]]] and q not in ref.packets["plain"])]
        if foreign:
            v.append(("queue-foreign", f"{len(foreign)} queued datagrams belong to no overlay that asked for anonymity (first "
                      f"prefix {foreign[0][:22].hex()}); step {what}"))
        for t, d, _ in w.loop.outside_log[w.out_mark:]:
            if d[:22] == w.a_prefix:
                who = t.owner.name if t.owner else "?"
                ref.fates["anon_exited_at"][who] = ref.fates["anon_exited_at"].get(who, 0) + 1
        return v

    def _check(self, w: C07World, hist, ev, obs, probe: bool = True) -> list:  # noqa: ANN001
        v = self.judge(w, repr(ev))
        if not probe:
            return v
        # Probe (the digest was taken before, the world is thrown away after) in the state just reached: anonymity is
        # (re)declared off for every *other* prefix - what loading or configuring another overlay does, e.g.
        # TunnelCommunity.__init__ for its own prefix - then both toy overlays send once.
        w.begin()
        for which in ("tunnel", "unknown", "plain"):
            if which != "plain" or not w.ref.asked["plain"]:
                w.app_ep.set_anonymity(w.prefix_of[which], False)
        w.send_plain()
        for i, overlay in w.inst.items():
            if overlay is not None and i != 3:
                w.send_anon(inst=i)
        # no flush: what N hands to its raw socket and to send_data is recorded at the call, nothing has to be delivered
        v.extend(self.judge(w, f"probe (other prefixes declared not anonymous, plain send, one send by every loaded "
                               f"anonymized instance) after {ev!r}"))
        # a second TunnelEndpoint of the process (another pseudonym's, configured for 3 hops on the same tunnel community):
        # what it holds back is its own business - this endpoint's queue must not see it
        from ipv8.messaging.anonymization.endpoint import TunnelEndpoint  # noqa: PLC0415
        held = list(w.tep.send_queue)
        other = TunnelEndpoint(w.n.endpoint)
        foreign = UNKNOWN_PREFIX + b"\x01c07-second-endpoint"
        other.set_anonymity(UNKNOWN_PREFIX, True)
        other.set_tunnel_community(w.tc, hops=3)      # no 3-hop circuit exists: the packet is held back
        other.send(DEST_PLAIN, foreign)
        if list(w.tep.send_queue) != held or any(p == foreign for _, p in w.tep.send_queue):
            v.append(("queue-foreign|second-endpoint",
                      f"[after {ev!r}] a packet that a second TunnelEndpoint of the process (hops=3) had to hold back "
                      f"turned up in this endpoint's queue (hops={w.tep.hops}): it would be flushed over a circuit of "
                      f"this endpoint's length"))
        return v


# ------------------------------------------------------------------------------------------------
# configurations
# ------------------------------------------------------------------------------------------------

FULL = [("sa",), ("sp",), ("burst",),
        ("build", "X", 1), ("build", "X", 2), ("build", "Y", 1), ("build", "Y", 2),
        ("rm", "first"), ("rm", "last"), ("tick",),
        ("detach",), ("attach", 1), ("attach", 2), ("toggle",),
        ("setp", "tunnel", False), ("setp", "plain", False), ("setp", "plain", True), ("setp", "unknown", False)]
LIFE = [("sa",), ("sa2",), ("load2",), ("unload", 1), ("unload", 2), ("toggle",), ("build", "X", 1), ("rm", "first"),
        ("tick",), ("detach",), ("pex",)]
# the exit's operator withdraws / re-announces IPv8 exiting (real re-introduction in both directions inside the event)
FLAGS = [("sa",), ("xflags", "X", False), ("xflags", "X", True), ("build", "X", 1), ("build", "Y", 1), ("build", "X", 2),
         ("rm", "first"), ("tick",), ("attach", 2)]
FULLX = FULL + [("xflags", "X", False), ("xflags", "X", True)]
# the pseudonym route: "sa" = identity overlay sends, "sp" = attestation overlay sends
PSEUDO = [("sa",), ("sp",), ("build", "X", 1), ("build", "Y", 1), ("rm", "first"), ("tick",), ("detach",), ("attach", 2),
          ("toggle",), ("xflags", "X", False)]
# an anonymized send in the middle of a circuit's handshake (after k deliveries: 2 = first hop confirmed, 4-5 = the
# extension is under way), so that whatever the library remembers about a half-built circuit is later used on the
# finished one
MID = ([("sa",), ("rm", "first"), ("tick",), ("attach", 1), ("attach", 2), ("buildsa", "X", 1, 1)]
       + [("buildsa", e, 2, k) for e in ("Y", "X") for k in (1, 2, 3, 4, 5)]
       + [("buildcw", e, 2, k) for e in ("Y", "X") for k in (0, 2)])
EVERYTHING = FULLX + [e for e in LIFE if e not in FULLX] + [e for e in MID if e not in FULLX]
CORE = [("sa",), ("burst",), ("build", "X", 1), ("build", "Y", 1), ("build", "X", 2),
        ("rm", "first"), ("tick",), ("detach",), ("attach", 2), ("toggle",)]
CORE_QUICK = [e for e in CORE if e != ("burst",)]    # quick: the burst (most expensive event) only in FULL; see notes
# ("setp", "tunnel", False) is not in CORE: on a correct tree it is a self-loop, and the probe after every transition
# performs exactly that call before sending; FULL has it as an event.

WITNESSES = [
    [("sa",), ("sa",)],
    [("build", "Y", 1), ("sa",), ("sa",)],
    [("build", "X", 2), ("sa",), ("sa",)],
    [("build", "X", 2), ("attach", 2), ("sa",)],
    [("build", "X", 1), ("rm", "first"), ("sa",), ("tick",), ("sa",), ("sa",)],
    [("build", "X", 1), ("rm", "first"), ("burst",)],
    [("build", "X", 1), ("burst",)],
    [("detach",), ("sa",), ("attach", 1), ("sa",)],
    [("toggle",), ("sa",), ("toggle",), ("sa",)],
    [("sp",)],
    [("setp", "tunnel", False), ("sa",), ("sa",)],
    [("setp", "plain", True), ("sp",), ("sp",), ("setp", "plain", False), ("sp",)],
    [("load2",), ("unload", 1), ("sa2",), ("sa2",)],
    [("xflags", "X", False), ("sa",), ("sa",), ("xflags", "X", True), ("sa",), ("sa",)],
    [("load2",), ("unload", 2), ("unload", 1), ("load2",), ("sa2",)],
]


def configs(ctx: core.Ctx) -> list[tuple[str, list, int, int, str]]:
    """(name, alphabet, depth, max circuits started by build events, construction route of node N)."""
    cfg = ([("core", CORE, 9, 2, "wired"), ("full", FULLX, 5, 3, "wired"), ("life", LIFE, 8, 2, "wired"),
            ("flags", FLAGS, 7, 2, "wired"), ("service", FULL, 4, 3, "service"), ("service+stats", FULL, 4, 3, "service+stats"),
            ("pseudonym", PSEUDO, 5, 2, "pseudonym"),
            ("mid", MID, 5, 2, "wired")] if ctx.thorough else
           [("core", CORE_QUICK, 7, 2, "wired"), ("full", FULL, 4, 3, "wired"), ("life", LIFE, 5, 2, "wired"),
            ("flags", FLAGS, 4, 2, "wired"), ("service", FULL, 2, 3, "service"), ("service+stats", FULL, 3, 3, "service+stats"),
            ("pseudonym", PSEUDO, 3, 2, "pseudonym"), ("mid", MID, 3, 2, "wired")])
    cap = int(os.environ.get("C07_MAX_DEPTH", "0") or 0)     # screening aid (mutant runs); reported as not exhaustive
    return [(n, a, min(d, cap) if cap else d, mc, route) for n, a, d, mc, route in cfg]


def run_history(seed: int, history: list, route: str = "wired") -> tuple[list, list, dict]:
    """Plain replay of one history with the oracle after every step: (violations, observations, fates)."""
    m = Model(seed, EVERYTHING, route=route)
    w = m.initial()
    viol, obs_log = [], []
    try:
        for i, ev in enumerate(history):
            ev = tuple(ev)
            obs = m._apply(w, ev)  # noqa: SLF001
            obs_log.append(obs)
            # intermediate steps are judged without the probe so that the world is exactly the one the search replayed
            for k, what in m._check(w, history[:i], ev, obs, probe=i == len(history) - 1):  # noqa: SLF001
                viol.append((k, f"[step {i + 1}/{len(history)}] {what}"))
        return viol, obs_log, w.ref.fates
    finally:
        w.close()


def self_check(model: Model, histories: list) -> None:
    """The fork shortcut must give exactly what a plain replay gives (digest and observation)."""
    plain = Model(model.seed, model.alphabet, model.max_circuits, fork=False, route=model.route)
    index = {e: i for i, e in enumerate(model.alphabet)}
    for h in histories:
        if not h:
            continue
        idx = tuple(index[tuple(e)] for e in h)
        w = plain.replay_build(idx[:-1])
        obs_a = plain._apply(w, model.alphabet[idx[-1]])  # noqa: SLF001
        dig_a = plain._digest(w)  # noqa: SLF001
        w.close()
        model.drop_cache()
        model.build(idx[:-1])
        proxy = model.build(idx[:-1])
        obs_b = model.apply(proxy, model.alphabet[idx[-1]])
        dig_b = model.digest(proxy)
        model.drop_cache()
        if obs_a != obs_b or dig_a != dig_b:
            core.eprint(f"C07: forked execution and plain replay disagree on {h}:\n {dig_a}\n {dig_b}\n {obs_a}\n {obs_b}")
            sys.exit(2)


def run(ctx: core.Ctx) -> core.Report:
    seed = ctx.seed % 12
    total_states = total_trans = outcomes = 0
    runs, violations, samples = [], [], []
    exhaustive = True
    for name, alphabet, depth, max_circuits, route in configs(ctx):
        model = Model(seed, alphabet, max_circuits, fork=True, route=route)
        r = core.bfs(model, depth, ctx.jobs, chunk=4)
        model.drop_cache()
        if not r["violations"]:
            # (a violation may be the very reason why two executions of one history differ, e.g. process-wide state)
            self_check(model, r["samples"])
        total_states += r["states"]
        total_trans += r["transitions"]
        outcomes += r["distinct_outcomes"]
        exhaustive &= not r["capped"] and not os.environ.get("C07_MAX_DEPTH")
        runs.append({"name": name, "route": route, "alphabet": [list(e) for e in alphabet], "depth": r["completed_depth"],
                     "max_circuits_started_by_build_events": max_circuits, "states": r["states"],
                     "transitions": r["transitions"], "levels": r["levels"], "fixpoint": r["fixpoint"],
                     "distinct_observations": r["distinct_outcomes"]})
        samples.extend(r["samples"][:1])
        for v in r["violations"]:
            v.replay = {"seed": seed, "route": route, "history": v.replay["history"]}
            v.key += "" if route == "wired" else f"|route:{route}"
            violations.append(v)
    # vacuity witnesses: scripted histories whose observations show that every class of behaviour really occurs
    witnesses = []
    fates_total: dict = {}
    for h in WITNESSES:
        viol, obs_log, fates = run_history(seed, h)
        witnesses.append({"history": h, "last_observation": obs_log[-1], "fates": fates})
        for k, x in fates.items():
            if isinstance(x, dict):
                d = fates_total.setdefault(k, {})
                for kk, n in x.items():
                    d[kk] = d.get(kk, 0) + n
            else:
                fates_total[k] = fates_total.get(k, 0) + x
        for k, what in viol:
            violations.append(core.Violation(k, what, {"seed": seed, "history": h}))
    seen = set()
    uniq = []
    for v in sorted(violations, key=lambda v: len(v.replay["history"])):
        if v.key not in seen:
            seen.add(v.key)
            uniq.append(v)
    cov = {
        "states": total_states, "transitions": total_trans, "traces_validated_against_impl": total_trans,
        "samples": samples, "exhaustive": exhaustive, "distinct_outcomes": outcomes, "runs": runs,
        "probes_after_transition": total_trans, "witnesses": witnesses, "witness_fates_total": fates_total,
        "tick_seconds": TICK, "burst": BURST, "queue_bound": QUEUE_BOUND,
        "explanation": "BFS over event histories of a real node whose TunnelCommunity, anonymized overlay and plain overlay "
                       "share one TunnelEndpoint(SimEndpoint), with real relay/exit nodes; every transition is executed on "
                       "the implementation (macro step to network quiescence) and judged on the wire and on the arguments "
                       "of send_data; after every transition a probe runs in the reached state (anonymity declared off for the "
                       "tunnel community's, an unknown and - unless it asked - the plain overlay's prefix, then one plain and "
                       "one anonymized send), judged by the same oracle. "
                       "distinct_outcomes counts distinct (situation, raw kinds, send_data circuit classes, exit kinds, "
                       "queue length) observations.",
    }
    return core.Report(LEVEL, cov, uniq, [
        "N's receive-side listener table is normalised (TunnelEndpoint does not forward remove_listener, which leaves the "
        "TunnelCommunity registered next to its crypto endpoint: a C11 matter); the send path is the library's own",
        "the burst event is skipped while the tunnel community is attached and no suitable circuit exists in any state "
        "(every queued send would start another circuit); the single send covers that situation",
        "build events are bounded per run (max_circuits_started_by_build_events); circuits the endpoint starts itself are not",
        "states are merged without the random module's state: it only picks circuit ids, cache identifiers and the first hop "
        "among equally used relays, none of which the oracle reads",
        "delivery is FIFO to quiescence inside a step (no loss, no reordering): C04/C09 cover faults",
        "inbound delivery (notify_listeners(from_tunnel)) and overlays on an endpoint that is not a TunnelEndpoint are not "
        "part of the statement's send-side claim and are not judged",
        "order of queued datagrams on flush is not judged (the statement promises none)",
        "crypto primitives (ipv8_rust_tunnels) trusted; PythonCryptoEndpoint only",
    ])


def replay(ctx: core.Ctx, data: dict) -> list:
    route = data.get("route", "wired")
    viol, _, _ = run_history(data["seed"], [tuple(e) for e in data["history"]], route)
    out, seen = [], set()
    for k, what in viol:
        k += "" if route == "wired" else f"|route:{route}"
        if k not in seen:
            seen.add(k)
            out.append(core.Violation(k, what))
    return out
