"""
C07 - Anonymized overlays never send from the node's own address.

Explicit-state BFS over event histories on one real node N whose overlays (a real TunnelCommunity, one toy
overlay that asked for anonymity, one plain toy overlay) all sit on ``TunnelEndpoint(SimEndpoint)``; three more
real tunnel nodes (relay R, exit X with PEER_FLAG_EXIT_IPV8, exit Y without it) serve the circuits.  Every event
is a macro step run to network quiescence; time passes only in the explicit "tick" event (5 s).

Oracle (written from the statement, reads the wire and the arguments of ``send_data``, never the routing code):
 * N's raw socket never carries a datagram that starts with the anonymized overlay's prefix while that overlay
   asks for anonymity;
 * every ``TunnelCommunity.send_data`` that carries such a datagram names a circuit that is READY, of the
   configured length and whose exit advertised (and really has) PEER_FLAG_EXIT_IPV8, and carries the bytes the
   overlay produced to the destination the overlay asked for;
 * the hold queue never exceeds 100 entries and only ever holds datagrams of the anonymized overlay;
 * every datagram of the plain overlay leaves N's raw socket exactly once, byte-identical, to the requested
   destination, and never enters the tunnel or the queue.
"""
from __future__ import annotations

import os
import random
import time
from asyncio import events

from ipv8.community import Community, CommunitySettings
from ipv8.messaging.anonymization.caches import RetryRequestCache
from ipv8.messaging.anonymization.community import TunnelCommunity
from ipv8.messaging.anonymization.endpoint import TunnelEndpoint
from ipv8.messaging.anonymization.tunnel import (
    CIRCUIT_STATE_CLOSING,
    CIRCUIT_STATE_READY,
    PEER_FLAG_EXIT_IPV8,
)
from ipv8.messaging.interfaces.udp.endpoint import UDPv4Address
from ipv8.messaging.lazy_payload import VariablePayload, vp_compile

from .. import core, fixtures, simnet
from ..tunnelworld import EXIT_ALL, EXIT_BT, RELAY

LEVEL = "model_checking"

QUEUE_BOUND = 100            # "held in a bounded queue": the library's documented bound (deque(maxlen=100))
BURST = 101
TICK = 5.0                   # == TunnelSettings.remove_tunnel_delay
DEST_ANON = UDPv4Address("9.9.9.9", 99)
DEST_PLAIN = UDPv4Address("8.8.8.8", 88)
ROLES = {"R": RELAY, "X": EXIT_ALL, "Y": EXIT_BT}     # X exits IPv8 traffic, Y does not


@vp_compile
class MarkerPayload(VariablePayload):
    msg_id = 1
    format_list = ["I"]
    names = ["seq"]


class _ToyOverlay(Community):
    """A minimal overlay: it signs a numbered message and hands it to whatever endpoint it was given."""

    def __init__(self, settings: CommunitySettings) -> None:
        super().__init__(settings)
        self.produced: list[bytes] = []

    def send_marker(self, address: tuple, seq: int) -> bytes:
        packet = self.ezr_pack(MarkerPayload.msg_id, MarkerPayload(seq))
        self.produced.append(packet)
        self.endpoint.send(address, packet)
        return packet


class AnonOverlay(_ToyOverlay):
    community_id = bytes.fromhex("c007a0") + b"\xaa" * 17


class PlainOverlay(_ToyOverlay):
    community_id = bytes.fromhex("c007b0") + b"\xbb" * 17


# ------------------------------------------------------------------------------------------------
# reference: what the statement allows, tracked from the events alone
# ------------------------------------------------------------------------------------------------

class Ref:
    def __init__(self) -> None:
        self.anon_asked = True        # AnonOverlay was created with settings.anonymize = True
        self.anon_packets: set[bytes] = set()     # everything the anonymized overlay ever produced
        self.plain_packets: set[bytes] = set()
        self.fates = {"tunnelled": 0, "queued_now": 0, "dropped_or_pending": 0, "raw_while_not_anonymous": 0,
                      "plain_raw": 0}


# ------------------------------------------------------------------------------------------------
# the explored world
# ------------------------------------------------------------------------------------------------

class C07World(simnet.World):
    def __init__(self, seed: int) -> None:
        super().__init__(("c07", seed))
        idx = fixtures.rotate(seed, 1 + len(ROLES))
        self.ov: dict[str, TunnelCommunity] = {}
        self.flags: dict[str, set] = {"N": set(RELAY), **{k: set(v) for k, v in ROLES.items()}}

        n = self.add_node("N", idx[0])
        self.n = n
        self.raw = n.endpoint                          # the socket: what leaves here leaves from N's own address
        self.tep = TunnelEndpoint(self.raw)
        self.tc = self.ov["N"] = n.add_overlay(TunnelCommunity, self._tunnel_settings(RELAY), endpoint=self.tep)
        anon_settings = AnonOverlay.settings_class()
        anon_settings.anonymize = True
        self.anon = n.add_overlay(AnonOverlay, anon_settings, endpoint=self.tep)
        self.plain = n.add_overlay(PlainOverlay, endpoint=self.tep)
        for i, (name, flags) in enumerate(ROLES.items()):
            node = self.add_node(name, idx[1 + i])
            self.ov[name] = node.add_overlay(TunnelCommunity, self._tunnel_settings(flags))
        self.by_key = {nd.my_peer.public_key.key_to_bin(): name for name, nd in self.nodes.items()}
        # every pair meets once (the request teaches the receiver, the response teaches the sender)
        names = list(self.ov)
        for i, a in enumerate(names):
            for b in names[i + 1:]:
                self.nodes[a].run(self.ov[a].walk_to, self.nodes[b].address)
        self.flush()

        self.ref = Ref()
        self.seq = 0
        self.calls: list[dict] = []                    # send_data calls of the current event
        self.wire_mark = len(self.wire_log)
        self.out_mark = len(self.loop.outside_log)
        self.ctx_before = ""
        self.asked_before = True
        self.plain_now: list[bytes] = []
        self.anon_now: list[bytes] = []
        self.max_queue = 0
        self._wrap_send_data()

    @staticmethod
    def _tunnel_settings(flags):  # noqa: ANN001, ANN205
        s = TunnelCommunity.settings_class()
        s.peer_flags = set(flags)
        s.min_circuits = 0
        s.max_circuits = 0
        return s

    # -- observation seam: arguments of send_data on N's TunnelCommunity ----------------------------
    def _wrap_send_data(self) -> None:
        tc, inner = self.tc, self.tc.send_data

        def send_data(target, circuit_id, dest_address, source_address, data):  # noqa: ANN001, ANN202
            c = tc.circuits.get(circuit_id)
            self.calls.append({
                "target": tuple(target), "circuit_id": circuit_id, "dest": tuple(dest_address), "data": bytes(data),
                "configured_hops": self.tep.hops,
                "circuit": None if c is None else self.circuit_view(c),
                "first_hop": None if c is None or not c.hops else tuple(c.hop.address),
            })
            self.max_queue = max(self.max_queue, len(self.tep.send_queue))
            return inner(target, circuit_id, dest_address, source_address, data)

        tc.send_data = send_data

    def node_of(self, hop) -> str:  # noqa: ANN001
        return self.by_key.get(hop.peer.public_key.key_to_bin(), "?")

    def circuit_view(self, c) -> dict:  # noqa: ANN001
        hops = c.hops
        exit_name = self.node_of(hops[-1]) if hops else None
        return {"state": c.state, "goal_hops": c.goal_hops, "hops": len(hops), "exit_flags": sorted(c.exit_flags),
                "exit": exit_name, "exit_true_flags": sorted(self.flags.get(exit_name, ())) if exit_name else [],
                "first": self.node_of(hops[0]) if hops else None}

    # -- reference view of the routing situation (for violation keys and enabling only) ---------------
    def situation(self) -> str:
        if self.tep.tunnel_community is None:
            return "detached"
        want = self.tep.hops
        match = [c for c in self.tc.circuits.values() if c.goal_hops == want and c.ctype == "DATA"
                 and PEER_FLAG_EXIT_IPV8 in c.exit_flags]
        if not match:
            others = [c for c in self.tc.circuits.values() if c.state == CIRCUIT_STATE_READY]
            return "no-suitable-circuit" + ("(other-ready)" if others else "")
        states = [c.state for c in match]
        if CIRCUIT_STATE_READY in states:
            return "suitable-ready" if states[0] == CIRCUIT_STATE_READY else "suitable-ready-behind-" + states[0].lower()
        return "suitable-" + states[0].lower()

    # -- events -----------------------------------------------------------------------------------------
    def begin(self) -> None:
        self.calls = []
        self.wire_mark = len(self.wire_log)
        self.out_mark = len(self.loop.outside_log)
        self.ctx_before = self.situation()
        self.asked_before = self.ref.anon_asked
        self.plain_now, self.anon_now = [], []
        self.max_queue = len(self.tep.send_queue)

    def send_anon(self, count: int = 1) -> None:
        for _ in range(count):
            self.seq += 1
            p = self.n.run(self.anon.send_marker, DEST_ANON, self.seq)
            self.anon_now.append(p)
            self.ref.anon_packets.add(p)
            self.max_queue = max(self.max_queue, len(self.tep.send_queue))

    def send_plain(self) -> None:
        self.seq += 1
        p = self.n.run(self.plain.send_marker, DEST_PLAIN, self.seq)
        self.plain_now.append(p)
        self.ref.plain_packets.add(p)

    def peer_of(self, target: str):  # noqa: ANN201
        p = self.n.network.get_verified_by_public_key_bin(self.nodes[target].my_peer.public_key.key_to_bin())
        assert p is not None, target
        return p

    def build(self, exit_name: str, hops: int) -> None:
        """Start a circuit of `hops` hops that must end in `exit_name` and run the real handshake to quiescence."""
        self.n.run(self.tc.create_circuit, hops, required_exit=self.peer_of(exit_name))
        self.flush()

    def removable(self) -> list:
        return [c for c in self.tc.circuits.values() if c.state != CIRCUIT_STATE_CLOSING]

    def remove(self, which: str) -> None:
        cs = self.removable()
        c = cs[0] if which == "first" else cs[-1]
        self.n.run(self.tc.remove_circuit, c.circuit_id, "c07", destroy=1)
        self.flush()


PREFIX_LABELS = ("tunnel", "anon", "plain")


class _Forked:
    """Stand-in for 'the cached world of this history, one event later'; filled in by a forked child."""

    def __init__(self, base: C07World, hist: tuple) -> None:
        self.base, self.hist, self.result = base, hist, None


class Model(core.BfsModel):
    """
    BfsModel over C07World.  core.bfs rebuilds the world of a history once per enabled event; because a world costs
    ~20 ms to set up and an event ~1 ms, `fork=True` builds each history once and runs every successor event in a
    fork()ed copy of the process (apply + digest + oracle happen in the child, the results come back over a pipe).
    The computation is the same as with plain replay (`fork=False`, used by --replay and the self-check).
    """

    def __init__(self, seed: int, alphabet: list, max_circuits: int = 99, fork: bool = False) -> None:
        self.seed = seed
        self.alphabet = [tuple(e) for e in alphabet]
        self.max_circuits = max_circuits
        self.fork = fork and hasattr(os, "fork")
        self._cached: C07World | None = None
        self._cached_hist: tuple | None = None

    def params(self) -> dict:
        return {"seed": self.seed, "alphabet": [list(e) for e in self.alphabet], "max_circuits": self.max_circuits}

    def initial(self) -> C07World:
        return C07World(self.seed)

    def replay_build(self, hist: tuple) -> C07World:
        w = self.initial()
        for i in hist:
            self._apply(w, self.alphabet[i])
        return w

    # -- BfsModel interface (with the fork shortcut) ------------------------------------------------------
    def build(self, hist: tuple):  # noqa: ANN201
        hist = tuple(hist)
        if not self.fork:
            return self.replay_build(hist)
        if self._cached is not None and self._cached_hist == hist:
            return _Forked(self._cached, hist)
        if self._cached is not None:
            self._cached.close()
            self._cached = None
        self._cached = self.replay_build(hist)
        self._cached_hist = hist
        return self._cached

    def dispose(self, w) -> None:  # noqa: ANN001
        if isinstance(w, C07World) and w is not self._cached:
            w.close()

    def enabled(self, w):  # noqa: ANN001, ANN201
        return self._enabled(w.base if isinstance(w, _Forked) else w)

    def apply(self, w, ev):  # noqa: ANN001, ANN201
        if not isinstance(w, _Forked):
            return self._apply(w, ev)
        w.result = res = self._in_child(w.base, w.hist, ev)
        if res["exc"] is not None:
            raise type(res["exc"][0], (Exception,), {})(res["exc"][1])
        return res["obs"]

    def digest(self, w):  # noqa: ANN001, ANN201
        if not isinstance(w, _Forked):
            return self._digest(w)
        return w.result["digest"] if w.result is not None else self._digest(w.base)

    def check(self, w, hist, ev, obs) -> list:  # noqa: ANN001
        if not isinstance(w, _Forked):
            return self._check(w, hist, ev, obs)
        if w.result["check_exc"] is not None:
            raise RuntimeError(w.result["check_exc"])
        return w.result["viol"]

    def _in_child(self, base: C07World, hist: tuple, ev) -> dict:  # noqa: ANN001
        import pickle
        rfd, wfd = os.pipe()
        rng = random.getstate()                         # the random module re-seeds itself in a forked child
        pid = os.fork()
        if pid == 0:
            code = 0
            try:
                os.close(rfd)
                events._set_running_loop(None)          # asyncio remembers the pid that set the running loop
                events._set_running_loop(base.loop)
                random.setstate(rng)
                res = {"obs": None, "exc": None, "viol": [], "check_exc": None}
                try:
                    res["obs"] = self._apply(base, ev)
                except Exception as e:  # noqa: BLE001
                    res["exc"] = (type(e).__name__, str(e)[:600])
                res["digest"] = self._digest(base)
                try:
                    res["viol"] = self._check(base, [self.alphabet[j] for j in hist], ev, res["obs"])
                except Exception:  # noqa: BLE001
                    import traceback
                    res["check_exc"] = traceback.format_exc()[-900:]
                data = pickle.dumps(res)
                view = memoryview(data)
                while view:
                    view = view[os.write(wfd, view):]
            except BaseException:  # noqa: BLE001
                code = 3
            finally:
                os._exit(code)
        os.close(wfd)
        parts = []
        while True:
            b = os.read(rfd, 1 << 16)
            if not b:
                break
            parts.append(b)
        os.close(rfd)
        _, status = os.waitpid(pid, 0)
        if status != 0 or not parts:
            msg = f"forked successor of {hist} + {ev} died (status {status})"
            raise RuntimeError(msg)
        return pickle.loads(b"".join(parts))  # noqa: S301

    # -- enabling -------------------------------------------------------------------------------------
    def _enabled(self, w: C07World) -> list:
        out = []
        attached = w.tep.tunnel_community is not None
        for i, ev in enumerate(self.alphabet):
            k = ev[0]
            if k == "rm" and (not w.removable() or (ev[1] == "last" and len(w.removable()) < 2)):
                continue
            if k == "build" and len(w.tc.circuits) >= self.max_circuits:
                continue
            if k == "detach" and not attached:
                continue
            if k == "attach" and attached and w.tep.hops == ev[1]:
                continue
            if k == "burst" and attached and w.ref.anon_asked and w.situation().startswith("no-suitable-circuit"):
                # each of the 101 sends would start a circuit of its own (the library only recognises a circuit
                # as "coming" once its first hop answered); the single send-anon event covers this situation
                continue
            out.append(i)
        return out

    # -- transitions ------------------------------------------------------------------------------------
    def _apply(self, w: C07World, ev):  # noqa: ANN001, ANN201
        w.begin()
        k = ev[0]
        if k == "sa":
            w.send_anon()
        elif k == "sp":
            w.send_plain()
        elif k == "burst":
            w.send_anon(BURST)
        elif k == "build":
            w.build(ev[1], ev[2])
        elif k == "rm":
            w.remove(ev[1])
        elif k == "tick":
            w.run_for(TICK)
        elif k == "detach":
            w.tep.set_tunnel_community(None)
        elif k == "attach":
            w.tep.set_tunnel_community(w.tc, hops=ev[1])
        elif k == "toggle":
            w.ref.anon_asked = not w.ref.anon_asked
            w.tep.set_anonymity(w.anon.get_prefix(), w.ref.anon_asked)
        else:
            raise ValueError(ev)
        w.flush()
        return self.observe(w)

    # -- observation (also the outcome hash): kinds and counts, never ciphertext ------------------------
    def label(self, w: C07World, data: bytes) -> str:
        p = data[:22]
        if p == w.anon.get_prefix():
            return "anon"
        if p == w.plain.get_prefix():
            return "plain"
        if p == w.tc.get_prefix():
            return "tunnel"
        return "other"

    def observe(self, w: C07World) -> tuple:
        raw = [dg for dg in w.wire_log[w.wire_mark:] if dg.sender is w.raw]
        raw_kinds: dict[str, int] = {}
        for dg in raw:
            lab = self.label(w, dg.data)
            raw_kinds[lab] = raw_kinds.get(lab, 0) + 1
        exited = [(t.owner.name if t.owner else None, self.label(w, d)) for t, d, a in w.loop.outside_log[w.out_mark:]]
        ex_kinds: dict[tuple, int] = {}
        for e in exited:
            ex_kinds[e] = ex_kinds.get(e, 0) + 1
        calls = [(self.label(w, c["data"]), None if c["circuit"] is None else
                  (c["circuit"]["state"], c["circuit"]["goal_hops"], c["circuit"]["exit"])) for c in w.calls]
        call_kinds: dict[tuple, int] = {}
        for c in calls:
            call_kinds[c] = call_kinds.get(c, 0) + 1
        return (w.ctx_before, w.asked_before, tuple(sorted(raw_kinds.items())), tuple(sorted(call_kinds.items(), key=repr)),
                tuple(sorted(ex_kinds.items(), key=repr)), len(w.tep.send_queue), w.max_queue)

    # -- digest -----------------------------------------------------------------------------------------
    def _digest(self, w: C07World):  # noqa: ANN201
        now = time.time()
        tep, tc = w.tep, w.tc
        labels = {w.tc.get_prefix(): "tunnel", w.anon.get_prefix(): "anon", w.plain.get_prefix(): "plain"}
        settings = tuple(sorted((labels.get(k, k.hex()), v) for k, v in tep.settings.items()))
        circuits = []
        for c in tc.circuits.values():      # dict order: find_circuits()[0] depends on it
            v = w.circuit_view(c)
            circuits.append((v["state"], c.ctype, v["goal_hops"], v["hops"], tuple(v["exit_flags"]), v["exit"], v["first"],
                             c.unverified_hop is not None, c.required_exit is not None and w.by_key.get(
                                 c.required_exit.public_key.key_to_bin()),
                             round(now - c.last_activity, 3),
                             tc.request_cache.has(RetryRequestCache, c.circuit_id)))
        remote = []
        for name in ("N", *ROLES):
            o = w.ov[name]
            remote.append((name,
                           tuple(sorted((round(now - e.last_activity, 3), w.node_of(e.hop)) for e in o.exit_sockets.values())),
                           tuple(sorted((round(now - r.last_activity, 3), r.direction, w.node_of(r.hop))
                                        for r in o.relay_from_to.values())),
                           tuple(sorted((w.by_key.get(p.public_key.key_to_bin(), "?"), tuple(sorted(f)))
                                        for p, f in o.candidates.items())),
                           len(o.request_cache._identifiers)))  # noqa: SLF001
        timers = tuple(sorted(round(h._when - w.loop.time(), 3) for h in w.loop._scheduled if not h._cancelled))  # noqa: SLF001
        queue = tuple((labels.get(p[:22], "other"), tuple(a)) for a, p in tep.send_queue)
        qsum = (len(queue), tuple(sorted(set(queue))))
        return (settings, tep.tunnel_community is tc, tep.tunnel_community is None, tep.hops, qsum, tuple(circuits),
                tuple(remote), timers, len(w.inflight), w.ref.anon_asked)

    # -- oracle -----------------------------------------------------------------------------------------
    def _check(self, w: C07World, hist, ev, obs) -> list:  # noqa: ANN001
        v: list = []
        ref = w.ref
        a_prefix, p_prefix = w.anon.get_prefix(), w.plain.get_prefix()
        asked = w.asked_before if ev[0] != "toggle" else False   # nothing is sent by the toggle itself
        ctx = w.ctx_before
        raw = [dg for dg in w.wire_log[w.wire_mark:] if dg.sender is w.raw]

        # 1. the raw socket of N
        plain_seen: dict[bytes, int] = {}
        for dg in raw:
            pre = dg.data[:22]
            if pre == a_prefix:
                if w.asked_before and ref.anon_asked:
                    v.append((f"raw-leak|{ctx}|via:{ev[0]}", f"N's own socket sent a datagram of the anonymized overlay to "
                              f"{dg.dst} ({len(dg.data)} bytes, known packet: {dg.data in ref.anon_packets}) while the "
                              f"overlay asks for anonymity; situation before the event: {ctx}; event {ev!r}"))
                else:
                    ref.fates["raw_while_not_anonymous"] += 1
            elif pre == p_prefix:
                plain_seen[dg.data] = plain_seen.get(dg.data, 0) + 1
                if dg.data not in ref.plain_packets:
                    v.append((f"plain-altered|{ctx}", f"raw datagram with the plain overlay's prefix that the overlay "
                              f"never produced ({len(dg.data)} bytes to {dg.dst}); event {ev!r}"))
                elif tuple(dg.dst) != tuple(DEST_PLAIN):
                    v.append((f"plain-misrouted|{ctx}", f"plain overlay datagram sent to {dg.dst}, asked {DEST_PLAIN}"))
        del asked
        # 4. plain overlay unaffected
        for p in w.plain_now:
            n = plain_seen.get(p, 0)
            if n != 1:
                where = []
                if any(c["data"] == p for c in w.calls):
                    where.append("handed to send_data")
                if any(q == p for _, q in w.tep.send_queue):
                    where.append("sitting in the hold queue")
                v.append((f"plain-not-raw|{ctx}|seen:{min(n, 2)}", f"the plain overlay's datagram left N's raw socket {n} "
                          f"times (expected exactly once, byte-identical){'; it was ' + ' and '.join(where) if where else ''}"
                          f"; situation {ctx}; event {ev!r}"))
            else:
                ref.fates["plain_raw"] += 1

        # 2. tunnel data
        for c in w.calls:
            pre = c["data"][:22]
            if pre == p_prefix:
                v.append((f"plain-tunnelled|{ctx}", f"send_data was called with a datagram of the plain overlay; {ev!r}"))
                continue
            if pre != a_prefix:
                continue
            cv = c["circuit"]
            why = None
            if cv is None:
                why = "unknown-circuit"
            elif cv["state"] != CIRCUIT_STATE_READY:
                why = f"circuit-{cv['state'].lower()}"
            elif cv["goal_hops"] != c["configured_hops"] or cv["hops"] != c["configured_hops"]:
                why = "wrong-length"
            elif PEER_FLAG_EXIT_IPV8 not in cv["exit_flags"] or PEER_FLAG_EXIT_IPV8 not in cv["exit_true_flags"]:
                why = "exit-not-ipv8"
            elif c["target"] != c["first_hop"]:
                why = "not-sent-to-first-hop"
            elif c["data"] not in ref.anon_packets:
                why = "bytes-altered"
            elif c["dest"] != tuple(DEST_ANON):
                why = "destination-altered"
            if why:
                v.append((f"tunnel-data:{why}|{ctx}", f"send_data for a datagram of the anonymized overlay named circuit "
                          f"{cv} (configured length {c['configured_hops']}, target {c['target']}, dest {c['dest']}): {why}; "
                          f"situation before the event: {ctx}; event {ev!r}"))
            else:
                ref.fates["tunnelled"] += 1

        # 3. the hold queue
        if w.max_queue > QUEUE_BOUND or len(w.tep.send_queue) > QUEUE_BOUND:
            v.append((f"queue-unbounded|{ctx}", f"hold queue reached {max(w.max_queue, len(w.tep.send_queue))} entries "
                      f"(bound {QUEUE_BOUND}); event {ev!r}"))
        foreign = [q for _, q in w.tep.send_queue if q[:22] != a_prefix]
        if foreign:
            v.append((f"queue-foreign|{ctx}", f"{len(foreign)} queued datagrams do not belong to the anonymized overlay "
                      f"(first prefix {foreign[0][:22].hex()}); event {ev!r}"))
        ref.fates["queued_now"] = len(w.tep.send_queue)
        if w.loop.exceptions:
            e = w.loop.exceptions[0]
            v.append((f"loop-exception|{type(e.get('exception')).__name__}", f"asyncio exception handler saw "
                      f"{e.get('message')!r} {e.get('exception')!r} after {ev!r}"))
        return v


# ------------------------------------------------------------------------------------------------
# configurations
# ------------------------------------------------------------------------------------------------

FULL = [("sa",), ("sp",), ("burst",),
        ("build", "X", 1), ("build", "X", 2), ("build", "Y", 1), ("build", "Y", 2),
        ("rm", "first"), ("rm", "last"), ("tick",),
        ("detach",), ("attach", 1), ("attach", 2), ("toggle",)]


def run(ctx: core.Ctx) -> core.Report:
    raise NotImplementedError


def replay(ctx: core.Ctx, data: dict) -> list:
    raise NotImplementedError
