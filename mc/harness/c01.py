"""
C01 - Signed handlers run only for authentic, untampered datagrams.

For every shipped overlay class and every message id the committed authentication table marks as signed, a valid
datagram is produced by a real sender overlay and *every* mutation of a finite family is delivered through
Endpoint.notify_listeners of a real receiver.  The inner (user) handler is observed through the decorator's closure
cell; entry is legal iff an independent check with the Rust primitive says the datagram is authentic.
"""
from __future__ import annotations

import hashlib
import json
import os
import pickle
import struct

from ipv8.messaging.payload_headers import GlobalTimeDistributionPayload
from ipv8_rust_tunnels import PublicKey as RustPublicKey

from .. import core, fixtures, overlays, simnet

LEVEL = "exploration"
TABLE_PATH = os.path.join(core.VERIF, "fixtures", "c01_auth_table.json")

# ---------------------------------------------------------------------------------------------------------------------
# independent authenticity check (trusted base: ipv8_rust_tunnels.PublicKey.verify)
# ---------------------------------------------------------------------------------------------------------------------


def ref_parse(data: bytes):  # noqa: ANN201
    """(key_bin, signature_ok) according to the documented layout prefix(22) id(1) varlenH-key body signature."""
    if len(data) < 25:
        return None, False
    (klen,) = struct.unpack_from(">H", data, 23)
    key = data[25:25 + klen]
    if len(key) != klen:
        return None, False
    try:
        pk = RustPublicKey(key)
        siglen = pk.get_signature_length()
    except Exception:  # noqa: BLE001
        return key, False
    if len(data) < 25 + klen + siglen:
        return key, False
    try:
        ok = bool(pk.verify(data[-siglen:], data[:-siglen]))
    except Exception:  # noqa: BLE001
        ok = False
    return key, ok


# ---------------------------------------------------------------------------------------------------------------------
# recorder in the decorator's closure cell
# ---------------------------------------------------------------------------------------------------------------------

ENTRIES: list = []   # (overlay instance, handler name, peer key bin or None, kind)


class _Recorder:
    def __init__(self, orig, name: str, kind: str) -> None:  # noqa: ANN001
        self.orig, self.name, self.kind = orig, name, kind
        self.__name__ = getattr(orig, "__name__", name)

    def __call__(self, overlay, first, *args, **kwargs):  # noqa: ANN001, ANN002, ANN003, ANN204
        key = None
        if self.kind in overlays.SIGNED_WRAPPERS:
            try:
                key = first.public_key.key_to_bin()
            except Exception:  # noqa: BLE001
                key = b"?"
        ENTRIES.append((overlay, self.name, key, self.kind))
        return self.orig(overlay, first, *args, **kwargs)


def guard_of(handler):  # noqa: ANN001, ANN201
    """(kind, function holding the closure) of the first lazy_wrapper* in the __wrapped__ chain, else (raw, None)."""
    fn = getattr(handler, "__func__", handler)
    for f in overlays.unwrap_chain(fn):
        k = overlays.wrapper_kind(f)
        if not k.startswith("raw:"):
            return k, f
    return overlays.wrapper_kind(fn), None


def install_recorder(handler) -> str:  # noqa: ANN001
    kind, f = guard_of(handler)
    if f is None:
        return kind
    cell = overlays.func_cell(f)
    if cell is None:
        return kind + ":no-cell"
    cur = cell.cell_contents
    if not isinstance(cur, _Recorder):
        cell.cell_contents = _Recorder(cur, getattr(cur, "__name__", "?"), kind)
    return kind


def tree_table() -> dict:
    """overlay name -> {msg id: kind} as found on the tree under test."""
    out = {}
    w = simnet.World("c01-table")
    try:
        for name in overlays.OVERLAYS:
            node = w.add_node(name, 0)
            o = overlays.make(node, name)
            row = {}
            for mid, h in enumerate(o.decode_map):
                if h is None or getattr(h, "__name__", "") == "on_deprecated_message":
                    continue
                kind, f = guard_of(h)
                if kind in overlays.SIGNED_WRAPPERS:
                    row[str(mid)] = "signed"
                elif kind in overlays.UNSIGNED_WRAPPERS:
                    row[str(mid)] = "unsigned"
                else:
                    row[str(mid)] = kind
            out[name] = row
    finally:
        w.close()
    return out


def load_table() -> dict:
    with open(TABLE_PATH) as f:
        return json.load(f)["table"]


# ---------------------------------------------------------------------------------------------------------------------
# valid datagrams
# ---------------------------------------------------------------------------------------------------------------------

def default_value(fmt):  # noqa: ANN001, ANN201
    if isinstance(fmt, list):
        return []
    if isinstance(fmt, type):
        return instance_of(fmt)
    if fmt in ("?",):
        return True
    if fmt in ("B", "H", "I", "Q", "b", "h", "i", "q", "L", "l"):
        return 1
    if fmt in ("c",):
        return b"x"
    if fmt in ("varlenB", "varlenH", "varlenI", "raw", "varlenBx2", "varlenHx20"):
        return b"ab" * 10 if fmt != "varlenHx20" else b"c" * 20
    if fmt in ("varlenHutf8", "varlenIutf8", "varlenButf8"):
        return "name"
    if fmt.endswith("s") and fmt[:-1].isdigit():
        return b"s" * int(fmt[:-1])
    if fmt in ("ipv4", "address", "ip_address"):
        from ipv8.messaging.interfaces.udp.endpoint import UDPv4Address
        return UDPv4Address("9.8.7.6", 5432)
    if fmt == "bits":
        return [1, 0, 1, 0, 1, 0, 1, 0]
    if fmt == "flags":
        return [1]
    if fmt in ("node-list", "varlenH-list", "payload-list"):
        return []
    if fmt == "payload":
        return None
    msg = f"no default for format {fmt!r}"
    raise KeyError(msg)


def instance_of(cls):  # noqa: ANN001, ANN201
    if cls is GlobalTimeDistributionPayload:
        return GlobalTimeDistributionPayload(1)
    from ipv8.messaging.interfaces.udp.endpoint import UDPv4Address
    from ipv8.peerdiscovery.payload import SimilarityRequestPayload, SimilarityResponsePayload
    addr = UDPv4Address("9.8.7.6", 5432)
    if cls is SimilarityRequestPayload:
        return cls(1, addr, addr, "unknown", [b"x" * 20])
    if cls is SimilarityResponsePayload:
        return cls(1, [b"x" * 20], [(b"y" * 20, 1)])
    fl = getattr(cls, "format_list", None)
    if fl is not None:
        return cls(*[default_value(f) for f in fl])
    msg = f"cannot instantiate {cls.__name__}"
    raise KeyError(msg)


BASE_IDS = {246: ("intro-request", False), 234: ("intro-request", True), 245: ("intro-response", False),
            233: ("intro-response", True), 249: ("puncture", False), 231: ("puncture", True)}


def valid_datagram(sender, receiver, mid: int) -> bytes:  # noqa: ANN001
    """A valid signed datagram of message id `mid` from sender overlay to receiver overlay."""
    raddr = receiver.my_peer.address
    if mid in BASE_IDS:
        what, new_style = BASE_IDS[mid]
        if what == "intro-request":
            return sender.create_introduction_request(raddr, new_style=new_style)
        if what == "intro-response":
            return sender.create_introduction_response(raddr, raddr, 7, new_style=new_style)
        return sender.create_puncture(raddr, raddr, 7, new_style=new_style)
    h = receiver.decode_map[mid]
    _, f = guard_of(h)
    classes = overlays.payload_classes(f)
    return sender.ezr_pack(mid, *[instance_of(c) for c in classes])


# ---------------------------------------------------------------------------------------------------------------------
# mutations
# ---------------------------------------------------------------------------------------------------------------------

def mutations(d: bytes, ctxt: dict, thorough: bool):  # noqa: ANN201
    """Yield (label, bytes). ctxt: sender private keys, other prefixes, a second valid datagram of the same kind."""
    n = len(d)
    (klen,) = struct.unpack_from(">H", d, 23)
    key_end = 25 + klen
    siglen = ctxt["siglen"]
    sig_start = n - siglen
    for pos in range(n):
        in_payload = key_end <= pos < sig_start
        bits = range(8) if (thorough or not in_payload) else (pos % 8,)
        region = "prefix" if pos < 22 else "msgid" if pos == 22 else "auth" if pos < key_end else \
            "payload" if pos < sig_start else "signature"
        for b in bits:
            yield f"bitflip:{region}", d[:pos] + bytes([d[pos] ^ (1 << b)]) + d[pos + 1:]
    for cut in range(n):
        yield "truncate", d[:cut]
    for extra in (1, 2, siglen):
        yield "extend", d + b"\x00" * extra
        yield "extend", d + d[-extra:]
    # key substitution
    k2, k3 = ctxt["k2"], ctxt["k3"]
    pub2 = k2.pub().key_to_bin()
    if len(pub2) == klen:
        body = d[:25] + pub2 + d[key_end:sig_start]
        yield "key-substituted:signature-kept", body + d[sig_start:]
        yield "key-substituted:resigned-by-that-key", body + k2.signature(body)       # authentic for k2
        yield "key-substituted:resigned-by-third-key", body + k3.signature(body)
    rpub = ctxt.get("receiver_pub")
    if rpub is not None and len(rpub) == klen:
        # the receiver's OWN key named as the signer (the sender does not hold its private half)
        body = d[:25] + rpub + d[key_end:sig_start]
        yield "key-substituted:receivers-own-key:signature-kept", body + d[sig_start:]
        yield "key-substituted:receivers-own-key:resigned-by-third-key", body + k3.signature(body)
    body2 = d[:23] + struct.pack(">H", len(pub2)) + pub2 + d[key_end:sig_start]
    yield "key-substituted:other-length:signature-kept", body2 + d[sig_start:]
    yield "signed-by-other-key:key-kept", d[:sig_start] + k2.signature(d[:sig_start])[:siglen].ljust(siglen, b"\0")
    other = ctxt.get("other")
    if other is not None and other != d:
        o_sig_start = len(other) - siglen
        yield "signature-of-other-datagram", d[:sig_start] + other[o_sig_start:]
        yield "payload-splice", d[:key_end] + other[key_end:o_sig_start] + d[sig_start:]
    for p in ctxt["other_prefixes"]:
        yield "prefix-swap", p + d[22:]
    for mid in range(256):
        if mid != d[22]:
            yield "msgid-swap", d[:22] + bytes([mid]) + d[23:]
    yield "empty-signature-region", d[:sig_start]
    yield "zero-signature", d[:sig_start] + b"\x00" * siglen


# ---------------------------------------------------------------------------------------------------------------------
# one work item = (overlay name, msg id, sender curve)
# ---------------------------------------------------------------------------------------------------------------------

_THOROUGH = False
_SEED = 0


def _world(name: str, curve: str, seed: int, s_key=None):  # noqa: ANN001, ANN202
    w = simnet.World(("c01", name, curve, seed))
    ks = fixtures.rotate(seed, 4, curve)
    s_node = w.add_node("S", ks[0], curve=curve)
    if s_key is not None:
        from ipv8.peer import Peer  # noqa: PLC0415
        s_node.my_peer = Peer(s_key, s_node.address)
    r_node = w.add_node("R", fixtures.rotate(seed + 5, 1)[0])
    s_ov = overlays.make(s_node, name)
    r_ov = overlays.make(r_node, name)
    for h in r_ov.decode_map:
        if h is not None:
            install_recorder(h)
    return w, s_node, r_node, s_ov, r_ov, ks


COLD_HISTORIES = ("control", "key-bitflips", "key-halves", "other-mutations", "valid-poison-valid")


def _cold_key(item: tuple, seed: int):  # noqa: ANN202
    """A sender key that only ever exists inside the forked child that calls this."""
    from ipv8.keyvault.crypto import default_eccrypto  # noqa: PLC0415
    if item[2] == "curve25519":
        tag = repr((item, seed)).encode()
        return default_eccrypto.key_from_private_bin(b"LibNaCLSK:" + hashlib.sha256(b"crypt" + tag).digest()
                                                     + hashlib.sha256(b"sign" + tag).digest())
    return default_eccrypto.generate_key(item[2])    # legacy curves: fresh per run (no seed -> key constructor)


def _cold_datagrams(item: tuple) -> tuple:
    """Two valid datagrams of a sender living in ANOTHER process (forked child, exits at once): the calling process has
    never parsed, cached or verified anything for that sender's key when the first datagram naming it arrives - as on
    a real node. Process-wide state keyed by key material (parse caches, interned peers) is cold for it."""
    rfd, wfd = os.pipe()
    pid = os.fork()
    if pid == 0:
        code = 1
        try:
            os.close(rfd)
            name, mid, curve = item[:3]
            w, s_node, r_node, s_ov, r_ov, ks = _world(name, curve, _SEED, s_key=_cold_key(item, _SEED))
            pair = (valid_datagram(s_ov, r_ov, mid), valid_datagram(s_ov, r_ov, mid))
            with os.fdopen(wfd, "wb") as f:
                pickle.dump(pair, f)
            code = 0
        finally:
            os._exit(code)
    os.close(wfd)
    with os.fdopen(rfd, "rb") as f:
        raw = f.read()
    os.waitpid(pid, 0)
    return pickle.loads(raw)  # noqa: S301


def cold_history(hist: str, d: bytes, d_other: bytes, ctxt: dict):  # noqa: ANN201
    """Datagrams delivered, in order, to a receiver for which the sender's key is cold; the last one is valid."""
    n = len(d)
    (klen,) = struct.unpack_from(">H", d, 23)
    key_end = 25 + klen
    siglen = ctxt["siglen"]
    sig_start = n - siglen
    key = d[25:key_end]
    k2 = ctxt["k2"]
    pub2 = k2.pub().key_to_bin()

    def halves():  # noqa: ANN202
        if len(pub2) != klen:
            return
        cuts = sorted({klen // 2, 42} & set(range(1, klen)))
        for cut in cuts:
            for lab, kp in ((f"theirs[:{cut}]+victims", pub2[:cut] + key[cut:]),
                            (f"victims[:{cut}]+theirs", key[:cut] + pub2[cut:])):
                if kp in (key, pub2):
                    continue
                body = d[:25] + kp + d[key_end:sig_start]
                yield f"poison:key-halves:{lab}:signature-kept", body + d[sig_start:]
                yield f"poison:key-halves:{lab}:zero-signature", body + b"\x00" * siglen
                sig = k2.signature(body)
                yield f"poison:key-halves:{lab}:signed-by-them", body + sig   # may be authentic for that key: judged as such

    if hist == "key-bitflips":
        for pos in range(23, key_end):
            for b in range(8):
                yield "poison:bitflip:auth", d[:pos] + bytes([d[pos] ^ (1 << b)]) + d[pos + 1:]
    elif hist == "key-halves":
        yield from halves()
    elif hist == "other-mutations":
        for cut in range(23, n):
            yield "poison:truncate", d[:cut]
        for pos in range(sig_start, n):
            yield "poison:bitflip:signature", d[:pos] + bytes([d[pos] ^ (1 << (pos % 8))]) + d[pos + 1:]
        yield "poison:zero-signature", d[:sig_start] + b"\x00" * siglen
        yield "poison:signed-by-other-key:key-kept", d[:sig_start] + k2.signature(d[:sig_start])[:siglen].ljust(siglen, b"\0")
    elif hist == "valid-poison-valid":
        yield "valid|cold", d
        yield from halves()
        yield f"valid|after:{hist}", d_other
        return
    yield f"valid|after:{hist}", d


def check_item(item: tuple) -> dict:
    name, mid, curve = item[:3]
    hist = item[3] if len(item) > 3 else None
    table = load_table()
    cold = _cold_datagrams(item) if hist is not None else None      # fork before this process has a world of its own
    w, s_node, r_node, s_ov, r_ov, ks = _world(name, curve, _SEED)
    res = {"item": item, "evaluations": 0, "legal_entries": 0, "classes": {}, "violations": [], "valid_entered": False}
    delivered: list = []
    try:
        kind = table[name][str(mid)]
        if cold is not None:
            d, d_other = cold
        else:
            d = valid_datagram(s_ov, r_ov, mid)
            d_other = valid_datagram(s_ov, r_ov, mid)     # same kind, later global time => different payload/signature
        key, ok = ref_parse(d)
        if not ok or (key != s_node.my_peer.public_key.key_to_bin()) != (cold is not None):
            res["violations"].append(("harness:valid-datagram-rejected-by-reference", f"{item}", None))
            return res
        src = s_node.address
        handler_name = getattr(r_ov.decode_map[mid], "__name__", "?")
        ctxt = {"siglen": RustPublicKey(key).get_signature_length(),
                "k2": fixtures.private_key(ks[1], curve), "k3": fixtures.private_key(ks[2], curve), "other": d_other,
                "receiver_pub": r_node.my_peer.public_key.key_to_bin(),
                "other_prefixes": sorted({bytes([0, 2]) + cls.community_id for cls, _ in overlays.OVERLAYS.values()
                                          if getattr(cls, "community_id", None)} - {d[:22]})}

        control: dict = {}

        def rp(label: str, data: bytes) -> dict:
            out = {"item": item, "label": label, "data": data.hex(), "seed": _SEED}
            if hist is not None:
                out["history"] = list(delivered)
            return out

        def deliver(label: str, data: bytes) -> None:
            res["evaluations"] += 1
            res["classes"][label] = res["classes"].get(label, 0) + 1
            if hist is not None:
                delivered.append(data.hex())
            del ENTRIES[:]
            before = {p.public_key.key_to_bin() for p in r_ov.network.verified_peers}
            svc_before = {k: frozenset(v) for k, v in r_ov.network.services_per_peer.items()}
            sent_before = r_node.endpoint.sent_count
            exc = None
            try:
                r_node.endpoint.notify_listeners((src, data))
                w.loop.settle()
            except Exception as e:  # noqa: BLE001
                exc = e   # C03 judges exceptions; here they only matter if an entry happened as well
            dkey, dok = ref_parse(data)
            routed_here = data[:22] == r_ov.get_prefix() and len(data) > 22
            target_kind = table[name].get(str(data[22])) if routed_here else None
            authentic = dok and routed_here
            for ov, hname, pkey, k in ENTRIES:
                if k not in overlays.SIGNED_WRAPPERS:
                    continue
                if not authentic:
                    res["violations"].append((f"unauthentic-entry:{name}:{hname}:{label}",
                                              f"{name}.{hname} entered for a datagram that is not authentic "
                                              f"({label}); exception={exc!r}",
                                              rp(label, data)))
                elif pkey != dkey:
                    res["violations"].append((f"wrong-identity:{name}:{hname}:{label}",
                                              f"{name}.{hname} got peer {pkey.hex()[:24]}.. but the datagram carries "
                                              f"{dkey.hex()[:24]}..", rp(label, data)))
                else:
                    res["legal_entries"] += 1
            after = {p.public_key.key_to_bin() for p in r_ov.network.verified_peers}
            grown = after - before
            if grown and target_kind in ("signed", "self-verifying") and not (authentic and grown <= {dkey}):
                res["violations"].append((f"verified-peer-without-authentication:{name}:{label}",
                                          f"{name}: verified_peers grew by {[g.hex()[:24] for g in grown]} after a "
                                          f"datagram ({label}) whose authentic key is {dkey.hex()[:24] if authentic and dkey else None}",
                                          rp(label, data)))
            # whatever a datagram teaches the graph may only be booked under the key that signed it
            svc_after = {k: frozenset(v) for k, v in r_ov.network.services_per_peer.items()}
            credited = {k for k in set(svc_before) | set(svc_after) if svc_before.get(k) != svc_after.get(k)
                        and svc_after.get(k)}
            foreign = credited - ({dkey} if authentic else set())
            if foreign and target_kind in ("signed", "self-verifying"):
                res["violations"].append((f"services-credited-to-other-key:{name}:{label}",
                                          f"{name}: a datagram ({label}) whose authentic key is "
                                          f"{dkey.hex()[:24] if authentic and dkey else None} changed the advertised services "
                                          f"of {[k.hex()[:24] for k in foreign]}", rp(label, data)))
            if (authentic and target_kind == "self-verifying" and control.get("signer_verified") and exc is None
                    and dkey not in after and dkey != r_ov.my_peer.public_key.key_to_bin()):
                res["violations"].append((f"authentic-signer-not-verified:{name}:{label}",
                                          f"{name}: the valid datagram of this kind verifies its signer, but after an "
                                          f"authentic one ({label}) signed by {dkey.hex()[:24]} that key is not a verified "
                                          f"peer", rp(label, data)))
            if label == "valid":
                control["signer_verified"] = authentic and dkey in after
            if target_kind == "self-verifying" and not authentic and r_node.endpoint.sent_count != sent_before:
                res["violations"].append((f"response-to-unauthentic:{name}:{label}",
                                          f"{name}: self-verifying handler for id {data[22]} answered a datagram that is "
                                          f"not authentic ({label})", rp(label, data)))
            # keep the receiver's state small: forget what valid variants taught it
            if grown:
                for p in list(r_ov.network.verified_peers):
                    if p.public_key.key_to_bin() in grown:
                        r_ov.network.remove_peer(p)
            del w.inflight[:]

        if hist is not None:
            # cold-key histories: whatever unauthentic traffic named (parts of) this key before, the first valid
            # datagram of its owner must be attributed to exactly the key it carries
            for label, m in cold_history(hist, d, d_other, ctxt):
                before_legal = res["legal_entries"]
                deliver(label, m)
                if label.startswith("valid") and kind == "signed" and res["legal_entries"] == before_legal \
                        and not res["violations"]:
                    res["violations"].append((f"valid-not-handled-after-history:{name}:{hist}",
                                              f"{name} id {mid}: the valid datagram ({label}) did not reach its handler "
                                              f"after the history {hist}", rp(label, m)))
            res["valid_entered"] = True
            res["sample"] = {"overlay": name, "msg_id": mid, "history": hist, "curve": curve, "delivered": len(delivered)}
            return res
        # the valid datagram itself must reach the handler (otherwise the whole item is vacuous)
        deliver("valid", d)
        if kind == "signed":
            res["valid_entered"] = res["legal_entries"] >= 1
        else:
            res["valid_entered"] = True
        for label, m in mutations(d, ctxt, _THOROUGH):
            deliver(label, m)
        # second pass: the sender's address already belongs to a *verified* peer (the genuine sender). A datagram that is
        # authentic for ANOTHER key arriving from that address must be attributed to the key it carries, not to the
        # peer known at the address (any lookup by address in the attribution path shows up as wrong-identity).
        from ipv8.peer import Peer  # noqa: PLC0415
        genuine = Peer(s_node.my_peer.public_key.key_to_bin(), src)

        def deliver_known(label: str, data: bytes) -> None:
            r_ov.network.add_verified_peer(genuine)
            r_ov.network.get_verified_by_address(src)      # warm the reverse-address cache as normal traffic does
            deliver(label, data)

        from ipv8.messaging.interfaces.udp.endpoint import UDPv4Address  # noqa: PLC0415
        elsewhere = UDPv4Address("77.77.77.77", 7777)

        def deliver_from_elsewhere(label: str, data: bytes) -> None:
            """An unauthentic datagram claiming the verified sender's key, sent from another address: the verified peer's
            address table must not change (nobody may redirect a verified peer by sending garbage in its name)."""
            nonlocal src
            r_ov.network.add_verified_peer(genuine)
            known = r_ov.network.get_verified_by_public_key_bin(genuine.public_key.key_to_bin())
            before_addrs = dict(known.addresses) if known is not None else None
            real_src, src = src, elsewhere
            try:
                deliver(label, data)
            finally:
                src = real_src
            _, dok = ref_parse(data)
            known2 = r_ov.network.get_verified_by_public_key_bin(genuine.public_key.key_to_bin())
            if not dok and known is not None and known2 is known and dict(known.addresses) != before_addrs:
                res["violations"].append((f"unauthentic-datagram-rebinds-address:{name}:{label.split('|')[0]}",
                                          f"{name}: a datagram that is not authentic ({label}) from {elsewhere} changed the "
                                          f"addresses of the verified peer it names: {before_addrs} -> {dict(known.addresses)}",
                                          rp(label, data)))
            if known is not None:
                known.addresses.clear()
                known.addresses.update(before_addrs)

        deliver_known("valid|sender-verified", d)
        for label, m in mutations(d, ctxt, False):
            if label.startswith(("zero-signature", "signed-by-other-key", "signature-of-other", "bitflip:signature",
                                 "bitflip:payload", "empty-signature")):
                deliver_from_elsewhere(label + "|from-elsewhere", m)
        for label, m in mutations(d, ctxt, False):
            if label.startswith(("key-substituted", "signed-by-other-key", "signature-of-other", "payload-splice")):
                deliver_known(label + "|sender-verified", m)
        # third pass: a fault inside the handler of the genuine datagram (every send of the receiver fails with
        # OSError while it is handled, as a closed interface or an unreachable network does) must not change what the
        # next datagrams need in order to be accepted
        def deliver_after_fault(label: str, data: bytes) -> None:
            real_send = r_node.endpoint.send

            def failing_send(*a, **k) -> None:  # noqa: ANN002, ANN003, ARG001
                raise OSError(101, "Network is unreachable")
            r_node.endpoint.send = failing_send
            before = {p.public_key.key_to_bin() for p in r_ov.network.verified_peers}
            try:
                r_node.endpoint.notify_listeners((src, d))
                w.loop.settle()
            except Exception:  # noqa: BLE001, S110
                pass
            finally:
                r_node.endpoint.send = real_send
            del w.loop.exceptions[:]
            for p in list(r_ov.network.verified_peers):
                if p.public_key.key_to_bin() not in before:
                    r_ov.network.remove_peer(p)
            del w.inflight[:]
            deliver(label, data)

        for label, m in mutations(d, ctxt, False):
            if label.startswith(("zero-signature", "signed-by-other-key", "key-substituted", "payload-splice")):
                deliver_after_fault(label + "|after-send-failure", m)
        # fourth pass: the genuine datagram and a forgery are read from the socket back to back, both handled in the
        # same loop iteration (nothing the first one scheduled has run when the second one arrives)
        def deliver_same_iteration(label: str, data: bytes) -> None:
            before = {p.public_key.key_to_bin() for p in r_ov.network.verified_peers}
            try:
                r_node.endpoint.notify_listeners((src, d))
            except Exception:  # noqa: BLE001, S110
                pass
            deliver(label, data)
            for p in list(r_ov.network.verified_peers):
                if p.public_key.key_to_bin() not in before:
                    r_ov.network.remove_peer(p)

        for label, m in mutations(d, ctxt, False):
            if label.startswith(("bitflip:payload", "payload-splice", "key-substituted", "signature-of-other",
                                 "msgid-swap", "prefix")):
                deliver_same_iteration(label + "|same-iteration-as-valid", m)
        res["sample"] = {"overlay": name, "msg_id": mid, "handler": handler_name, "curve": curve, "len": len(d),
                         "valid_prefix_hex": d[:40].hex()}
        return res
    finally:
        w.close()


def check_replay_into_others(seed: int) -> dict:
    """Every valid signed datagram, verbatim and with each other overlay's prefix, into a node hosting all overlays."""
    res = {"evaluations": 0, "violations": [], "legal_entries": 0}
    table = load_table()
    names = ["Community", "DiscoveryCommunity", "DHTDiscoveryCommunity", "HiddenTunnelCommunity", "PexCommunity",
             "IdentityCommunity", "AttestationCommunity"]
    w = simnet.World(("c01-multi", seed))
    try:
        ks = fixtures.rotate(seed, 2)
        s_node = w.add_node("S", ks[0])
        m_node = w.add_node("M", ks[1])
        s_ovs = {n: overlays.make(s_node, n) for n in names}
        m_ovs = {n: overlays.make(m_node, n) for n in names}
        for o in m_ovs.values():
            for h in o.decode_map:
                if h is not None:
                    install_recorder(h)
        by_prefix = {o.get_prefix(): n for n, o in m_ovs.items()}
        for n in names:
            for mid_s, kind in table[n].items():
                if kind != "signed":
                    continue
                mid = int(mid_s)
                d = valid_datagram(s_ovs[n], m_ovs[n], mid)
                variants = [("verbatim", d)] + [(f"prefix-of:{by_prefix[p]}", p + d[22:]) for p in by_prefix
                                                if p != d[:22]]
                for label, data in variants:
                    del ENTRIES[:]
                    res["evaluations"] += 1
                    try:
                        m_node.endpoint.notify_listeners((s_node.address, data))
                        w.loop.settle()
                    except Exception:  # noqa: BLE001, S110
                        pass
                    dkey, dok = ref_parse(data)
                    for ov, hname, pkey, k in ENTRIES:
                        if k not in overlays.SIGNED_WRAPPERS:
                            continue
                        if not dok or ov.get_prefix() != data[:22] or pkey != dkey:
                            res["violations"].append((f"cross-overlay-entry:{n}:{hname}:{label.split(':')[0]}",
                                                      f"datagram of {n} id {mid} ({label}) entered "
                                                      f"{type(ov).__name__}.{hname}", {"replay-multi": True, "seed": seed}))
                        else:
                            res["legal_entries"] += 1
                    del w.inflight[:]
    finally:
        w.close()
    return res


def check_answer_attribution(seed: int) -> dict:
    """
    "Nobody can make a node attribute a message - and thereby a verified-peer entry - to a key whose private half they
    do not hold."  The DHT overlays attribute ANSWERS: N asks a node it only knows from somebody's node list - the key V
    of a victim at the address of an impostor M - for a ping / find / store; M answers the request, authentically, with
    its OWN key.  Then N's maintenance strategy (PingChurn) runs.  Afterwards N must not list V as a verified peer, and
    the request must not have been completed as "V answered".  Control: the answer really comes from V's key.
    """
    from ipv8.dht.churn import PingChurn  # noqa: PLC0415
    from ipv8.dht.routing import Node  # noqa: PLC0415
    out = {"evaluations": 0, "violations": []}
    for oname in ("DHTCommunity", "DHTDiscoveryCommunity"):
        for kind in ("ping", "find"):
            for who in ("impostor", "genuine"):
                w = simnet.World(("c01-attr", oname, kind, who, seed))
                try:
                    ks = fixtures.rotate(seed, 3)
                    n, m, v = w.add_node("N", ks[0]), w.add_node("M", ks[1]), w.add_node("V", ks[2])
                    on, om, ov_ = (overlays.make(x, oname) for x in (n, m, v))
                    responder = m if who == "impostor" else v
                    v_key = v.my_peer.public_key
                    claimed = Node(v_key, responder.address)          # "V lives at <responder's address>", says a node list
                    fut = n.run(on.ping, claimed) if kind == "ping" else \
                        n.run(on._send_find_request, claimed, v.my_peer.mid, False)  # noqa: SLF001
                    w.flush()
                    out["evaluations"] += 1
                    rt = on.get_routing_table(claimed)
                    if fut.done() and not fut.cancelled() and fut.exception() is None:
                        rt.add(claimed)                                # what _contact_node does with an answered node
                    n.run(PingChurn(on, ping_interval=0.0).take_step)
                    w.flush()
                    listed = on.network.get_verified_by_public_key_bin(v_key.key_to_bin())
                    answered = fut.done() and not fut.cancelled() and fut.exception() is None
                    if who == "impostor" and (listed is not None or answered):
                        out["violations"].append((
                            f"answer-attributed-to-claimed-key:{kind}",
                            f"{oname}: N asked the node (key of V, address of M) for a {kind}; M answered with its own key; "
                            f"N {'completed the request as answered by V' if answered else 'did not complete the request'}"
                            f"{' and, after one PingChurn step, lists V as a verified peer at ' + str(listed.address) if listed is not None else ''}"
                            " - V's key never signed anything",
                            {"attribution": True, "seed": seed}))
                    if who == "genuine" and not answered:
                        out["violations"].append((f"harness:genuine-answer-not-accepted:{kind}",
                                                  f"{oname}: the control ({kind} answered by V itself) did not complete",
                                                  {"attribution": True, "seed": seed}))
                finally:
                    w.close()
    seen, uniq = set(), []
    for key, what, rp in out["violations"]:
        if key not in seen:
            seen.add(key)
            uniq.append((key, what, rp))
    out["violations"] = uniq
    return out


def _work(chunk: list) -> list:
    return [check_item(it) for it in chunk]


def run(ctx: core.Ctx) -> core.Report:
    global _THOROUGH, _SEED
    _THOROUGH, _SEED = ctx.thorough, ctx.seed % 12
    violations: list = []
    table = load_table()
    # 1. the tree's decorators must agree with the committed authentication table
    found = tree_table()
    for name, row in table.items():
        for mid, kind in row.items():
            got = found.get(name, {}).get(mid)
            want_ok = (got == kind) or (kind == "self-verifying" and got and got.startswith("raw:")) \
                or (kind == "cell" and got and got.startswith("raw:"))
            if not want_ok:
                violations.append(core.Violation(f"auth-table:{name}:{mid}", f"{name} registers id {mid} with {got!r} but the "
                                                 f"authentication table says {kind!r}", {"table": True}))
    for name, row in found.items():
        for mid in row:
            if mid not in table.get(name, {}):
                violations.append(core.Violation(f"auth-table:unlisted:{name}:{mid}", f"{name} registers id {mid} "
                                                 f"({row[mid]}) which the authentication table does not list",
                                                 {"table": True}))
    # 2. mutation enumeration
    curves = ["curve25519", "very-low", "low", "medium", "high"] if ctx.thorough else ["curve25519", "very-low"]
    items = []
    for name, row in table.items():
        for mid, kind in row.items():
            if kind in ("signed", "self-verifying"):
                for c in curves:
                    # legacy-curve senders only for one base message and the overlay's own messages
                    if c != "curve25519" and int(mid) in BASE_IDS and not (name == "Community" and int(mid) == 245):
                        continue
                    items.append((name, int(mid), c))
    # cold-key histories (the sender's key has never been seen by this process before the history starts)
    base_items = list(items)
    for name, mid, c in base_items:
        hists = COLD_HISTORIES if c == "curve25519" and (ctx.thorough or mid not in BASE_IDS or name == "Community") \
            else ("control", "key-halves")
        for h in hists:
            items.append((name, mid, c, h))
    results = core.pmap(_work, items, ctx.jobs, chunk=1)
    evals = sum(r["evaluations"] for r in results)
    classes: dict = {}
    legal = 0
    for r in results:
        legal += r["legal_entries"]
        for k, v in r["classes"].items():
            classes[k] = classes.get(k, 0) + v
        for key, what, rp in r["violations"]:
            violations.append(core.Violation(key, what, rp))
        if not r["valid_entered"] and not r["violations"]:
            violations.append(core.Violation(f"harness:valid-datagram-not-handled:{r['item'][0]}:{r['item'][1]}",
                                             f"the valid datagram for {r['item']} did not reach its handler: item vacuous",
                                             None))
    multi = check_replay_into_others(_SEED)
    for key, what, rp in multi["violations"]:
        violations.append(core.Violation(key, what, rp))
    attr = check_answer_attribution(_SEED)
    for key, what, rp in attr["violations"]:
        violations.append(core.Violation(key, what, rp))
    cov = {
        "evaluations": evals + multi["evaluations"] + attr["evaluations"],
        "answer_attribution_cases": attr["evaluations"],
        "distinct_nontrivial": evals - sum(v for k, v in classes.items() if k.startswith("valid")),
        "rule": "one evaluation = one datagram delivered through Endpoint.notify_listeners of a real receiver overlay; "
                "per (overlay class, signed message id, sender curve) the valid datagram plus every mutation: each bit "
                "of prefix/id/auth/signature (and one bit per payload byte in quick, all in thorough), every "
                "truncation, extensions, key substitutions (kept/re-signed/third-key signature), foreign signature, "
                "payload splice, every other overlay prefix, every other message id, zero/absent signature; "
                "distinct_nontrivial = mutated datagrams (all are distinct byte strings; the valid ones are excluded)",
        "samples": [r["sample"] for r in results if "sample" in r][:4],
        "exhaustive": True,
        "items": len(items),
        "cold_key_histories": {"items": len(items) - len(base_items), "histories": list(COLD_HISTORIES),
                               "rule": "the valid datagram is built in a forked child with a key the checking process "
                                       "never parsed; poisons (all key-field bit flips / key halves spliced with another "
                                       "key's / truncations+signature mutations / valid-poison-valid) precede it; the "
                                       "valid datagram must enter with exactly its key"},
        "mutation_classes": classes,
        "legal_entries_observed": legal + multi["legal_entries"],
        "replay_into_other_overlays": multi["evaluations"],
        "curves": curves,
    }
    return core.Report(LEVEL, cov, violations,
                       ["authenticity oracle = ipv8_rust_tunnels.PublicKey.verify called directly (trusted)",
                        "which ids are authenticated is specified by fixtures/c01_auth_table.json",
                        "valid datagrams are produced by the sender overlay's own packing code with default field "
                        "values; handler behaviour after entry is not judged here"])


def replay(ctx: core.Ctx, data) -> list:  # noqa: ANN001
    global _SEED
    if not data:
        return []
    if data.get("table"):
        return [v for v in run(ctx).violations if v.key.startswith("auth-table")]
    _SEED = data.get("seed", 0)
    if data.get("attribution"):
        return [core.Violation(k, w) for k, w, _ in check_answer_attribution(_SEED)["violations"]]
    if data.get("replay-multi"):
        return [core.Violation(k, w) for k, w, _ in check_replay_into_others(_SEED)["violations"]]
    item = tuple(data["item"])
    name, mid, curve = item[:3]
    w, s_node, r_node, s_ov, r_ov, ks = _world(name, curve, _SEED)
    try:
        raw = bytes.fromhex(data["data"])
        for k in ks[1:3]:     # the process state check_item has at this point: the substitute keys have been parsed
            fixtures.private_key(k, curve).pub().key_to_bin()
        for h in data.get("history", [])[:-1]:      # cold-key history: everything delivered before, in order
            known = set(r_ov.network.verified_peers)
            try:
                r_node.endpoint.notify_listeners((s_node.address, bytes.fromhex(h)))
                w.loop.settle()
            except Exception:  # noqa: BLE001, S110
                pass
            for p in set(r_ov.network.verified_peers) - known:
                r_ov.network.remove_peer(p)
            del w.inflight[:]
        del ENTRIES[:]
        before = {p.public_key.key_to_bin() for p in r_ov.network.verified_peers}
        try:
            r_node.endpoint.notify_listeners((s_node.address, raw))
            w.loop.settle()
        except Exception:  # noqa: BLE001, S110
            pass
        dkey, dok = ref_parse(raw)
        out = []
        for ov, hname, pkey, k in ENTRIES:
            if k in overlays.SIGNED_WRAPPERS and (not dok or pkey != dkey):
                out.append(core.Violation(f"unauthentic-entry:{name}:{hname}", f"{hname} entered; authentic={dok}"))
        after = {p.public_key.key_to_bin() for p in r_ov.network.verified_peers}
        if (after - before) and not dok:
            out.append(core.Violation(f"verified-peer-without-authentication:{name}", "verified_peers grew"))
        return out
    finally:
        w.close()
