"""
C14 - The DHT routing table stays a valid Kademlia tree.

Five enumerations over the real ``RoutingTable`` / ``Bucket`` / ``Trie`` (ipv8/dht/routing.py, trie.py), all judged by
the same oracle (mc/ref/c14_ref.py: tree predicates + brute-force XOR sort) after *every* operation:

1. BFS over operation histories (add / update / mark-bad / remove_bad_nodes) with bucket capacity 2 and identifiers
   whose top w bits range over the whole w-bit space (state = the table, see ``Model.digest``);
2. the deterministic adversarial family "n nodes sharing an l-bit prefix with us" at the shipped capacity 8;
3. tables of the *unmodified* ``Node`` class (identifier derived from IP and key) including one peer seen from two IPs;
4. ``Bucket.generate_id`` for every bucket prefix that can exist, with ``random`` answering lo / lo+1 / mid / hi-1 / hi;
5. BFS over the real ``DHTCommunity`` with its ``PingChurn`` strategy on SimNet: nodes enter the table through the
   protocol hooks, signed queries of a known key arrive from other addresses (aliasing between table and Network).

``closest_nodes`` is compared with and without ``exclude_node``.

Everything that is executed is a *script* (own id, capacity, list of low-level operations, targets); replay files are
scripts, so a replay needs nothing but ``run_script``.
"""
from __future__ import annotations

import hashlib
import time

import ipv8.dht.routing as routing
from ipv8.dht.routing import Bucket, Node, RoutingTable, calc_node_id
from ipv8.keyvault.crypto import default_eccrypto
from ipv8.messaging.interfaces.udp.endpoint import UDPv4Address

from .. import core, fixtures, seams
from ..ref import c14_ref as ref

LEVEL = "model_checking"

ALL_KEYS = [("curve25519", i) for i in range(12)] + [(c, i) for c in ("very-low", "low", "medium", "high")
                                                     for i in range(2)]
_KEY_OBJS: dict[int, object] = {}


def key_obj(k: int):  # noqa: ANN201
    """Parsed public key number k of the committed fixture identities (never generated at run time)."""
    if k not in _KEY_OBJS:
        curve, i = ALL_KEYS[k % len(ALL_KEYS)]
        _KEY_OBJS[k] = default_eccrypto.key_from_public_bin(fixtures.public_bin(i, curve))
    return _KEY_OBJS[k]


def h2i(x: str) -> int:
    return int(x, 16)


def i2h(x: int) -> str:
    return format(x, "040x")


def i2b(x: int) -> bytes:
    return x.to_bytes(20, "big")


class TNode(Node):
    """The library's Node with an identifier chosen by the harness instead of crc32(ip) + sha1(key)."""

    def __init__(self, key, address, node_id: bytes) -> None:  # noqa: ANN001
        super().__init__(key, address)
        self._c14_id = node_id

    @property
    def id(self) -> bytes:
        return self._c14_id


# ------------------------------------------------------------------------------------------------
# the world: one real RoutingTable driven by low-level operations
#   ["add", id_hex, key, rtt, port, good]   a new Node object for that identifier is handed to RoutingTable.add
#   ["addreal", key, ip, port, rtt]         same with the unmodified Node class (identifier derived by the library)
#   ["fail", id_hex]                        the stored node stops answering (failed = 2, i.e. BAD)
#   ["rmbad"]                               RoutingTable.remove_bad_nodes()
#   ["readd", id_hex]                       the very Node object that was stored under that identifier earlier and has
#                                           left the table since (bad-node sweep, eviction) answers again and is handed
#                                           to RoutingTable.add once more (what DHTCommunity._contact_node does with the
#                                           objects a crawl got from closest_nodes)
# ------------------------------------------------------------------------------------------------

def buckets_of(rt: RoutingTable) -> list:
    """Independent walk over the trie nodes (not through Trie's own iteration helpers) -> bucket records."""
    out = []
    stack = [("", rt.trie.root)]
    while stack:
        path, tn = stack.pop()
        if tn.value is not None:
            b = tn.value
            out.append((path, b.prefix_id, b.max_size,
                        [(int.from_bytes(k, "big"), int.from_bytes(n.id, "big"), n.mid,
                          n.failed, n.rtt) for k, n in b.nodes.items()]))
        for ch, child in reversed(list(tn.children.items())):
            stack.append((path + ch, child))
    return out


def node_objects_of(rt: RoutingTable) -> dict:
    out: dict = {}
    stack = [rt.trie.root]
    while stack:
        tn = stack.pop()
        if tn.value is not None:
            for n in tn.value.nodes.values():
                out.setdefault(int.from_bytes(n.id, "big"), []).append((n, tn.value))
        stack.extend(tn.children.values())
    return out


class Table:
    def __init__(self, own: int, capacity: int | None) -> None:
        self.own = own
        self.rt = RoutingTable(i2b(own))
        if capacity is not None:
            self.rt.trie[""] = Bucket("", capacity)  # capacity propagates through Bucket.split
        self.before: list = []
        self.before_ids: set = set()
        self.handed: dict = {}      # identifier -> the Node object that was last stored under it

    def returnable(self) -> list:
        """(identifier, what the kept object still believes its bucket is) for kept objects that left the table."""
        stored = self.node_objects()
        return sorted((i, None if n.bucket is None else n.bucket.prefix_id) for i, n in self.handed.items()
                      if i not in stored)

    def buckets(self) -> list:
        return buckets_of(self.rt)

    def node_objects(self) -> dict:
        return node_objects_of(self.rt)

    def apply(self, op):  # noqa: ANN001, ANN201
        self.before = self.buckets()
        self.before_ids = {n[1] for n in ref.all_nodes(self.before)}
        kind = op[0]
        if kind == "add":
            _, id_hex, key, rtt, port, good = op
            node = TNode(key_obj(key), UDPv4Address("10.0.0.1", port), i2b(h2i(id_hex)))
            node.rtt = rtt
            if good:
                node.last_response = time.time()  # has answered a query just now: GOOD rather than UNKNOWN
            r = self.rt.add(node)
            if any(n is node for n, _b in self.node_objects().get(h2i(id_hex), [])):
                self.handed[h2i(id_hex)] = node
            return None if r is None else i2h(int.from_bytes(r.id, "big"))
        if kind == "readd":
            node = self.handed[h2i(op[1])]
            node.failed = 0                        # Request.on_complete: the node answered
            node.last_response = time.time()
            r = self.rt.add(node)
            return None if r is None else i2h(int.from_bytes(r.id, "big"))
        if kind == "addreal":
            _, key, ip, port, rtt = op
            node = Node(key_obj(key), UDPv4Address(ip, port))
            node.rtt = rtt
            r = self.rt.add(node)
            return [i2h(int.from_bytes(node.id, "big")), None if r is None else i2h(int.from_bytes(r.id, "big"))]
        if kind == "fail":
            for n, _b in self.node_objects().get(h2i(op[1]), []):
                n.failed = ref.BAD_FAILS
            return None
        if kind == "rmbad":
            return sorted(i2h(int.from_bytes(n.id, "big")) for n in self.rt.remove_bad_nodes())
        raise ValueError(op)


# ------------------------------------------------------------------------------------------------
# oracle
# ------------------------------------------------------------------------------------------------

RAND_MODES = ("lo", "lo+1", "mid", "hi-1", "hi")


class ChosenRandom:
    """Stand-in for the ``random`` module inside ipv8.dht.routing: every draw answers a chosen point of its range."""

    def __init__(self, mode: str) -> None:
        self.mode = mode
        self.calls = 0

    def _pick(self, lo: int, hi: int) -> int:
        self.calls += 1
        if hi < lo:
            raise ValueError("empty range")
        return {"lo": lo, "lo+1": min(lo + 1, hi), "mid": (lo + hi) // 2, "hi-1": max(hi - 1, lo), "hi": hi}[self.mode]

    def randint(self, a: int, b: int) -> int:
        return self._pick(a, b)

    def randrange(self, start: int, stop: int | None = None, step: int = 1) -> int:
        if stop is None:
            start, stop = 0, start
        n = (stop - start + step - 1) // step
        return start + step * self._pick(0, n - 1)

    def getrandbits(self, k: int) -> int:
        return self._pick(0, (1 << k) - 1) if k > 0 else 0

    def randbytes(self, n: int) -> bytes:
        return self.getrandbits(8 * n).to_bytes(n, "big")

    def random(self) -> float:
        self.calls += 1
        return {"lo": 0.0, "lo+1": 2.0 ** -53, "mid": 0.5, "hi-1": 1.0 - 2.0 ** -52, "hi": 1.0 - 2.0 ** -53}[self.mode]

    def choice(self, seq):  # noqa: ANN001, ANN201
        return seq[self._pick(0, len(seq) - 1)]

    def __getattr__(self, name: str):  # noqa: ANN204
        import random as real  # anything else a repaired generate_id might use keeps its stock behaviour
        return getattr(real, name)


_GEN_CACHE: dict = {}


def generate_id_violations(prefix: str, capacity: int = 8) -> list:
    """"Identifiers generated to refresh a bucket lie inside that bucket" for every answer of the random source."""
    if prefix in _GEN_CACHE:
        return _GEN_CACHE[prefix]
    out = []
    saved = routing.random
    try:
        for mode in RAND_MODES:
            routing.random = ChosenRandom(mode)
            b = Bucket(prefix, capacity)
            where = f"Bucket({prefix[:24] + ('..' if len(prefix) > 24 else '')!r}, len {len(prefix)}).generate_id() with random={mode}"
            try:
                got = b.generate_id()
            except Exception as e:  # noqa: BLE001
                out.append(("generate_id:exception", f"{where} raised {type(e).__name__}: {e}"))
                continue
            if not isinstance(got, bytes) or len(got) != 20:
                out.append(("generate_id:not-160-bits", f"{where} returned {got!r}"))
            elif not ref.bits(int.from_bytes(got, "big")).startswith(prefix):
                out.append(("generate_id:outside-bucket", f"{where} returned {ref.bits(int.from_bytes(got, 'big'))[:len(prefix) + 4]}.., "
                                                          "which the bucket does not own"))
    finally:
        routing.random = saved
    _GEN_CACHE[prefix] = out
    return out


ALL_K = tuple(range(1, 21))


def closest_violations(rt: RoutingTable, buckets: list, targets: list, kset, stats: dict | None = None) -> list:  # noqa: ANN001
    out = []
    nodes = ref.all_nodes(buckets)
    live = [n for n in nodes if not ref.is_bad(n[3])]
    key_of = {n[1]: n[2] for n in nodes}
    bad_ids = {n[1] for n in nodes if ref.is_bad(n[3])}
    ks = [k for k in kset if k <= len(live) + 1]  # larger k all give the same answer as k = live + 1
    for target in targets:
        tb = i2b(target)
        for k in ks:
            got = [int.from_bytes(n.id, "big") for n in rt.closest_nodes(tb, max_nodes=k)]
            want = ref.closest(buckets, target, k)
            if stats is not None:
                stats["closest_queries"] = stats.get("closest_queries", 0) + 1
            if got == want:
                continue
            desc = (f"closest_nodes(target={ref.bits(target)[:10]}.., k={k}) returned "
                    f"{[ref.bits(i)[:10] for i in got]}, the {k} nearest live nodes are {[ref.bits(i)[:10] for i in want]}")
            if any(i in bad_ids for i in got):
                out.append(("closest:bad-node-returned", desc))
            elif len(got) > k:
                out.append(("closest:more-than-k", desc))
            elif sorted(got) == sorted(want):
                out.append(("closest:order", desc))
            else:
                # Is the answer exact except that entries sharing a public key with another entry were merged away?
                full = ref.closest(buckets, target, len(live))
                has_twin = {i for i in full if any(j != i and key_of[j] == key_of[i] for j in full)}
                dropped: set = set()
                while True:
                    rest = [i for i in full if i not in dropped][:k]
                    more = {i for i in rest if i not in got}
                    if not more or not more <= has_twin:
                        break
                    dropped |= more
                if dropped and got == rest and all(any(j not in dropped and key_of[j] == key_of[i] for j in full)
                                                   for i in dropped):
                    out.append(("closest:same-key-entry-dropped", desc + " (the missing entry has the same public key "
                                                                         "as another entry with a different identifier)"))
                else:
                    out.append(("closest:wrong-set", desc))
            break  # one report per target is enough
    return out


ABSENT_ID = int("5a" * 20, 16)


def bucket_targets(buckets: list) -> list:
    """One target per bucket: the walk of closest_nodes depends on the target only through the bucket it falls into
    (the final order depends on the exact target, which the plain queries cover for the whole target space)."""
    return [int(b[0] + "0" * (160 - len(b[0])), 2) for b in buckets]


def exclude_violations(rt: RoutingTable, buckets: list, targets: list, kset, excludes: list,  # noqa: ANN001
                       stats: dict | None = None) -> list:
    """closest_nodes(target, k, exclude_node=x) == the k nearest live nodes whose identifier is not x's."""
    out = []
    objs = node_objects_of(rt)
    nlive = sum(1 for n in ref.all_nodes(buckets) if not ref.is_bad(n[3]))
    ks = [k for k in kset if k <= nlive + 1]
    for ex in excludes:
        if ex in objs:
            ex_node = objs[ex][0][0]
        else:
            ex_node = TNode(key_obj(0), UDPv4Address("10.0.0.2", 1), i2b(ex))
        for target in targets:
            tb = i2b(target)
            for k in ks:
                got = [int.from_bytes(n.id, "big") for n in rt.closest_nodes(tb, max_nodes=k, exclude_node=ex_node)]
                want = ref.closest(buckets, target, k, exclude=ex)
                if stats is not None:
                    stats["exclude_queries"] = stats.get("exclude_queries", 0) + 1
                if got == want:
                    continue
                desc = (f"closest_nodes(target={ref.bits(target)[:10]}.., k={k}, exclude_node={ref.bits(ex)[:10]}..) "
                        f"returned {[ref.bits(i)[:10] for i in got]}, the {k} nearest live nodes other than the excluded "
                        f"one are {[ref.bits(i)[:10] for i in want]}")
                if ex in got:
                    out.append(("closest-excl:excluded-node-returned", desc))
                elif len(got) < len(want):
                    out.append(("closest-excl:too-few", desc))
                else:
                    out.append(("closest-excl:wrong", desc))
                break
    return out


def check_transition(t: Table, op, obs, buckets: list) -> list:  # noqa: ANN001
    """What one operation may do to the membership (kept deliberately weak: the statement fixes no eviction policy)."""
    out = []
    after_ids = {n[1] for n in ref.all_nodes(buckets)}
    kind = op[0]
    if kind in ("add", "addreal", "readd"):
        new_id = h2i(obs[0]) if kind == "addreal" else h2i(op[1])
        ret = obs[1] if kind == "addreal" else obs
        if not after_ids <= t.before_ids | {new_id}:
            out.append(("add:foreign-node-appeared", f"{op!r} made {sorted(after_ids - t.before_ids - {new_id})} appear"))
        if ret is not None and (h2i(ret) != new_id or new_id not in after_ids):
            out.append(("add:reported-success-but-absent", f"{op!r} returned node {ret} but the table does not hold "
                                                           f"{i2h(new_id)}"))
    elif kind == "rmbad":
        was_bad = {n[1] for n in ref.all_nodes(t.before) if ref.is_bad(n[3])}
        if after_ids != t.before_ids - was_bad:
            out.append(("remove_bad_nodes:wrong-survivors", f"bad nodes were {sorted(map(i2h, was_bad))}, survivors "
                                                            f"{sorted(map(i2h, after_ids))} of {sorted(map(i2h, t.before_ids))}"))
        elif {h2i(x) for x in obs} != was_bad:
            out.append(("remove_bad_nodes:wrong-report", f"removed {sorted(map(i2h, was_bad))} but reported {obs}"))
    elif kind == "fail" and after_ids != t.before_ids:
        out.append(("harness:fail-changed-membership", "marking a node bad changed the table"))
    return out


def check_state(t: Table, op, obs, targets: list, kset, stats: dict | None = None,  # noqa: ANN001
                do_closest: bool = True, exclude: str | None = None) -> list:
    """Everything the statement promises, evaluated on the table as it is now (after ``op``, if one is given)."""
    buckets = t.buckets()
    out = ref.tree_violations(buckets, t.own)

    # the table's own lookup must lead to the bucket in which the node sits
    for node_id, places in t.node_objects().items():
        for _n, b in places:
            if t.rt.get_bucket(i2b(node_id)) is not b:
                out.append(("tree:lookup-misses-node", f"get_bucket({ref.bits(node_id)[:12]}..) is not the bucket "
                                                       f"{b.prefix_id!r} that holds the node"))
    if op is not None:
        out.extend(check_transition(t, op, obs, buckets))
    if do_closest:
        out.extend(closest_violations(t.rt, buckets, targets, kset, stats))
        present = [n[1] for n in ref.all_nodes(buckets)]
        if exclude == "all":      # every stored node and one that is not stored, one target per bucket, every k
            out.extend(exclude_violations(t.rt, buckets, bucket_targets(buckets), kset, [*present, ABSENT_ID], stats))
        elif exclude == "thin":   # oldest and newest stored node and one that is not stored, the first targets
            out.extend(exclude_violations(t.rt, buckets, targets[:3], kset,
                                          [*dict.fromkeys(present[:1] + present[-1:]), ABSENT_ID], stats))
    for b in buckets:
        out.extend(generate_id_violations(b[0], b[2]))
    if stats is not None:
        stats["max_depth"] = max(stats.get("max_depth", 0), max((len(b[0]) for b in buckets), default=0))
        stats["max_nodes"] = max(stats.get("max_nodes", 0), sum(len(b[3]) for b in buckets))
        stats["max_buckets"] = max(stats.get("max_buckets", 0), len(buckets))
    return out


def run_script(script: dict, stats: dict | None = None, only_last: bool = False) -> list:
    """Execute a script; returns [(step, key, what)] for every step at which the oracle objects."""
    seams.reseed(("c14", 0))
    t = Table(h2i(script["own"]), script.get("capacity"))
    targets = [h2i(x) for x in script["targets"]]
    kset = script.get("ks") or ALL_K
    every = script.get("closest_every", 1)
    start = script.get("check_from", 0)
    out = []
    ops = script["ops"]
    for step, op in enumerate(ops):
        last = step == len(ops) - 1
        try:
            obs = t.apply(op)
        except Exception as e:  # noqa: BLE001
            out.append((step, f"exception:{type(e).__name__}:{op[0]}", f"{op!r} raised {type(e).__name__}: {e}"))
            break
        if (only_last and not last) or step < start:
            continue
        try:
            xevery = script.get("exclude_every", 1)
            for key, what in check_state(t, op, obs, targets, kset, stats, last or step % every == every - 1,
                                         script.get("exclude") if last or step % xevery == xevery - 1 else None):
                out.append((step, key, what))
        except Exception as e:  # noqa: BLE001
            out.append((step, f"exception-in-query:{type(e).__name__}", f"after {op!r}: {type(e).__name__}: {e}"))
            break
    if stats is not None:
        stats["ops"] = stats.get("ops", 0) + len(ops)
    return out


def minimise(script: dict, key: str, step: int | None = None) -> dict:
    """Cut at the first failing step, keep one target and one k, then greedily drop operations while the same
    violation class still shows at the last step (each trial is one cheap run with the oracle at the end only)."""
    def fails(s: dict) -> bool:
        return any(k == key for _, k, _ in run_script(s, only_last=True))

    cur = {k: v for k, v in script.items() if k not in ("check_from", "closest_every")}
    if step is None:
        hits = [st for st, k, _ in run_script(cur) if k == key]
        if not hits:
            return script
        step = hits[0]
    cur["ops"] = cur["ops"][:step + 1]
    if not fails(cur):
        return script
    if key.startswith("closest:"):
        for field, values in (("targets", [[x] for x in cur["targets"]]), ("ks", [[k] for k in cur.get("ks") or ALL_K])):
            for v in values:
                trial = dict(cur, **{field: v})
                if fails(trial):
                    cur = trial
                    break
    changed = True
    while changed and len(cur["ops"]) > 1:
        changed = False
        for i in range(len(cur["ops"]) - 1, -1, -1):
            trial = dict(cur, ops=cur["ops"][:i] + cur["ops"][i + 1:])
            if trial["ops"] and fails(trial):
                cur, changed = trial, True
    return cur


# ------------------------------------------------------------------------------------------------
# 1. BFS over histories, capacity 2, w-bit identifier space
# ------------------------------------------------------------------------------------------------

def own_low_bits(seed: int, nbits: int) -> int:
    """The low bits of our own identifier: a fixed pattern per VERIF_SEED (never all zero)."""
    raw = int.from_bytes(hashlib.sha256(b"c14-own-low-%d" % seed).digest(), "big")
    return (raw & ((1 << nbits) - 1)) | 1


class Model(core.BfsModel):
    def __init__(self, w: int, own_top: int, low: str, rtts: tuple, seed: int, nkeys: int, capacity: int = 2) -> None:
        self.w, self.own_top, self.low, self.rtts, self.seed, self.nkeys = w, own_top, low, tuple(rtts), seed, nkeys
        self.capacity = capacity
        shift = 160 - w
        own_low = own_low_bits(seed, shift)
        self.own = (own_top << shift) | own_low
        node_low = own_low if low == "own" else 0
        self.ids = [(i << shift) | node_low for i in range(1 << w)]
        self.index = {x: i for i, x in enumerate(self.ids)}
        self.targets = sorted({*self.ids, self.own})
        n = 1 << w
        al: list = [("add", i, r) for i in range(n) for r in self.rtts]
        self.first_fail = len(al)
        al += [("fail", i) for i in range(n)]
        al += [("rmbad",)]
        self.rmbad = len(al) - 1
        self.first_readd = len(al)
        al += [("readd", i) for i in range(n)]
        self.alphabet = al
        self._memo: dict = {}
        self.memo_misses = 0

    def params(self) -> dict:
        return {"w": self.w, "own_top": self.own_top, "low": self.low, "rtts": list(self.rtts), "seed": self.seed,
                "nkeys": self.nkeys, "capacity": self.capacity}

    def lower(self, ev) -> list:  # noqa: ANN001
        """Symbolic event -> low-level operation.  Identifier i is owned by key (i mod nkeys): with nkeys < 2^w the
        identifiers i and i + nkeys are the same peer seen from two IP addresses."""
        if ev[0] == "add":
            _, i, r = ev
            return ["add", i2h(self.ids[i]), (i % self.nkeys + self.seed) % len(ALL_KEYS), r, 1000 + r, i % 2]
        if ev[0] in ("fail", "readd"):
            return [ev[0], i2h(self.ids[ev[1]])]
        return ["rmbad"]

    def script(self, events) -> dict:  # noqa: ANN001
        return {"own": i2h(self.own), "capacity": self.capacity, "ops": [self.lower(tuple(e)) for e in events],
                "targets": [i2h(x) for x in self.targets], "exclude": "all"}

    def initial(self) -> Table:
        return Table(self.own, self.capacity)

    def enabled(self, t: Table):  # noqa: ANN201
        present = {}
        for b in t.buckets():
            for n in b[3]:
                present[self.index[n[1]]] = n[3]
        nr = len(self.rtts)
        out = []
        for i in range(1 << self.w):
            if i in present:
                out.append(i * nr)  # an update: the rtt of the offered object is not looked at
            else:
                out.extend(range(i * nr, i * nr + nr))
        out += [self.first_fail + i for i, failed in sorted(present.items()) if not ref.is_bad(failed)]
        if not present or any(ref.is_bad(f) for f in present.values()):
            out.append(self.rmbad)
        out += [self.first_readd + self.index[i] for i, _stale in t.returnable()]
        return out

    def apply(self, t: Table, ev):  # noqa: ANN001, ANN201
        return t.apply(self.lower(ev))

    def digest(self, t: Table):  # noqa: ANN201
        # Trie shape in child order, per bucket the nodes in dict order (eviction takes the first match) with every
        # attribute a later operation reads.  Not included: addresses (TNode ids do not depend on them),
        # last_changed, and the clock (never advanced).
        # Plus: which identifiers have a kept Node object outside the table (decides which `readd` events exist) and
        # what that object still believes its bucket is (read by nothing on this tree; kept so that code which starts
        # reading it cannot hide behind a merged state).
        return (tuple((path, pid, cap, tuple((self.index.get(k, k), self.index.get(i, i), key, failed, rtt)
                                             for k, i, key, failed, rtt in nodes))
                      for path, pid, cap, nodes in t.buckets()),
                tuple((self.index.get(i, i), stale) for i, stale in t.returnable()))

    def check(self, t: Table, hist, ev, obs) -> list:  # noqa: ANN001
        # The state-only part of the oracle (tree shape, lookups, closest_nodes, generate_id) is a function of the
        # digest, so a worker evaluates it once per distinct state it meets; the transition part always runs.
        d = core.digest(self.digest(t))
        memo = self._memo
        state_part = memo.get(d)
        if state_part is None:
            if len(memo) > 300_000:
                memo.clear()
            state_part = memo[d] = check_state(t, None, None, self.targets, ALL_K, exclude="all")
            self.memo_misses += 1
        return state_part + check_transition(t, self.lower(ev), obs, t.buckets())


def bfs_configs(ctx: core.Ctx) -> list:
    """(w, top bits of our id, low bits of node ids, rtt alphabet, seed, number of distinct keys[, capacity]), depth."""
    s = ctx.seed
    if ctx.thorough:
        return [
            (Model(4, 0b1010, "own", (1, 3), s, 12), 4),
            (Model(4, 0b0000, "zero", (0, 1, 3), s, 16), 3),
            (Model(4, 0b1111, "zero", (1,), s, 16), 5),
            (Model(4, 0b1010, "zero", (1,), s, 12), 5),  # XOR-isomorphic to the previous world except for shared keys
            (Model(5, 0b10101, "own", (1,), s, 20), 4),
            (Model(3, 0b101, "own", (0, 1, 3), s, 5), 5),
            (Model(3, 0b111, "zero", (1, 3), s, 8, capacity=3), 5),
            (Model(3, 0b000, "zero", (1,), s, 8), 8),
        ]
    return [
        (Model(4, 0b1010, "own", (1, 3), s, 12), 3),
        (Model(3, 0b101, "own", (0, 1, 3), s, 5), 3),
        (Model(4, 0b1111, "zero", (1,), s, 16), 4),
        (Model(3, 0b000, "zero", (1,), s, 8), 6),
    ]


# ------------------------------------------------------------------------------------------------
# 2. adversarial family at the shipped capacity: n nodes sharing an l-bit prefix with us
# ------------------------------------------------------------------------------------------------

CTR_BITS = 6


def family_script(own: int, shared: int, variant: str, order: str, low: str, n: int, seed: int) -> dict:
    """
    Node j gets: our first ``shared`` bits, then (variant "sibling") the complement of our next bit, then a 6-bit
    counter, then zeros or our own low bits.  Variant "deeper" omits the complemented bit, so the counter decides how
    much longer the shared prefix really is.  Every fifth node stops answering after it was added, every tenth
    operation is remove_bad_nodes, rtt cycles through 0, 1, 3, 7.
    """
    ownb = ref.bits(own)
    ops, ids = [], []
    for j in range(n):
        c = {"asc": j, "desc": (1 << CTR_BITS) - 1 - j, "rev": int(format(j, "06b")[::-1], 2)}[order]
        head = ownb[:shared] + (("1" if ownb[shared] == "0" else "0") if variant == "sibling" else "")
        head += format(c, "06b")
        tail = ownb[len(head):] if low == "own" else "0" * (160 - len(head))
        node_id = int(head + tail, 2)
        ids.append(node_id)
        ops.append(["add", i2h(node_id), (j + seed) % len(ALL_KEYS), (0, 1, 3, 7)[j % 4], 2000 + j, j % 2])
        if j % 5 == 4:
            ops.append(["fail", i2h(ids[j - 2])])
        if j % 10 == 9:
            ops.append(["rmbad"])
    flips = [own ^ (1 << (159 - p)) for p in {0, max(shared - 1, 0), shared, min(shared + 3, 159), 159}]
    targets = sorted({own, 0, (1 << 160) - 1, *ids[::3], *flips})
    out = {"own": i2h(own), "capacity": None, "ops": ops, "targets": [i2h(x) for x in targets],
           "exclude": "thin", "exclude_every": 4,
           "label": f"family shared={shared} {variant} {order} low={low} n={n}"}
    if shared > 24:
        # closest_nodes costs O(depth^3) when fewer than k nodes are stored (0.25 s per call at depth 153): thin out
        # the queries, not the histories; the tree predicates still run after every operation
        out.update(ks=[1, 8, 20], closest_every=4 + shared // 8, exclude=None,
                   targets=[i2h(x) for x in sorted({own, ids[0], own ^ (1 << (159 - shared))})])
    return out


def family_scripts(ctx: core.Ctx) -> list:
    own_low = own_low_bits(ctx.seed, 160)
    owns = [own_low & ~(0xF << 156) | (top << 156) for top in (0b1010, 0b0000, 0b1111)]
    out = []
    shallow = list(range(25))
    if ctx.thorough:
        deep, orders = list(range(25, 153)), ("asc", "desc", "rev")
    else:
        deep, orders = [32, 64, 152], ("asc", "rev")
    for shared in shallow + deep:
        for vi, variant in enumerate(("sibling", "deeper")):
            # deep trees are expensive to query (see family_script): one insertion order each, rotating; quick does the
            # same for the shallow ones (the exclude_node queries took over that budget)
            every_order = shared <= 24 and ctx.thorough
            for oi, order in enumerate(orders if every_order else orders[(shared + vi) % len(orders):][:1]):
                own = owns[(shared + vi + oi) % 3]
                low = "own" if (shared + oi) % 2 else "zero"
                out.append(family_script(own, shared, variant, order, low, 40, ctx.seed))
    return out


def long_scripts(ctx: core.Ctx) -> list:
    """Up to 2000 nodes: node j complements our bit (j mod 48) and carries a counter behind it (clustered at every depth)."""
    if not ctx.thorough:
        sizes = [(300, 0b1010)]
    else:
        sizes = [(2000, 0b1010), (2000, 0b0000), (1000, 0b1111)]
    out = []
    for n, top in sizes:
        own = own_low_bits(ctx.seed, 160) & ~(0xF << 156) | (top << 156)
        ownb = ref.bits(own)
        ops, ids = [], []
        for j in range(n):
            p = j % 48
            head = ownb[:p] + ("1" if ownb[p] == "0" else "0") + format(j // 48, "07b")
            tail = ownb[len(head):] if j % 2 else "0" * (160 - len(head))
            node_id = int(head + tail, 2)
            ids.append(node_id)
            ops.append(["add", i2h(node_id), (j + ctx.seed) % len(ALL_KEYS), (0, 1, 3, 7)[(j // 3) % 4], 3000 + j % 1000, j % 2])
            if j % 7 == 6:
                ops.append(["fail", i2h(ids[j - 3])])
            if j % 50 == 49:
                ops.append(["rmbad"])
        targets = sorted({own, *ids[::max(1, n // 24)], *[own ^ (1 << (159 - p)) for p in (0, 5, 20, 47, 60)]})
        out.append({"own": i2h(own), "capacity": None, "ops": ops, "targets": [i2h(x) for x in targets],
                    "ks": [1, 2, 3, 8, 9, 19, 20], "closest_every": 25, "exclude": "thin",
                    "label": f"long n={n} own_top={top:04b}"})
    return out


# ------------------------------------------------------------------------------------------------
# 3. the unmodified Node class (identifier = crc32(masked ip)[:3] + sha1(key)[:17])
# ------------------------------------------------------------------------------------------------

def real_scripts(ctx: core.Ctx) -> list:
    nk = len(ALL_KEYS)
    own_key = ctx.seed % nk
    own = int.from_bytes(calc_node_id(UDPv4Address("1.2.3.4", 0), key_obj(own_key).key_to_hash()), "big")
    ips = [f"{10 + 7 * j}.{3 * j}.{5 * j}.{11 * j + 1}" for j in range(nk)]
    extra = ["81.2.69.142", "192.168.1.5", "145.94.0.7"] + (["8.8.4.4", "172.16.9.9", "100.64.1.1"] if ctx.thorough else [])
    others = [(k + ctx.seed) % nk for k in range(1, nk)]
    base = [["addreal", k, ips[j], 7000 + j, (0, 1, 3)[j % 3]] for j, k in enumerate(others)]

    def idof(k: int, ip: str) -> int:
        return int.from_bytes(calc_node_id(UDPv4Address(ip, 0), key_obj(k).key_to_hash()), "big")

    out = []
    base_ids = [idof(k, ips[j]) for j, k in enumerate(others)]
    targets = sorted({own, *base_ids})
    out.append({"own": i2h(own), "capacity": None, "ops": base, "targets": [i2h(x) for x in targets],
                "exclude": "all", "label": "real Node class, distinct peers"})
    # one peer seen from a second IP address (its identifier changes with the address): both entries are nodes
    for m in (2, 8, len(base)) if not ctx.thorough else range(1, len(base) + 1):
        for j in range(m):
            for ip in extra:
                twin = idof(others[j], ip)
                out.append({"own": i2h(own), "capacity": None,
                            "ops": [*base[:m], ["addreal", others[j], ip, 7100, 1]],
                            "targets": [i2h(x) for x in sorted({own, twin, base_ids[j], *base_ids[:m:4]})],
                            "check_from": m, "exclude": "all",
                            "label": f"real Node class, peer {j} of {m} also seen from {ip}"})
    return out


# ------------------------------------------------------------------------------------------------
# 5. aliasing: the real DHTCommunity + PingChurn on SimNet; nodes enter the table through the protocol hooks
# ------------------------------------------------------------------------------------------------

S_ADDR = UDPv4Address("1.1.1.1", 1001)


def _proto_addresses(n_remotes: int) -> list:
    """Per remote peer: home address, an address with another masked IP (another node id), the home IP with another
    port (same node id).  Fixed lists; the ids that result are whatever calc_node_id makes of them."""
    homes = ["81.2.69.142", "145.94.0.7", "35.156.9.9", "12.7.200.1", "77.88.55.66", "203.0.113.9", "8.26.56.26",
             "151.101.1.69", "64.233.160.1", "198.51.100.77"]
    moved = ["44.33.22.11", "192.168.1.5", "100.64.1.1", "172.217.4.4", "23.45.67.89", "5.9.88.13", "91.198.174.192",
             "185.60.216.35", "13.107.42.14", "31.13.71.36"]
    return [[UDPv4Address(homes[r], 7000 + r), UDPv4Address(moved[r], 4321 + r), UDPv4Address(homes[r], 7100 + r)]
            for r in range(n_remotes)]


class ProtoWorld:
    """S runs the real overlay; the remote peers are signers only (their overlays never receive anything): the
    harness answers S's pings on their behalf from the address that was pinged, if that address is 'responsive'."""

    def __init__(self, m: "ProtoModel") -> None:
        from ipv8.dht.churn import PingChurn
        from ipv8.dht.community import DHTCommunity
        from .. import simnet
        self.m = m
        self.net = simnet.World(("c14-proto", m.seed))
        idx = fixtures.rotate(m.seed, 1 + m.n_remotes)
        self.s_node = self.net.add_node("S", idx[0], S_ADDR)
        self.S = self.s_node.add_overlay(DHTCommunity)
        self.own = int.from_bytes(calc_node_id(S_ADDR, self.S.my_peer.mid), "big")
        rt = RoutingTable(i2b(self.own))
        rt.trie[""] = Bucket("", m.capacity)
        self.S.routing_tables[UDPv4Address] = rt
        self.churn = PingChurn(self.S, ping_interval=m.ping_interval)
        self.addrs = _proto_addresses(m.n_remotes)
        self.remotes = []
        for r in range(m.n_remotes):
            node = self.net.add_node(f"R{r}", idx[1 + r], self.addrs[r][0])
            ov = node.add_overlay(DHTCommunity)
            ov.cancel_all_pending_tasks()
            self.remotes.append(ov)
        self.by_addr = {tuple(a): (r, i) for r, al in enumerate(self.addrs) for i, a in enumerate(al)}
        self.ident = 9000
        self.seen_exc = 0
        self.net.send_hook = self.on_wire

    def close(self) -> None:
        self.net.close()

    def on_wire(self, dg):  # noqa: ANN001, ANN201
        """Everything S sends ends here; a ping to a responsive address of a remote peer is answered from there."""
        from ipv8.dht.payload import PingRequestPayload, PingResponsePayload
        where = self.by_addr.get(tuple(dg.dst))
        if dg.sender is self.s_node.endpoint and where is not None and len(dg.data) > 22 \
                and dg.data[22] == PingRequestPayload.msg_id and self.m.responds(*where):
            ov = self.remotes[where[0]]
            from ipv8.messaging.payload_headers import BinMemberAuthenticationPayload
            auth, _ = ov.serializer.unpack_serializable(BinMemberAuthenticationPayload, dg.data, offset=23)
            _, remainder = ov._verify_signature(auth, dg.data)
            payload, = ov.serializer.unpack_serializable_list([PingRequestPayload], remainder, offset=23)
            # "moved": the peer has moved since it was pinged at its home address; its (correctly signed) answer comes
            # from its new address, whose masked IP - and therefore node id - is another one
            src = 1 if (self.m.responsive == "moved" and where[1] == 0) else where[1]
            self.net.inject(self.addrs[where[0]][src], S_ADDR,
                            ov.ezr_pack(PingResponsePayload.msg_id, PingResponsePayload(payload.identifier)))
        return None

    def node_id(self, r: int, a: int) -> int:
        return int.from_bytes(calc_node_id(self.addrs[r][a], self.remotes[r].my_peer.mid), "big")

    def apply(self, ev):  # noqa: ANN001, ANN201
        from ipv8.dht.payload import FindRequestPayload, PingRequestPayload
        kind = ev[0]
        S, net = self.S, self.net
        if kind == "disc":      # the DHT's own discovery hook (what introduction callbacks end in)
            _, r, a = ev
            self.s_node.run(S.on_node_discovered, self.remotes[r].my_peer.public_key.key_to_bin(), self.addrs[r][a])
        elif kind in ("ping", "find"):   # a signed query of remote r arriving from its address number a
            _, r, a = ev
            self.ident += 1
            ov = self.remotes[r]
            if kind == "ping":
                packet = ov.ezr_pack(PingRequestPayload.msg_id, PingRequestPayload(self.ident))
            else:
                packet = ov.ezr_pack(FindRequestPayload.msg_id,
                                     FindRequestPayload(self.ident, self.addrs[r][a], i2b(self.node_id(r, a)), 0, True))
            net.inject(self.addrs[r][a], S_ADDR, packet)
        elif kind == "walk":    # remote r walks to S from its home address (the ordinary peer-discovery path)
            ov = self.remotes[ev[1]]
            net.inject(self.addrs[ev[1]][0], S_ADDR, ov.create_introduction_request(S_ADDR))
        elif kind == "churn":
            self.s_node.run(self.churn.take_step)
        elif kind == "tick":
            net.run_for(self.m.tick)
        else:
            raise ValueError(ev)
        net.flush()
        return None

    def tables(self) -> list:
        return list(self.S.routing_tables.values())


class ProtoModel(core.BfsModel):
    def __init__(self, n_remotes: int, responsive: str, seed: int, capacity: int = 2, find: bool = False,
                 ping_interval: float = 5.0, tick: float = 6.0) -> None:
        self.n_remotes, self.responsive, self.seed, self.capacity = n_remotes, responsive, seed, capacity
        self.find, self.ping_interval, self.tick = find, ping_interval, tick
        R = range(n_remotes)
        al: list = [("disc", r, a) for r in R for a in range(3)]
        al += [("ping", r, a) for r in R for a in range(3)]
        if find:
            al += [("find", r, a) for r in R for a in range(2)]
        al += [("walk", r) for r in R]
        al += [("churn",), ("tick",)]
        self.alphabet = al

    def params(self) -> dict:
        return {"part": "proto", "remotes": self.n_remotes, "responsive": self.responsive, "seed": self.seed,
                "capacity": self.capacity, "find": self.find, "ping_interval": self.ping_interval, "tick": self.tick}

    def responds(self, r: int, a: int) -> bool:
        return self.responsive in ("all", "moved") or (self.responsive == "home" and a != 1)

    def initial(self) -> ProtoWorld:
        return ProtoWorld(self)

    def dispose(self, w: ProtoWorld) -> None:
        w.close()

    def apply(self, w: ProtoWorld, ev):  # noqa: ANN001, ANN201
        return w.apply(tuple(ev))

    def digest(self, w: ProtoWorld):  # noqa: ANN201
        # Everything of S that a later event reads: clock, routing tables (per node every attribute incl. all
        # addresses and ping/query stamps), the overlay's Network (peers, their addresses, whether the peer object
        # *is* a routing-table node), outstanding requests.  Remote peers are stateless signers.
        keyidx = {ov.my_peer.mid: r for r, ov in enumerate(w.remotes)}
        table_objs = {id(n) for rt in w.tables() for places in node_objects_of(rt).values() for n, _ in places}
        tabs = []
        for rt in w.tables():
            rows = []
            stack = [("", rt.trie.root)]
            while stack:
                path, tn = stack.pop()
                if tn.value is not None:
                    b = tn.value
                    rows.append((path, b.prefix_id, b.max_size, tuple(
                        (k.hex(), n.id.hex(), keyidx.get(n.mid, -1), n.failed, round(n.rtt, 6),
                         tuple(sorted(map(tuple, n.addresses.values()))), n.last_ping_sent, n.last_response,
                         tuple(n.last_queries)) for k, n in b.nodes.items())))
                for ch, child in reversed(list(tn.children.items())):
                    stack.append((path + ch, child))
            tabs.append(tuple(rows))
        netw = w.S.network
        peers = tuple((keyidx.get(p.mid, -1), tuple(sorted(map(tuple, p.addresses.values()))), id(p) in table_objs)
                      for p in netw.verified_peers)
        known = tuple(sorted(tuple(a) for a in netw._all_addresses))
        services = tuple(sorted(keyidx.get(Peer_mid(k), -1) for k in netw.services_per_peer))
        pending = tuple(sorted((c.prefix, c.node.id.hex() if hasattr(c, "node") else "", round(getattr(c, "start_time", 0), 6))
                               for c in w.S.request_cache._identifiers.values()))
        return (round(seams.CLOCK.now, 6), tuple(tabs), peers, known, services, pending)

    def check(self, w: ProtoWorld, hist, ev, obs) -> list:  # noqa: ANN001
        out = []
        ids = sorted({w.node_id(r, a) for r in range(self.n_remotes) for a in range(3)})
        for rt in w.tables():
            buckets = buckets_of(rt)
            out.extend(ref.tree_violations(buckets, w.own))
            for node_id, places in node_objects_of(rt).items():
                for _n, b in places:
                    if rt.get_bucket(i2b(node_id)) is not b:
                        out.append(("tree:lookup-misses-node", f"get_bucket({ref.bits(node_id)[:12]}..) is not the bucket "
                                                               f"{b.prefix_id!r} that holds the node"))
            out.extend(closest_violations(rt, buckets, [*ids, w.own], ALL_K))
            present = [n[1] for n in ref.all_nodes(buckets)]
            out.extend(exclude_violations(rt, buckets, [*bucket_targets(buckets), *ids], ALL_K, [*present, ABSENT_ID]))
        excs = w.net.loop.exceptions
        for ctx_ in excs[w.seen_exc:]:
            e = ctx_.get("exception")
            out.append((f"proto:exception-in-callback:{type(e).__name__}", f"{ctx_.get('message')}: {e!r}"))
        w.seen_exc = len(excs)
        return out


def Peer_mid(public_key_bin: bytes) -> bytes:  # noqa: N802
    import hashlib as _h
    return _h.sha1(public_key_bin).digest()


DRIFT_ADDRESSES = ["201.77.3.9", "9.9.9.9", "130.161.1.1", "66.249.66.1", "17.253.144.10", "208.67.222.222", "52.95.110.1",
                   "94.140.14.14"]


def drift_script(seed: int, which: int) -> tuple[list, int]:
    """
    Our own address changes while the table is populated (every introduction response rewrites my_peer.address, and
    the DHT derives its own node id from the address): 8 peers are discovered at their home addresses, S moves to
    DRIFT_ADDRESSES[which], the same peers are discovered at two further addresses each.  After every discovery the
    table is a valid tree around ONE identifier - the one it was created with.
    """
    m = ProtoModel(8, "none", seed)
    w = m.initial()
    out: list = []
    n = 0
    try:
        steps = [("disc", r, 0) for r in range(8)] + ["move"] + [("disc", r, a) for a in (1, 2) for r in range(8)]
        done = []
        for ev in steps:
            if ev == "move":
                new = UDPv4Address(DRIFT_ADDRESSES[which], 1001)
                w.S.my_peer.address = new
                w.S.my_estimated_wan = new
                done.append(["move", DRIFT_ADDRESSES[which]])
                continue
            w.apply(ev)
            n += 1
            done.append(list(ev))
            found = m.check(w, [], ev, None)
            if found:
                out = [(k, f"own address drift: after {done}: {what}") for k, what in found]
                break
        return out, n
    finally:
        w.close()


def _drift_work(chunk: list) -> list:
    return [(i, *drift_script(_DRIFT_SEED, i)) for i in chunk]


_DRIFT_SEED = 0


def proto_configs(ctx: core.Ctx) -> list:
    s = ctx.seed
    if ctx.thorough:
        return [(ProtoModel(1, "home", s), 5), (ProtoModel(1, "none", s, find=True), 5),
                (ProtoModel(2, "home", s), 4), (ProtoModel(2, "all", s, find=True), 3),
                (ProtoModel(3, "home", s, capacity=2), 3), (ProtoModel(2, "moved", s), 4),
                (ProtoModel(3, "moved", s), 3)]
    return [(ProtoModel(1, "home", s), 4), (ProtoModel(2, "home", s), 3), (ProtoModel(2, "moved", s), 3),
            (ProtoModel(3, "moved", s), 3)]


def proto_replay(data: dict) -> list:
    w = data["world"]
    m = ProtoModel(w["remotes"], w["responsive"], w["seed"], w["capacity"], w["find"], w["ping_interval"], w["tick"])
    seams.reseed(("bfs", m.seed))
    world = m.initial()
    out: list = []
    try:
        hist = [tuple(e) for e in data["history"]]
        for i, ev in enumerate(hist):
            try:
                obs = m.apply(world, ev)
            except Exception as e:  # noqa: BLE001
                return [(f"exception:{type(e).__name__}:{ev[0]}", f"{type(e).__name__}: {e}")]
            found = m.check(world, hist[:i], ev, obs)
            if i == len(hist) - 1:
                out = found
    finally:
        m.dispose(world)
    return out


# ------------------------------------------------------------------------------------------------
# 4. generate_id for every prefix a bucket can have
# ------------------------------------------------------------------------------------------------

def generate_sweep(ctx: core.Ctx) -> tuple:
    """Bucket prefixes are prefixes of our own id with the last bit either way; with capacity 8 at most 157 long."""
    own_low = own_low_bits(ctx.seed, 160)
    prefixes = {""}
    for top in (0b1010, 0b0000, 0b1111):
        ownb = ref.bits(own_low & ~(0xF << 156) | (top << 156))
        for ln in range(1, 158):
            prefixes.add(ownb[:ln])
            prefixes.add(ownb[:ln - 1] + ("1" if ownb[ln - 1] == "0" else "0"))
    viol = []
    for p in sorted(prefixes, key=lambda s: (len(s), s)):
        for key, what in generate_id_violations(p):
            viol.append((key, what, {"kind": "generate_id", "prefix": p}))
    return len(prefixes) * len(RAND_MODES), viol


# ------------------------------------------------------------------------------------------------
# run / replay
# ------------------------------------------------------------------------------------------------

def _cpu_now() -> float:
    """CPU seconds of this process and its reaped workers (wall time on a shared box says little)."""
    import os
    x = os.times()
    return x.user + x.system + x.children_user + x.children_system


def _run_scripts(chunk: list) -> list:
    out = []
    for s in chunk:
        stats: dict = {}
        res = run_script(s, stats)
        first: dict = {}
        for step, key, what in res:
            first.setdefault(key, (step, what))
        out.append((s, stats, first))
    return out


def run(ctx: core.Ctx) -> core.Report:
    violations: dict[str, core.Violation] = {}
    samples: list = []

    def report(key: str, what: str, replay) -> None:  # noqa: ANN001
        if key not in violations:
            violations[key] = core.Violation(key, what, replay)

    cpu: dict = {}
    mark = [_cpu_now()]

    def phase(name: str) -> None:
        now = _cpu_now()
        cpu[name] = round(now - mark[0], 1)
        mark[0] = now

    # 4 (first: cheapest, and its verdicts are cached for the per-state checks)
    gen_evals, gen_viol = generate_sweep(ctx)
    for key, what, rp in gen_viol:
        report(key, what, rp)
    phase("generate_id")

    # 1
    states = transitions = outcomes = 0
    runs = []
    exhaustive = True
    for model, depth in bfs_configs(ctx):
        r = core.bfs(model, depth, ctx.jobs, chunk=8)
        states += r["states"]
        transitions += r["transitions"]
        outcomes += r["distinct_outcomes"]
        exhaustive &= not r["capped"]
        runs.append({"world": model.params(), "alphabet_size": len(model.alphabet), "depth": r["completed_depth"],
                     "states": r["states"], "transitions": r["transitions"], "levels": r["levels"],
                     "distinct_outcomes": r["distinct_outcomes"]})
        samples.extend(r["samples"][:1])
        for v in r["violations"]:
            if v.key in violations:
                continue
            script = model.script(v.replay["history"])
            what = v.what
            if not v.key.startswith(("oracle-crash", "generate_id")):
                script = minimise(script, v.key)
                what = next((w for _, k, w in run_script(script, only_last=True) if k == v.key), what)
            report(v.key, what, {"kind": "script", "world": model.params(), **script})
        phase(f"bfs{len(runs)}")

    # 5: the real overlay with its churn strategy (aliasing between routing table and Network)
    proto_runs = []
    for model, depth in proto_configs(ctx):
        r = core.bfs(model, depth, ctx.jobs, chunk=4)
        states += r["states"]
        transitions += r["transitions"]
        outcomes += r["distinct_outcomes"]
        exhaustive &= not r["capped"]
        proto_runs.append({"world": model.params(), "alphabet_size": len(model.alphabet), "depth": r["completed_depth"],
                           "states": r["states"], "transitions": r["transitions"], "levels": r["levels"]})
        samples.extend(r["samples"][:1])
        for v in r["violations"]:
            report(v.key, v.what, {"kind": "proto", "world": model.params(), "history": v.replay["history"]})
        phase(f"proto{len(proto_runs)}")

    # 5b: our own address (hence our own node id, as the overlay computes it) changes while the table is populated
    global _DRIFT_SEED
    _DRIFT_SEED = ctx.seed
    drift_ops = 0
    for i, found, n_ops in sorted(core.pmap(_drift_work, list(range(len(DRIFT_ADDRESSES))), ctx.jobs, chunk=1)):
        drift_ops += n_ops
        transitions += n_ops
        for key, what in found:
            report(key, what, {"kind": "drift", "seed": ctx.seed, "which": i})
    proto_runs.append({"world": "own address drift", "addresses": len(DRIFT_ADDRESSES), "discoveries": drift_ops})
    phase("drift")

    # 2 + 3: deterministic scripts, oracle after every operation
    scripts = family_scripts(ctx) + real_scripts(ctx) + long_scripts(ctx)
    fam_stats = {"scripts": len(scripts), "ops": 0, "closest_queries": 0, "max_depth": 0, "max_nodes": 0,
                 "max_buckets": 0}
    results = core.pmap(_run_scripts, sorted(scripts, key=lambda s: -len(s["ops"])), ctx.jobs, chunk=1)
    for s, stats, first in sorted(results, key=lambda r: (len(r[0]["ops"]), r[0]["label"])):
        for k in ("ops", "closest_queries"):
            fam_stats[k] += stats.get(k, 0)
        for k in ("max_depth", "max_nodes", "max_buckets"):
            fam_stats[k] = max(fam_stats[k], stats.get(k, 0))
        for key, (step, what) in sorted(first.items()):
            if key in violations or key.startswith("generate_id"):
                continue
            report(key, f"[{s['label']}] {what}", {"kind": "script", **minimise(s, key, step)})
    samples.append(scripts[0]["ops"][:6])
    phase("scripts")

    cov = {
        "states": states, "transitions": transitions,
        "traces_validated_against_impl": transitions + fam_stats["scripts"],
        "samples": samples, "exhaustive": exhaustive, "distinct_outcomes": outcomes, "runs": runs,
        "protocol_runs": proto_runs, "scripted_histories": fam_stats, "generate_id_evaluations": gen_evals,
        "cpu_seconds_by_phase": cpu, "cpu_seconds": round(sum(cpu.values()), 1),
        "bounds": {"bfs": "capacity 2 (3 in one thorough world), ids = all 2^w top-bit patterns, low bits zero or ours; "
                          "events add(id, rtt) / update / fail / remove_bad_nodes; every target of the w-bit space "
                          "plus our own id, every k <= live+1",
                   "family": "capacity 8; 40 nodes sharing l bits with us (sibling / deeper, 2-3 orders), "
                             "l in 0..24 + {31,32,63,64,100,152} quick, 0..152 thorough; k in 1..20",
                   "long": "300 (quick) / 2000 (thorough) clustered nodes, tree checked after every operation, "
                           "closest_nodes every 25th",
                   "generate_id": "every prefix on or next to our own path up to length 157 x 5 answers of random",
                   "exclude_node": "every BFS state: every stored node + one absent id x one target per bucket x every k",
                   "proto": "real DHTCommunity + PingChurn on SimNet, capacity-2 table, 1-3 remote peers x 3 source "
                            "addresses; events disc/ping/find/walk/churn/tick; depths see protocol_runs"},
        "explanation": "Every transition runs on the real RoutingTable; afterwards an independent walk over the trie nodes "
                       "is judged by mc/ref/c14_ref.py (partition, ownership, capacity, own-path splits) and "
                       "closest_nodes is compared with a brute-force XOR sort for every target and k.",
    }
    return core.Report(LEVEL, cov, list(violations.values()), [
        "bad / live is failed >= 2 as in Node.status; the clock is never advanced (GOOD vs UNKNOWN only breaks ties "
        "between equal distances, which cannot occur inside one table)",
        "identifiers are injected through a 5-line Node subclass overriding the id property (section 3 uses the "
        "unmodified class)",
        "the statement fixes no eviction policy: which node leaves a full bucket is not judged, only that add() never "
        "reports success without storing the node and never makes foreign nodes appear",
        "closest_nodes(exclude_node=x) is read as 'the k nearest live nodes whose identifier differs from x.id' "
        "(this is how find-requests use it)",
        "protocol part: remote peers are signers whose pings are answered by the harness; S's Network/routing-table "
        "object sharing is reported only through the invariants it breaks",
    ])


def replay(ctx: core.Ctx, data: dict) -> list:
    if data.get("kind") == "generate_id":
        _GEN_CACHE.clear()
        return [core.Violation(k, w) for k, w in generate_id_violations(data["prefix"])]
    if data.get("kind") == "drift":
        return [core.Violation(k, what) for k, what in drift_script(data["seed"], data["which"])[0]]
    if data.get("kind") == "proto":
        return [core.Violation(k, w) for k, w in dict(proto_replay(data)).items()]
    res = run_script(data)
    seen, out = set(), []
    for _step, key, what in res:
        if key not in seen:
            seen.add(key)
            out.append(core.Violation(key, what))
    return out
