"""
C02 - Every shipped wire message survives encode/decode unchanged.

Bounded exhaustive input enumeration on the real Serializer / payload classes:

* every concrete Serializable class of the library (found by importing every ipv8 module and walking
  ``__subclasses__``) plus synthetic classes covering the interpreted / compiled / dataclass mechanisms and one
  single-field class per registered packer (mc/ref/c02_domain.py);
* instances from per-format boundary alphabets: the full product when small, otherwise every instance within
  ``d`` field deviations of two base instances (``bits`` groups range over all 256 bytes);
* each instance in seven positions: alone, at offsets 1 and 23 inside foreign bytes, behind two header payloads
  in a datagram (``unpack_serializable_list`` at offset 23), nested as ``payload`` between two sentinel fields,
  and inside a ``payload-list`` of one and of two items;
* every registered packer directly (``Packer.pack/unpack``, ``Serializer.pack/unpack``) at offsets 0, 1, 23;
* ``CellPayload.to_bin / from_bin``;
* the serializer of every shipped overlay *instance* (``overlay.serializer`` and a fresh ``overlay.get_serializer()``):
  every library and synthetic class it can encode, in all positions above plus depth 2 (payload in payload, payload
  in list, list in payload, list in list); classes using a format the overlay registered itself (``flags``,
  ``node-list``) with every instance within 1 (thorough 2) deviations of two bases, the others with their
  representative instances; reported is what fails there but not with a plain Serializer;
* co-resident overlays (mc/ref/c02_sandbox.py): real instances of every shipped overlay class, alone, in every ordered
  pair, side by side in every construction order, and next to an application overlay that registers its own packer
  under each known format name (constructed before and after): what an overlay's serializer does with every format
  and every message class must be identical to the same overlay living alone, and constructing overlays must not
  change ``default_serializer``'s packer table.

Oracle (per position): (i) decoded attributes equal what was put in, (ii) the returned offset is exactly start +
length of the encoding (end of buffer for ``raw``-terminated types), (iii) re-encoding the decoded object gives
the same bytes, (iv) the bytes equal those of the independent reference codec mc/ref/c02_wire.py.
"""
from __future__ import annotations

import json
import struct
import traceback
from typing import Any

from ipv8.messaging.anonymization.payload import CellPayload
from ipv8.messaging.lazy_payload import VariablePayload, vp_compile
from ipv8.messaging.payload_headers import BinMemberAuthenticationPayload, GlobalTimeDistributionPayload
from ipv8.messaging.serialization import Serializer

from .. import core, fixtures
from ..ref import c02_domain as dom
from ..ref import c02_sandbox as sandbox
from ..ref import c02_wire as wire

LEVEL = "exploration"

PREFIX1 = b"\xa5"
PREFIX23 = bytes(range(0xE0, 0xE0 + 23))
SUFFIX = b"\x5a\xc3\x00"
SENTINEL_A, SENTINEL_B = 0xA55A, 0x5AA5
GLOBAL_TIME = 0x0102030405060708
OFFSETS = (0, 1, 23)
CONTEXTS = ("o0", "o1", "o23", "dgram", "nested", "list1", "list2")
CONTEXT_EXTRA = {**{k: frozenset(["H", "payload", "payload-list"]) for k in ("nested2", "listnest", "nestlist", "listlist")},"dgram": frozenset(["varlenH", "Q"]), "nested": frozenset(["H", "payload"]),
                 "list1": frozenset(["H", "payload", "payload-list"]), "list2": frozenset(["H", "payload", "payload-list"])}
# depth-2 positions: (outer, inner) with n = nested as payload, l = item of a payload-list
DEEP_CONTEXTS = {"nested2": "nn", "listnest": "ln", "nestlist": "nl", "listlist": "ll"}
CONTEXT_KIND = {"nested2": "nested2", "listnest": "nested2", "nestlist": "nested2", "listlist": "nested2","o0": "top", "o1": "embedded", "o23": "embedded", "dgram": "embedded", "nested": "nested",
                "list1": "list", "list2": "list", "list0": "list", "list255": "list"}

dom.all_specs()  # import the library and build every class specification before workers are forked


def bounds(ctx: core.Ctx) -> dict:
    return {"d": 3, "cap": 50000} if ctx.thorough else {"d": 2, "cap": 3000}


# ------------------------------------------------------------------------------------------------
# wrappers used for the nested / list positions (one pair per class, created on demand)
# ------------------------------------------------------------------------------------------------

_WRAPPERS: dict[str, tuple[type, type]] = {}


def wrappers(spec: dom.ClassSpec) -> tuple[type, type]:
    if spec.key not in _WRAPPERS:
        ident = "".join(ch if ch.isalnum() else "_" for ch in spec.key)
        nest = vp_compile(type("C02Nest_" + ident, (VariablePayload,),
                               {"format_list": ["H", spec.cls, "H"], "names": ["before", "inner", "after"]}))
        lst = type("C02List_" + ident, (VariablePayload,),
                   {"format_list": ["H", [spec.cls], "H"], "names": ["before", "items", "after"]})
        _WRAPPERS[spec.key] = (nest, lst)
    return _WRAPPERS[spec.key]


_DEEP: dict[tuple, tuple[type, type]] = {}


def _wrap(inner: type, kind: str, ident: str) -> type:
    """A payload holding ``inner`` nested (kind n) or as the only item of a payload-list (kind l), between sentinels."""
    return vp_compile(type(f"C02Deep{kind.upper()}_{ident}", (VariablePayload,),
                           {"format_list": ["H", inner if kind == "n" else [inner], "H"],
                            "names": ["before", "held", "after"]}))


def deep_wrappers(spec: dom.ClassSpec, path: str) -> tuple[type, type]:
    """(outer, inner) wrapper classes for a depth-2 position, e.g. path "ln": a list of payloads that nest the class."""
    if (spec.key, path) not in _DEEP:
        ident = "".join(ch if ch.isalnum() else "_" for ch in spec.key)
        inner = _wrap(spec.cls, path[1], ident + "_" + path[1])
        _DEEP[(spec.key, path)] = (_wrap(inner, path[0], ident + "_" + path), inner)
    return _DEEP[(spec.key, path)]


def _ref_wrap(body: bytes, kind: str) -> bytes:
    """Reference bytes of a wrapper of _wrap() around the reference bytes of what it holds."""
    return (struct.pack(">H", SENTINEL_A) + (b"" if kind == "n" else b"\x01") + struct.pack(">H", len(body)) + body
            + struct.pack(">H", SENTINEL_B))


# ------------------------------------------------------------------------------------------------
# the oracle for one instance
# ------------------------------------------------------------------------------------------------

class Finding:
    """One failed sub-check of one instance."""

    __slots__ = ("oracle", "cls", "detail", "fmt", "what", "cands", "extra")

    def __init__(self, oracle: str, cls: str, detail: str, fmt: str | None, what: str) -> None:
        self.oracle, self.cls, self.detail, self.fmt, self.what = oracle, cls, detail, fmt, what
        self.cands: frozenset = frozenset()   # formats whose packer could be responsible (filled in by evaluate)
        self.extra: frozenset = frozenset()   # formats of the surrounding fields of the position it was found in

    def ident(self) -> tuple:
        return (self.oracle, self.cls, self.detail)


def _exc(e: BaseException) -> str:
    return f"{type(e).__name__}: {str(e)[:300]}"


def _first_diff(a: bytes, b: bytes) -> int:
    n = min(len(a), len(b))
    for i in range(n):
        if a[i] != b[i]:
            return i
    return n


def _diff_field(spec: dom.ClassSpec, descs: list, enc: bytes, ref: bytes) -> tuple[str, str | None]:
    """Name and format of the first wire field whose reference bytes are not found in the encoding."""
    pos = _first_diff(enc, ref)
    start = 0
    values = spec.wire(descs)
    for i, (fmt, value) in enumerate(zip(spec.ref_format_list, values)):
        start += len(wire.encode(fmt, value))
        if pos < start:
            return f"wire-field-{i}", (fmt if isinstance(fmt, str) else ("payload-list" if isinstance(fmt, list) else "payload"))
    return "length", None


def _hex(data: bytes, around: int = 0) -> str:
    lo = max(0, around - 8)
    part = data[lo:lo + 40].hex()
    return (f"...[{lo}:]" if lo else "") + part + ("..." if lo + 40 < len(data) else "") + f" ({len(data)} bytes)"


def check_decoded(spec: dom.ClassSpec, descs: list, obj: Any, end: int, want_end: int, enc: bytes, ser,  # noqa: ANN001, ANN401, PLR0913
                  where: str, out: list) -> None:
    """Oracle parts (i)-(iii) for one decoded object."""
    bad = spec.compare(descs, obj)
    for name, fmt, got, want in bad:
        out.append(Finding("roundtrip", spec.name, name, fmt,
                           f"{spec.name}.{name}: put in {want}, decoded {got} ({where})"))
    if end != want_end:
        out.append(Finding("end-offset", spec.name, "", spec.single_format,
                           f"{spec.name}: decoding {where} returned offset {end}, the encoding ends at {want_end}"))
    if not bad:
        try:
            again = ser.pack_serializable(obj)
        except Exception as e:  # noqa: BLE001
            out.append(Finding("reencode", spec.name, "raises", spec.single_format,
                               f"{spec.name}: re-encoding the decoded object raised {_exc(e)} ({where})"))
        else:
            if again != enc:
                out.append(Finding("reencode", spec.name, "", spec.single_format,
                                   f"{spec.name}: re-encoding the decoded object gives {_hex(again, _first_diff(again, enc))}"
                                   f" instead of {_hex(enc, _first_diff(again, enc))} ({where})"))


def evaluate(spec: dom.ClassSpec, descs: list, contexts: tuple = CONTEXTS, ser=None) -> tuple[list, dict]:  # noqa: ANN001, C901, PLR0912, PLR0915
    """
    Run every oracle on one instance.  Returns (findings, info); info = {"evaluations", "enc_len", "skipped"}.
    Findings of a later position are reported only if the same finding did not already occur at offset 0.
    """
    ser = ser if ser is not None else dom.serializer()
    info = {"evaluations": 0, "enc_len": -1, "skipped": 0}
    found: list[Finding] = []
    ref = spec.ref_encode(descs)  # a failure here is a harness bug and propagates
    # self-check of the reference codec: it decodes its own bytes to the same wire values
    back, back_end = wire.decode_payload(spec.ref_format_list, ref, 0)
    if back_end != len(ref) or wire.encode_payload(spec.ref_format_list, back) != ref:
        msg = f"reference codec is not self-consistent for {spec.key} {descs!r}"
        raise AssertionError(msg)
    try:
        inst = spec.build(descs)
    except Exception as e:  # noqa: BLE001
        found = [Finding("construct-raises", spec.name, "", None, f"{spec.name}(...) raised {_exc(e)}")]
        _attribute(spec, found)
        return found, info
    try:
        enc = ser.pack_serializable(inst)
    except Exception as e:  # noqa: BLE001
        found = [Finding("pack-raises", spec.name, "", spec.single_format,
                         f"{spec.name}: pack_serializable raised {_exc(e)}")]
        _attribute(spec, found)
        return found, info
    info["enc_len"] = len(enc)
    bytes_ok = enc == ref
    if not bytes_ok:
        detail, fmt = _diff_field(spec, descs, enc, ref)
        pos = _first_diff(enc, ref)
        found.append(Finding("wire-bytes", spec.name, detail, fmt,
                             f"{spec.name}: encoded {_hex(enc, pos)}, the documented format prescribes {_hex(ref, pos)} "
                             f"(first difference at byte {pos}, {detail}{' ' + fmt if fmt else ''})"))
    raw_term = wire.is_raw_terminated(spec.ref_format_list)
    suffix = b"" if raw_term else SUFFIX
    top_idents: set = set()
    nestable = len(ref) <= 0xFFFF and len(enc) <= 0xFFFF

    for name in contexts:
        cur: list[Finding] = []
        kind = CONTEXT_KIND[name]
        try:
            if name in ("o0", "o1", "o23"):
                prefix = {"o0": b"", "o1": PREFIX1, "o23": PREFIX23}[name]
                data = prefix + enc + (b"" if name == "o0" else suffix)
                info["evaluations"] += 1
                obj, end = ser.unpack_serializable(spec.cls, data, len(prefix))
                want_end = len(data) if raw_term else len(prefix) + len(enc)
                check_decoded(spec, descs, obj, end, want_end, enc, ser, f"at offset {len(prefix)} of {len(data)} bytes", cur)
            elif name == "dgram":
                key = fixtures.public_bin(0)
                head = [BinMemberAuthenticationPayload(key), GlobalTimeDistributionPayload(GLOBAL_TIME)]
                data = PREFIX23 + ser.pack_serializable_list([*head, inst])
                info["evaluations"] += 1
                want = PREFIX23 + wire.encode("varlenH", key) + wire.encode("Q", GLOBAL_TIME) + ref
                if bytes_ok and data != want:
                    cur.append(Finding("wire-bytes", spec.name, "datagram", None,
                                       f"{spec.name}: pack_serializable_list gives {_hex(data, _first_diff(data, want))}, "
                                       f"expected {_hex(want, _first_diff(data, want))}"))
                objs = ser.unpack_serializable_list([BinMemberAuthenticationPayload, GlobalTimeDistributionPayload,
                                                     spec.cls], data, 23, consume_all=False)
                if len(objs) != 4 or objs[0].public_key_bin != key or objs[1].global_time != GLOBAL_TIME:
                    cur.append(Finding("roundtrip", spec.name, "datagram-headers", None,
                                       f"{spec.name}: the two header payloads in front of it did not survive"))
                else:  # the unconsumed remainder must be empty: the payload ends exactly where the datagram ends
                    check_decoded(spec, descs, objs[2], len(data) - len(objs[3]), len(data), enc, ser,
                                  "as third payload of a datagram", cur)
            elif name == "nested":
                if not nestable:
                    info["skipped"] += 1
                    continue
                nest_cls, _ = wrappers(spec)
                data = ser.pack_serializable(nest_cls(SENTINEL_A, inst, SENTINEL_B))
                info["evaluations"] += 1
                want = struct.pack(">HH", SENTINEL_A, len(ref)) + ref + struct.pack(">H", SENTINEL_B)
                if bytes_ok and data != want:
                    cur.append(Finding("wire-bytes", spec.name, "nested", "payload",
                                       f"{spec.name} nested as payload: {_hex(data, _first_diff(data, want))}, "
                                       f"expected {_hex(want, _first_diff(data, want))}"))
                obj, end = ser.unpack_serializable(nest_cls, PREFIX1 + data + SUFFIX, 1)
                if obj.before != SENTINEL_A or obj.after != SENTINEL_B:
                    cur.append(Finding("roundtrip", spec.name, "nested-neighbours", "payload",
                                       f"{spec.name} nested as payload: the fields around it decode to "
                                       f"{obj.before:#x}/{obj.after:#x}"))
                check_decoded(spec, descs, obj.inner, end, 1 + len(data), enc, ser, "nested as payload", cur)
            elif name in DEEP_CONTEXTS:
                path = DEEP_CONTEXTS[name]
                want = _ref_wrap(_ref_wrap(ref, path[1]), path[0])
                if len(want) > 0xFFFF:
                    info["skipped"] += 1
                    continue
                outer_cls, inner_cls = deep_wrappers(spec, path)
                held = inst if path[1] == "n" else [inst]
                middle = inner_cls(SENTINEL_A, held, SENTINEL_B)
                data = ser.pack_serializable(outer_cls(SENTINEL_A, middle if path[0] == "n" else [middle], SENTINEL_B))
                info["evaluations"] += 1
                if bytes_ok and data != want:
                    cur.append(Finding("wire-bytes", spec.name, name, "payload",
                                       f"{spec.name} at depth 2 ({name}): {_hex(data, _first_diff(data, want))}, "
                                       f"expected {_hex(want, _first_diff(data, want))}"))
                obj, end = ser.unpack_serializable(outer_cls, PREFIX1 + data + SUFFIX, 1)
                mid = obj.held if path[0] == "n" else (obj.held[0] if len(obj.held) == 1 else None)
                leaf = None if mid is None else (mid.held if path[1] == "n" else (mid.held[0] if len(mid.held) == 1 else None))
                if leaf is None or (obj.before, obj.after, mid.before, mid.after) != (SENTINEL_A, SENTINEL_B) * 2:
                    cur.append(Finding("roundtrip", spec.name, f"{name}-neighbours", "payload",
                                       f"{spec.name} at depth 2 ({name}): the surrounding payloads do not survive"))
                else:
                    check_decoded(spec, descs, leaf, end, 1 + len(data), enc, ser, f"at depth 2 ({name})", cur)
            else:  # list1 / list2
                other = spec.representatives()[0]
                items_descs = [descs] if name == "list1" else [descs, other]
                sizes = len(ref) * 1 + (len(spec.ref_encode(other)) if name == "list2" else 0)
                if not nestable or sizes > 10 ** 6:
                    info["skipped"] += 1
                    continue
                _, list_cls = wrappers(spec)
                items = [inst] if name == "list1" else [inst, spec.build(other)]
                data = ser.pack_serializable(list_cls(SENTINEL_A, items, SENTINEL_B))
                info["evaluations"] += 1
                want = struct.pack(">HB", SENTINEL_A, len(items)) + b"".join(
                    struct.pack(">H", len(r)) + r for r in [spec.ref_encode(d) for d in items_descs]) \
                    + struct.pack(">H", SENTINEL_B)
                if bytes_ok and data != want and (len(items) == 1 or ser.pack_serializable(items[1]) == spec.ref_encode(other)):
                    cur.append(Finding("wire-bytes", spec.name, "list", "payload-list",
                                       f"{spec.name} in a payload-list: {_hex(data, _first_diff(data, want))}, "
                                       f"expected {_hex(want, _first_diff(data, want))}"))
                obj, end = ser.unpack_serializable(list_cls, PREFIX23 + data + SUFFIX, 23)
                if obj.before != SENTINEL_A or obj.after != SENTINEL_B or len(obj.items) != len(items):
                    cur.append(Finding("roundtrip", spec.name, "list-neighbours", "payload-list",
                                       f"{spec.name} in a payload-list of {len(items)}: decoded {len(obj.items)} item(s), "
                                       f"neighbours {obj.before:#x}/{obj.after:#x}"))
                else:
                    check_decoded(spec, descs, obj.items[0], end, 23 + len(data), enc, ser,
                                  f"as first item of a payload-list of {len(items)}", cur)
                    if len(items) == 2 and spec.compare(other, obj.items[1]) and not _top_level_broken(spec, other):
                        cur.append(Finding("roundtrip", spec.name, "list-second-item", "payload-list",
                                           f"{spec.name}: the second item of a payload-list of 2 does not survive"))
        except Exception as e:  # noqa: BLE001
            cur.append(Finding("unpack-raises", spec.name, "", spec.single_format,
                               f"{spec.name}: encoding or decoding in position {name} raised {_exc(e)}"))
        for f in cur:
            if name == "o0":
                top_idents.add(f.ident())
                found.append(f)
            elif f.ident() not in top_idents:
                f.detail = f"{f.detail}@{kind}" if f.detail else f"@{kind}"
                f.extra = CONTEXT_EXTRA.get(name, frozenset())
                found.append(f)
    _attribute(spec, found)
    return found, info


_FORMAT_NAMES: dict[str, frozenset] = {}


def format_names(format_list: list) -> frozenset:
    """Every packer name involved in decoding this format list (recursively through nested payloads)."""
    names: set = set()
    for fmt in format_list:
        if isinstance(fmt, str):
            names.add(fmt)
        elif isinstance(fmt, list):
            names.add("payload-list")
            names |= format_names(fmt[0].format_list)
        else:
            names.add("payload")
            names |= format_names(fmt.format_list)
    return frozenset(names)


def _attribute(spec: dom.ClassSpec, found: list) -> None:
    """
    Candidate formats of each finding (whose packer could be to blame): for wrong bytes the format of the differing
    field; for a wrong decoded attribute the formats of that field and of every field in front of it (a packer
    returning a wrong offset corrupts what follows); otherwise every format of the class.
    """
    if not found:
        return
    if spec.key not in _FORMAT_NAMES:
        _FORMAT_NAMES[spec.key] = format_names(spec.ref_format_list)
    for f in found:
        f.cands = _FORMAT_NAMES[spec.key]
        if f.fmt is None or f.fmt in ("payload", "payload-list") or spec.origin == "hand-written":
            continue
        if f.oracle == "wire-bytes":
            f.cands = frozenset([f.fmt])
        elif f.oracle == "roundtrip":
            attr = f.detail.split("@")[0]
            for i, field in enumerate(spec.fields):
                if attr in field.names:
                    f.cands = format_names(spec.ref_format_list[:i + 1])
                    break
    for f in found:
        f.cands = f.cands | f.extra


def evaluate_class_once(spec: dom.ClassSpec) -> tuple[list, int]:
    """Positions that do not depend on the instance: an empty payload-list and one of 255 items."""
    ser = dom.serializer()
    found: list[Finding] = []
    evaluations = 0
    _, list_cls = wrappers(spec)
    small = min(spec.representatives(), key=lambda v: len(spec.ref_encode(v)))
    for count in (0, 255):
        ref_item = spec.ref_encode(small)
        if count * (len(ref_item) + 2) > 10 ** 6:
            continue
        try:
            items = [spec.build(small) for _ in range(count)]
            data = ser.pack_serializable(list_cls(SENTINEL_A, items, SENTINEL_B))
            evaluations += 1
            want = struct.pack(">HB", SENTINEL_A, count) + (struct.pack(">H", len(ref_item)) + ref_item) * count \
                + struct.pack(">H", SENTINEL_B)
            if data != want and ser.pack_serializable(items[0] if items else spec.build(small)) == ref_item:
                found.append(Finding("wire-bytes", spec.name, f"list{count}", "payload-list",
                                     f"{spec.name}: payload-list of {count}: {_hex(data, _first_diff(data, want))}, "
                                     f"expected {_hex(want, _first_diff(data, want))}"))
            obj, end = ser.unpack_serializable(list_cls, PREFIX1 + data + SUFFIX, 1)
            ok = (obj.before == SENTINEL_A and obj.after == SENTINEL_B and len(obj.items) == count
                  and end == 1 + len(data))
            if ok and count:
                ok = not spec.compare(small, obj.items[0]) and not spec.compare(small, obj.items[-1])
            if not ok and not _top_level_broken(spec, small):
                found.append(Finding("roundtrip", spec.name, f"list{count}", "payload-list",
                                     f"{spec.name}: a payload-list of {count} item(s) does not survive "
                                     f"(decoded {len(obj.items)} item(s), end offset {end} of {1 + len(data)})"))
        except Exception as e:  # noqa: BLE001
            found.append(Finding("unpack-raises", spec.name, f"list{count}", "payload-list",
                                 f"{spec.name}: payload-list of {count} raised {_exc(e)}"))
    # depth 2 (payload in payload, payload in list, list in payload, list in list) for a representative instance;
    # only what does not already fail at offset 0 is reported (those findings carry the suffix @nested2)
    deep_found, info = evaluate(spec, spec.representatives()[0], ("o0", *DEEP_CONTEXTS))
    found.extend(f for f in deep_found if f.detail.endswith("@nested2"))
    evaluations += info["evaluations"] - 1
    _attribute(spec, found)
    return found, evaluations


def _top_level_broken(spec: dom.ClassSpec, descs: list) -> bool:
    found, _ = evaluate(spec, descs, ("o0",))
    return bool(found)


# ------------------------------------------------------------------------------------------------
# packers, directly
# ------------------------------------------------------------------------------------------------

def packer_args(fmt: str, desc: Any) -> tuple:  # noqa: ANN401
    value = dom.mat(desc)
    return tuple(value) if fmt == "bits" or fmt in dom.MULTI_VALUE else (value,)


def evaluate_packer(fmt: str, desc: Any) -> tuple[list, int]:  # noqa: ANN401, C901
    ser = dom.serializer()
    packer = ser.get_packer_for(fmt)
    found: list[Finding] = []
    evaluations = 0
    cls = f"packer<{fmt}>"
    ref = wire.encode(fmt, dom.wire_of(desc))
    args = packer_args(fmt, desc)
    try:
        enc = packer.pack(*args)
    except Exception as e:  # noqa: BLE001
        return [Finding("pack-raises", cls, "", fmt, f"{fmt}: Packer.pack({dom.show(desc)}) raised {_exc(e)}")], 0
    if enc != ref:
        found.append(Finding("wire-bytes", cls, "", fmt,
                             f"{fmt}: Packer.pack({dom.show(desc)}) = {_hex(enc, _first_diff(enc, ref))}, the documented "
                             f"format prescribes {_hex(ref, _first_diff(enc, ref))}"))
    single = len(args) == 1
    if single:
        try:
            via = ser.pack(fmt, args[0])
            if via != enc:
                found.append(Finding("wire-bytes", cls, "Serializer.pack", fmt, f"{fmt}: Serializer.pack differs from Packer.pack"))
        except Exception as e:  # noqa: BLE001
            found.append(Finding("pack-raises", cls, "Serializer.pack", fmt, f"{fmt}: Serializer.pack raised {_exc(e)}"))
    raw_term = fmt == "raw"
    for offset in OFFSETS:
        prefix = PREFIX23[:offset]
        data = prefix + enc + (b"" if raw_term else SUFFIX)
        want_end = len(data) if raw_term else offset + len(enc)
        evaluations += 1
        try:
            got: list = []
            end = packer.unpack(data, offset, got)
            value = tuple(got) if fmt == "bits" else (got[0] if len(got) == 1 else got)
            if not dom.same(desc, value):
                found.append(Finding("roundtrip", cls, "" if offset == 0 else "@embedded", fmt,
                                     f"{fmt}: packed {dom.show(desc)}, unpacked {dom._short(value)} at offset {offset}"))  # noqa: SLF001
            elif end != want_end:
                found.append(Finding("end-offset", cls, "" if offset == 0 else "@embedded", fmt,
                                     f"{fmt}: Packer.unpack at offset {offset} returned {end}, the encoding ends at {want_end}"))
            else:
                again = packer.pack(*_repack_args(fmt, got))
                if again != enc:
                    found.append(Finding("reencode", cls, "", fmt, f"{fmt}: re-packing the unpacked value changes the bytes"))
            if single:
                value2, end2 = ser.unpack(fmt, data, offset)
                if not dom.same(desc, value2) or end2 != end:
                    found.append(Finding("roundtrip", cls, "Serializer.unpack", fmt,
                                         f"{fmt}: Serializer.unpack at offset {offset} gives {dom._short(value2)}, {end2}"))  # noqa: SLF001
        except Exception as e:  # noqa: BLE001
            found.append(Finding("unpack-raises", cls, "" if offset == 0 else "@embedded", fmt,
                                 f"{fmt}: Packer.unpack at offset {offset} raised {_exc(e)}"))
    # keep one finding per identity
    seen, uniq = set(), []
    for f in found:
        if f.ident() not in seen:
            seen.add(f.ident())
            uniq.append(f)
    return uniq, evaluations


def _repack_args(fmt: str, got: list) -> tuple:
    if fmt == "bits":
        return tuple(got)
    if fmt in dom.MULTI_VALUE:
        return tuple(got[0])
    return (got[0],)


# ------------------------------------------------------------------------------------------------
# CellPayload.to_bin / from_bin
# ------------------------------------------------------------------------------------------------

CELL_PREFIX = b"\x00\x02" + bytes(range(0x40, 0x54))
CELL_DOMAIN = {
    "circuit_id": [0x01020304, 0, 0xFFFFFFFF, 1],
    "message": [dom.BP(23), dom.B(b""), dom.BP(1400), dom.B(b"\x00")],
    "plaintext": [False, True],
    "relay_early": [False, True],
}


def cell_cases() -> list[list]:
    return [[c, m, p, r] for c in CELL_DOMAIN["circuit_id"] for m in CELL_DOMAIN["message"]
            for p in CELL_DOMAIN["plaintext"] for r in CELL_DOMAIN["relay_early"]]


def evaluate_cell(case: list) -> list:
    circuit_id, message_desc, plaintext, relay_early = case
    message = dom.mat(message_desc)
    found = []
    cls = "CellPayload"
    try:
        data = CellPayload(circuit_id, message, plaintext, relay_early).to_bin(CELL_PREFIX)
        want = (CELL_PREFIX + b"\x00" + circuit_id.to_bytes(4, "big") + bytes([1 if plaintext else 0])
                + bytes([1 if relay_early else 0]) + message)
        if data != want:
            found.append(Finding("wire-bytes", cls, "", None,
                                 f"CellPayload.to_bin: {_hex(data, _first_diff(data, want))}, expected "
                                 f"{_hex(want, _first_diff(data, want))}"))
        back = CellPayload.from_bin(data)
        for name, want_value in (("circuit_id", circuit_id), ("message", message), ("plaintext", plaintext),
                                 ("relay_early", relay_early)):
            if getattr(back, name) != want_value or isinstance(getattr(back, name), bytes) != isinstance(want_value, bytes):
                found.append(Finding("roundtrip", cls, name, None,
                                     f"CellPayload.{name}: put in {want_value!r:.80}, from_bin(to_bin()) gives "
                                     f"{getattr(back, name)!r:.80}"))
        if not found and back.to_bin(CELL_PREFIX) != data:
            found.append(Finding("reencode", cls, "", None, "CellPayload: re-encoding the decoded cell changes the bytes"))
    except Exception as e:  # noqa: BLE001
        found.append(Finding("unpack-raises", cls, "", None, f"CellPayload round trip raised {_exc(e)}"))
    return found


# ------------------------------------------------------------------------------------------------
# work items, workers, aggregation
# ------------------------------------------------------------------------------------------------

ALL_CONTEXTS = (*CONTEXTS, *DEEP_CONTEXTS)


def _overlay_serializer_child(name: str, d: int, seed: int) -> dict:
    """In a forked child: construct the overlay alone and run the oracle through its own serializers."""
    from ipv8.messaging.serialization import Serializer  # noqa: PLC0415
    _world, overlay = sandbox.build_alone(name)
    serializers = [("overlay.serializer", overlay.serializer, True),
                   ("a fresh overlay.get_serializer()", overlay.get_serializer(), False)]
    plain = set(Serializer().get_available_formats())
    out = {"instances": 0, "evaluations": 0, "findings": [], "own_formats": None, "classes": 0}
    for label, ser, enumerate_own in serializers:
        available = set(ser.get_available_formats())
        own = available - plain
        if out["own_formats"] is None:
            out["own_formats"] = sorted(own)
        for spec in dom.enumerate_classes(include_synthetic=True):
            names = format_names(spec.ref_format_list)
            if not names <= available:
                continue
            out["classes"] += 1 if enumerate_own else 0
            many = enumerate_own and bool(names & own)
            instances = spec.instances(d, 0, seed) if many else iter(spec.representatives())
            for descs in instances:
                found, info = evaluate(spec, descs, ALL_CONTEXTS, ser=ser)
                out["instances"] += 1
                out["evaluations"] += info["evaluations"]
                if found:
                    plain_idents = {f.ident() for f in evaluate(spec, descs, ALL_CONTEXTS)[0]}
                    for f in found:
                        if f.ident() not in plain_idents:
                            position = f.detail.split("@")[1] if "@" in f.detail else "top"
                            out["findings"].append((
                                f"overlay-serializer:{f.oracle}:{position}",
                                f"{name}, {label}: {f.what}",
                                {"kind": "overlay-serializer", "overlay": name, "spec": spec.key, "values": descs},
                                max(info["enc_len"], 0)))
    return out


def fresh_serializer():  # noqa: ANN201
    """A new Serializer object with the same packers as dom.serializer() (defaults + what the overlays register)."""
    union = dom.serializer()
    ser = Serializer()
    have = set(ser.get_available_formats())
    for name in union.get_available_formats():
        if name not in have:
            ser.add_packer(name, union.get_packer_for(name))
    return ser


def evaluate_after_failures(spec: dom.ClassSpec, descs: list) -> tuple[list, int]:
    """
    A Serializer's past must not matter: the first thing a *new* Serializer sees of this class is a damaged encoding
    (every proper prefix; every prefix followed by ff bytes up to the original length), which it may reject in any way
    it likes; the valid encoding offered next to the same Serializer must still decode to the original fields.
    Also: a failed decode of the class as second payload of a datagram, then the valid one alone.
    """
    found: list[Finding] = []
    n = 0
    try:
        enc = fresh_serializer().pack_serializable(spec.build(descs))
    except Exception:  # noqa: BLE001
        return found, n          # reported by the ordinary evaluation
    damaged = [("cut@%d" % c, enc[:c]) for c in range(len(enc))]
    damaged += [("cut@%d+ff" % c, enc[:c] + b"\xff" * (len(enc) - c)) for c in range(len(enc))]
    for label, bad in damaged:
        for via in ("single", "list"):
            ser = fresh_serializer()
            try:
                if via == "single":
                    ser.unpack_serializable(spec.cls, bad, 0)
                else:
                    ser.unpack_serializable_list([spec.cls], bad, 0)
            except Exception:  # noqa: BLE001, S110
                pass
            n += 1
            f = check_decoded_simple(spec, descs, enc, ser)
            if f is not None:
                found.append(Finding("decode-after-failed-decode", "any-class", via, None,
                                     f"{spec.name}: a new Serializer first saw the damaged encoding {label} "
                                     f"({_hex(bad)}) via unpack_serializable{'_list' if via == 'list' else ''}; the valid "
                                     f"encoding {_hex(enc)} offered next: {f}"))
                break
        if found:
            break
    return found, n


def check_decoded_simple(spec: dom.ClassSpec, descs: list, enc: bytes, ser) -> str | None:  # noqa: ANN001
    try:
        obj, end = ser.unpack_serializable(spec.cls, enc, 0)
    except Exception as e:  # noqa: BLE001
        return f"unpack_serializable raised {_exc(e)}"
    probs: list = []
    check_decoded(spec, descs, obj, end, len(enc), enc, ser, "after the failed decode", probs)
    return None if not probs else "; ".join(p.what for p in probs[:2])


def _order(replay: dict, size: int) -> tuple:
    text = json.dumps(replay, sort_keys=True)
    return (size, len(text), text)


def _worker(chunk: list) -> list:
    out = []
    for item in chunk:
        kind = item[0]
        res = {"kind": kind, "instances": 0, "evaluations": 0, "nontrivial": 0, "skipped": 0, "findings": {},
               "min_len": None, "max_len": None, "crash": None}
        try:
            if kind == "class":
                _, key, d, seed, sub = item
                spec = dom.spec_by_key(key)
                res["spec"] = key
                for idx in spec.expand(tuple(sub), d, seed):
                    descs = spec.descs(idx)
                    found, info = evaluate(spec, descs)
                    res["instances"] += 1
                    res["evaluations"] += info["evaluations"]
                    res["skipped"] += info["skipped"]
                    if info["enc_len"] > 0:
                        res["nontrivial"] += 1
                    if info["enc_len"] >= 0:
                        res["min_len"] = info["enc_len"] if res["min_len"] is None else min(res["min_len"], info["enc_len"])
                        res["max_len"] = info["enc_len"] if res["max_len"] is None else max(res["max_len"], info["enc_len"])
                    if found:
                        replay = {"kind": "instance", "spec": key, "values": descs}
                        _merge(res["findings"], found, replay, max(info["enc_len"], 0))
            elif kind == "class-once":
                spec = dom.spec_by_key(item[1])
                res["spec"] = item[1]
                found, n = evaluate_class_once(spec)
                res["evaluations"] += n
                if found:
                    _merge(res["findings"], found, {"kind": "class-once", "spec": item[1]}, 0)
            elif kind == "after-failure":
                spec = dom.spec_by_key(item[1])
                res["spec"] = item[1]
                for descs in spec.representatives()[:item[2]]:
                    found, n = evaluate_after_failures(spec, descs)
                    res["instances"] += 1
                    res["evaluations"] += n
                    res["nontrivial"] += 1 if n else 0
                    if found:
                        _merge(res["findings"], found, {"kind": "after-failure", "spec": item[1], "values": descs}, 0)
            elif kind == "packer":
                _, fmt, i = item
                desc = dom.alphabet_for(fmt)[i]
                found, n = evaluate_packer(fmt, desc)
                res["spec"] = f"packer<{fmt}>"
                res["instances"] += 1
                res["nontrivial"] += 1 if len(wire.encode(fmt, dom.wire_of(desc))) else 0
                res["evaluations"] += n
                if found:
                    _merge(res["findings"], found, {"kind": "packer", "format": fmt, "value": desc}, dom.desc_size(desc))
            elif kind == "overlay-serializer":
                res["spec"] = f"serializer of {item[1]}"
                got = sandbox.in_child(_overlay_serializer_child, item[1], item[2], item[3])
                if "crash" in got:
                    res["crash"] = f"{item!r}\n{got['crash']}"
                else:
                    res["instances"], res["evaluations"] = got["instances"], got["evaluations"]
                    res["overlay_findings"] = got["findings"]
                    res["overlay_info"] = {"own_formats": got["own_formats"], "classes": got["classes"]}
            elif kind == "sandbox":
                res["spec"] = "co-resident overlays"
                res["sandbox"] = (item[1], sandbox.run_config(item[1]))
                if "crash" in res["sandbox"][1]:
                    res["crash"] = f"{item!r}\n{res['sandbox'][1]['crash']}"
            elif kind == "cell":
                res["spec"] = "CellPayload"
                for case in item[1]:
                    found = evaluate_cell(case)
                    res["instances"] += 1
                    res["evaluations"] += 1
                    res["nontrivial"] += 1
                    if found:
                        _merge(res["findings"], found, {"kind": "cell", "case": case}, dom.desc_size(case[1]))
        except Exception:  # noqa: BLE001
            res["crash"] = f"{item!r}\n{traceback.format_exc()[-1500:]}"
        out.append(res)
    return out


def _merge(table: dict, found: list, replay: dict, size: int) -> None:
    order = None
    for f in found:
        ident = f.ident()
        if order is None:
            order = _order(replay, size)
        cur = table.get(ident)
        if cur is None or order < cur[0]:
            table[ident] = (order, f.fmt, f.what, replay, sorted(f.cands))


def plan(ctx: core.Ctx) -> tuple[list, dict]:
    b = bounds(ctx)
    items: list = []
    modes: dict = {}
    for key, spec in sorted(dom.all_specs().items()):
        work = spec.work_items(b["d"], b["cap"], ctx.seed)
        modes[key] = "full product" if work and work[0][0] == "full" else f"<= {b['d']} deviations from 2 bases"
        items.extend(("class", key, b["d"], ctx.seed, w) for w in work)
        items.append(("class-once", key))
        items.append(("after-failure", key, 4 if ctx.thorough else 2))
    ser = dom.serializer()
    for fmt in ser.get_available_formats():
        if fmt in ("payload", "payload-list") or not wire.known(fmt):
            continue
        items.extend(("packer", fmt, i) for i in range(len(dom.alphabet_for(fmt))))
    cells = cell_cases()
    items.extend(("cell", cells[i:i + 16]) for i in range(0, len(cells), 16))
    items.extend(("sandbox", steps) for steps in sandbox.configurations(ctx.thorough))
    # the heaviest items first: they would otherwise be the tail of the run
    items[:0] = [("overlay-serializer", name, 2 if ctx.thorough else 1, ctx.seed) for name in sandbox.overlay_names()]
    return items, modes


def keys_from(findings: dict) -> list[core.Violation]:
    """
    (oracle, class, detail) -> violation keys, coarse enough that one defect gives a handful of keys:

    * a packer that fails its direct check gives ``format:<fmt>:<oracle>``; findings in classes that can be blamed
      on that packer (it decodes the failing field, or any field if the field is unknown) are folded into it;
    * the same oracle failing on the same format in more than two classes gives ``<oracle>:format:<fmt>``
      (packers without a direct check: ``payload``, ``payload-list``);
    * everything else is ``<oracle>:<class>[:<field or position>]``.
    """
    broken = {fmt for (_o, cls, _d), entry in findings.items() if cls.startswith("packer<") for fmt in [entry[1]]}
    by_fmt: dict[tuple, set] = {}
    swallowed: dict[str, set] = {}
    rest = {}
    for ident, entry in findings.items():
        oracle, cls, _detail = ident
        if not cls.startswith("packer<") and broken & set(entry[4]):
            for fmt in broken & set(entry[4]):
                swallowed.setdefault(fmt, set()).add(cls)
            continue
        rest[ident] = entry
        if entry[1] is not None and not cls.startswith("packer<"):
            by_fmt.setdefault((oracle, entry[1]), set()).add(cls)
    folded: dict[str, tuple] = {}
    for (oracle, cls, detail), (order, fmt, what, replay, _cands) in sorted(rest.items(), key=lambda kv: kv[0]):
        group = by_fmt.get((oracle, fmt), set()) if fmt is not None else set()
        if cls.startswith("packer<"):
            key = f"format:{fmt}:{oracle}"
            if swallowed.get(fmt):
                names = sorted(swallowed[fmt])
                what = f"{what}   [also fails in {len(names)} classes using this format: {', '.join(names[:10])}]"
        elif len(group) > 2:
            key = f"{oracle}:format:{fmt}"
            what = f"{what}   [same failure in {len(group)} classes: {', '.join(sorted(group)[:10])}]"
        else:
            key = f"{oracle}:{cls}" + (f":{detail}" if detail else "")
        if key not in folded or order < folded[key][0]:
            folded[key] = (order, what, replay)
    return [core.Violation(key, what, replay) for key, (order, what, replay) in sorted(folded.items())]


def sandbox_verdicts(observed: list) -> tuple[list, dict]:
    """Compare every configuration with its overlays living alone; one violation (smallest configuration) per key."""
    baselines = {steps[0][1]: obs["overlays"][0][1] for steps, obs in observed if len(steps) == 1}
    best: dict[str, tuple] = {}
    shapes: dict[str, int] = {}
    for steps, obs in observed:
        shape = "+".join(kind for kind, _ in steps)
        shapes[shape] = shapes.get(shape, 0) + 1
        for key, what in sandbox.compare(steps, obs, baselines):
            order = (len(steps), json.dumps(steps))
            if key not in best or order < best[key][0]:
                best[key] = (order, what, {"kind": "sandbox", "steps": steps})
    cov = {"configurations": len(observed), "by_shape": dict(sorted(shapes.items())),
           "overlay_classes": sandbox.overlay_names(), "intruder_format_names": len(sandbox.intruder_formats()),
           "orders": "every ordered pair of shipped overlays; intruder before and after; all permutations of "
                     f"{sorted({a for st, _ in observed if len(st) > 2 for _, a in st})}",
           "configurations_differing_from_baseline": sum(1 for st, ob in observed if sandbox.compare(st, ob, baselines))}
    return [core.Violation(k, what, rep) for k, (_o, what, rep) in sorted(best.items())], cov


def run(ctx: core.Ctx) -> core.Report:  # noqa: C901, PLR0912, PLR0915
    b = bounds(ctx)
    items, modes = plan(ctx)
    per: dict[str, dict] = {}
    findings: dict = {}
    crashes: list[str] = []
    totals = {"instances": 0, "evaluations": 0, "nontrivial": 0, "skipped": 0}
    observed: list = []
    overlay_best: dict[str, tuple] = {}
    overlay_info: dict[str, dict] = {}
    with core.Pool(_worker, ctx.jobs) as pool:
        for results in pool.map_chunks(core.chunks(items, 4)):
            for res in results:
                if res["crash"]:
                    crashes.append(res["crash"])
                    continue
                for key, what, rep, size in res.get("overlay_findings", ()):
                    order = _order(rep, size)
                    if key not in overlay_best or order < overlay_best[key][0]:
                        overlay_best[key] = (order, what, rep)
                if "overlay_info" in res:
                    overlay_info[res["spec"]] = res["overlay_info"]
                if "sandbox" in res:
                    observed.append(res["sandbox"])
                    res["instances"] = 1
                    res["evaluations"] = sum(len(fp["formats"]) + len(fp["messages"])
                                             for _name, fp in res["sandbox"][1]["overlays"])
                row = per.setdefault(res["spec"], {"instances": 0, "evaluations": 0, "nontrivial": 0, "min_len": None,
                                                  "max_len": None})
                for k in ("instances", "evaluations", "nontrivial"):
                    row[k] += res[k]
                    totals[k] += res[k]
                totals["skipped"] += res["skipped"]
                for k, pick in (("min_len", min), ("max_len", max)):
                    if res[k] is not None:
                        row[k] = res[k] if row[k] is None else pick(row[k], res[k])
                for ident, entry in res["findings"].items():
                    cur = findings.get(ident)
                    if cur is None or entry[0] < cur[0]:
                        findings[ident] = entry
    if crashes:
        core.eprint("C02: the harness itself failed on some work items:\n" + "\n".join(crashes[:3]))
        raise SystemExit(2)

    violations = keys_from(findings)
    sandbox_violations, sandbox_cov = sandbox_verdicts(observed)
    violations.extend(sandbox_violations)
    violations.extend(core.Violation(k, what, rep) for k, (_o, what, rep) in sorted(overlay_best.items()))
    ser = dom.serializer()
    registered = ser.get_available_formats()
    for fmt in wire.DOCUMENTED_FORMATS:
        if fmt not in registered:
            violations.append(core.Violation(f"registry:missing:{fmt}",
                                             f"documented data type {fmt!r} is not registered in the default Serializer",
                                             {"kind": "registry", "format": fmt}))
    unknown_formats = [f for f in registered if not wire.known(f) and f not in ("payload", "payload-list")]
    not_covered = dom.not_covered()
    specs = dom.all_specs()
    library = [k for k in specs if specs[k].library]
    exhaustive = not not_covered and not unknown_formats

    samples = []
    for key in ("ipv8.messaging.payload:IntroductionRequestPayload", "ipv8.dht.payload:FindResponsePayload",
                "ipv8.messaging.anonymization.payload:PeersResponsePayload", "syn:dc:SynDcNested"):
        if key in specs:
            spec = specs[key]
            descs = spec.descs(spec.base(0, ctx.seed))
            samples.append({"class": key, "values": [dom.show(d) for d in descs], "positions": list(CONTEXTS),
                            "reference_encoding": spec.ref_encode(descs)[:96].hex()})
    origins: dict[str, int] = {}
    for k in library:
        origins[specs[k].origin] = origins.get(specs[k].origin, 0) + 1
    cov = {
        "evaluations": totals["evaluations"],
        "distinct_nontrivial": totals["nontrivial"],
        "rule": "one evaluation = one real pack + unpack of one instance in one position (or one Packer.pack/unpack at "
                "one offset, or one CellPayload to_bin/from_bin). Instances are distinct by construction: alphabets "
                "hold pairwise different values, every index tuple is generated once (instances within d deviations of "
                "both bases are evaluated for the first base only). distinct_nontrivial counts the distinct instances "
                "whose encoding is non-empty.",
        "samples": samples,
        "exhaustive": exhaustive,
        "bounds": {"max_field_deviations_d": b["d"], "full_product_cap": b["cap"], "offsets": list(OFFSETS),
                   "positions": [*CONTEXTS, "list0", "list255"], "bases_per_class": 2, "seed_rotates": "base instances"},
        "instances": totals["instances"],
        "positions_skipped_because_encoding_exceeds_nested_length_field": totals["skipped"],
        "library_classes": len(library),
        "library_classes_by_kind": origins,
        "synthetic_classes": len(specs) - len(library),
        "classes_not_covered": not_covered,
        "base_classes_skipped": dom.skipped_bases(),
        "modules_not_importable": dom.import_library(),
        "packers_checked_directly": sorted(f for f in registered if wire.known(f) and f not in ("payload", "payload-list")),
        "packers_unknown_to_reference": unknown_formats,
        "custom_packers": {k: v for k, v in dom.packer_sources().items() if v != "default"},
        "per_class": {k: {**v, "mode": modes.get(k, "alphabet")} for k, v in sorted(per.items())},
        "co_resident_overlays": sandbox_cov,
        "overlay_serializers": {"positions": list(ALL_CONTEXTS), "per_overlay": overlay_info,
                                "own_format_classes": "every instance within 1 (thorough 2) deviations of two bases",
                                "other_classes": "representative instances"},
        "distinct_failing_checks": len(findings),
        "explanation": "bounded exhaustive enumeration of boundary instances of every Serializable class and packer; "
                       "oracle = field equality + exact end offset + identical re-encoding + bytes equal to an "
                       "independent transcription of the documented format",
    }
    assumptions = [
        "legal field values are those of the boundary alphabets in mc/ref/c02_domain.py (integers at 0/1/max and a "
        "byte-order revealing value, byte strings of length 0/1/255/256/max, IPv4/IPv6/domain addresses, all 256 "
        "bit bytes, lists of 0/1/2/255 items); values outside the alphabets are not explored",
        "the wire layout of the 16 hand-written payloads is specified in HAND_WRITTEN (mc/ref/c02_domain.py); the "
        "layout of VariablePayload / dataclass classes is their format_list interpreted by mc/ref/c02_wire.py",
        "equality is Python equality of attribute values (an address equals any tuple with the same host and port; "
        "bits decode to 0/1; list and tuple are interchangeable); the class of the decoded object is not compared "
        "(PongPayload.from_unpack_list returns a PingPayload with identical fields)",
        "flags are compared as ascending lists of distinct powers of two",
        "arrays (arrayH-*) are held to the sentence 'all values are big-endian' of the documented table",
        "CellPayload.unwrap and the ez_pack helpers of EZPackOverlay are not part of this check",
        "co-resident overlays: an overlay is compared with an instance of the same class constructed alone in a fresh "
        "(forked) process; extra format names visible in a serializer are not a violation by themselves, a changed "
        "default_serializer table is (doc/reference/serialization.rst: the Serializer of get_serializer() is sandboxed "
        "per Community instance); overlays are constructed, not run: no traffic is exchanged in this sub-check",
    ]
    return core.Report(LEVEL, cov, violations, assumptions)


# ------------------------------------------------------------------------------------------------
# replay
# ------------------------------------------------------------------------------------------------

def replay(ctx: core.Ctx, data: dict) -> list:
    kind = data["kind"]
    findings: dict = {}
    if kind == "instance":
        spec = dom.spec_by_key(data["spec"])
        found, info = evaluate(spec, data["values"])
        _merge(findings, found, data, max(info["enc_len"], 0))
    elif kind == "class-once":
        found, _ = evaluate_class_once(dom.spec_by_key(data["spec"]))
        _merge(findings, found, data, 0)
    elif kind == "after-failure":
        found, _ = evaluate_after_failures(dom.spec_by_key(data["spec"]), data["values"])
        _merge(findings, found, data, 0)
    elif kind == "packer":
        found, _ = evaluate_packer(data["format"], data["value"])
        _merge(findings, found, data, 0)
    elif kind == "cell":
        _merge(findings, evaluate_cell(data["case"]), data, 0)
    elif kind == "overlay-serializer":
        def one() -> dict:
            _world, overlay = sandbox.build_alone(data["overlay"])
            spec = dom.spec_by_key(data["spec"])
            out = []
            plain_idents = {f.ident() for f in evaluate(spec, data["values"], ALL_CONTEXTS)[0]}
            for label, ser in (("overlay.serializer", overlay.serializer),
                               ("a fresh overlay.get_serializer()", overlay.get_serializer())):
                for f in evaluate(spec, data["values"], ALL_CONTEXTS, ser=ser)[0]:
                    if f.ident() not in plain_idents:
                        position = f.detail.split("@")[1] if "@" in f.detail else "top"
                        out.append((f"overlay-serializer:{f.oracle}:{position}", f"{data['overlay']}, {label}: {f.what}"))
            return {"found": out}
        got = sandbox.in_child(one)
        if "crash" in got:
            raise RuntimeError(got["crash"])
        seen: dict = {}
        for key, what in got["found"]:
            seen.setdefault(key, what)
        return [core.Violation(k, w) for k, w in sorted(seen.items())]
    elif kind == "sandbox":
        steps = [list(st) for st in data["steps"]]
        observed = [([["overlay", arg]], sandbox.run_config([["overlay", arg]]))
                    for arg in sorted({a for k, a in steps if k == "overlay"})]
        if len(steps) > 1:
            observed.append((steps, sandbox.run_config(steps)))
        for _st, obs in observed:
            if "crash" in obs:
                raise RuntimeError(obs["crash"])
        return sandbox_verdicts(observed)[0]
    elif kind == "registry":
        if data["format"] not in dom.serializer().get_available_formats():
            return [core.Violation(f"registry:missing:{data['format']}", "documented data type is not registered")]
        return []
    return keys_from(findings)
