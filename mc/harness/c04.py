"""
C04 - Onion circuits deliver data intact and never expose it in transit.

Fault enumeration on real TunnelCommunity nodes over SimNet (mc.tunnelworld).  One *bench* is a world with an
originator O, a second originator P, relays R1, R2 and an exit X, and three ready circuits of the same hop count h
over the same path: A (from O, the circuit under test), B (from O) and C (from P) - the splice targets.

A *case* is one message flow over circuit A plus at most one fault:

    flow   data   O -> outside            (forward leg only)
           reply  outside -> O            (backward leg only)
           ping   O -> X ping, X -> O pong
           test   O -> X test-request, X -> O test-response
           e2e-ds / e2e-sd   downloader -> seeder / seeder -> downloader over a linked hidden-service circuit
           <flow>@<shape>    the same with a payload that is not BitTorrent-shaped: opaque bytes, 00 01.. / 00 02..
                             (looks like IPv8), the tunnel overlay's own prefix + a cell message id (pfx1,2,4,6,8)
           retire            one party (exit, exit with destroy, last relay, originator) starts removing its part of
                             the circuit; a reply from outside and one more outbound cell are injected 0 / 2.5 / 4.9 /
                             5.1 s later and exactly k = 0..6 loop iterations after the 5 s grace timer came due
    fault  none (clean run with the complete oracle) or, applied to the cell of the flow that is in flight on link
           `link` of leg `leg`:  xor(pos, mask) | trunc | append | splice(B|C) | foreign(variant) | reflect |
           crosslink(j) | cleartext(msg id, plaintext flag) | via6(fault)
    Benches "dsX<h>" / "dsO<h>" put the exit / the originator on a real dual-stack DispatcherEndpoint (IPv4 + IPv6
    SimEndpoints); there every fault aimed at that node is delivered to its IPv4 address and (via6) to its IPv6 address,
    and `cleartext` sends a well-formed, unencrypted message of every cell message id with either flag value.
    Benches "anO<h>": O's application overlay prefix is anonymized on a TunnelEndpoint and the flow `anon` hands an IPv8
    packet to the real TunnelEndpoint.send (clean + fault menu on the resulting data cell).  Benches "aqO<h>" start
    without any circuit and run one *send history* each (flow `anonseq`): every sequence of <= 3 (thorough 4) packets to
    two destinations interleaved with prebuild / ready / remove / expire of the circuit (c04_ref.anon_histories); oracle:
    what leaves the exit is a sub-multiset of what was handed to send(), each at most once and bit-exact, everything
    handed over up to the last send that found a READY circuit has left exactly once, nothing readable on any link.
    Benches "teX<h>" / "teO<h>" / "seX<h>" / "seO<h>" put that node on TunnelEndpoint(SimEndpoint) resp.
    StatisticsEndpoint(SimEndpoint) and run the same clean, xor, foreign and cleartext cases.

Oracle (see notes/C04.md): clean runs - exact single delivery with the right destination/origin/circuit; on every link
the body has exactly h-link layers and peels to the reference plaintext with the originator's and with the nodes' own
session keys; no two cells share a body or a 16-byte window; plaintext/marker never on the wire; exactly the expected
cell-message handlers ran (tunnelled data is never interpreted as a control message); routing tables unchanged.
Retirement runs - every cell seen on a link of the circuit is properly layered, payloads never readable, deliveries
bit-exact (nothing has to be delivered).  Fault runs - the
faulty datagram has no effect anywhere (outside sockets, on_raw_data, ping/test completion), is not forwarded in the
forward direction, is never re-emitted with the same body, no exception reaches the loop; the untouched original
delivered afterwards still completes the flow exactly once.
"""
from __future__ import annotations

import sys
import traceback

from ipv8.messaging.anonymization.community import TunnelCommunity
from ipv8.messaging.anonymization.endpoint import TunnelEndpoint
from ipv8.messaging.anonymization.hidden_services import HiddenTunnelCommunity
from ipv8.messaging.anonymization.tunnel import (
    BACKWARD,
    CIRCUIT_STATE_READY,
    CIRCUIT_TYPE_RP_DOWNLOADER,
    CIRCUIT_TYPE_RP_SEEDER,
    FORWARD,
    PEER_FLAG_EXIT_BT,
    PEER_FLAG_EXIT_IPV8,
    PEER_FLAG_RELAY,
    PEER_FLAG_SPEED_TEST,
)
from ipv8.messaging.interfaces.dispatcher.endpoint import DispatcherEndpoint
from ipv8.messaging.interfaces.statistics_endpoint import StatisticsEndpoint
from ipv8.messaging.interfaces.udp.endpoint import DomainAddress, UDPv4Address, UDPv6Address
from ipv8_rust_tunnels import generate_session_keys

from .. import core, fixtures, seams
from ..ref import c04_ref as ref
from ..simnet import Datagram, SimEndpoint
from ..tunnelworld import TunnelWorld

LEVEL = "fault_enumeration"

RELAY_FLAGS = {PEER_FLAG_RELAY, PEER_FLAG_SPEED_TEST}
EXIT_FLAGS = {PEER_FLAG_RELAY, PEER_FLAG_SPEED_TEST, PEER_FLAG_EXIT_BT}
ROLES = {"O": RELAY_FLAGS, "P": RELAY_FLAGS, "R1": RELAY_FLAGS, "R2": RELAY_FLAGS, "X": EXIT_FLAGS}
PATHS = {1: ["X"], 2: ["R1", "X"], 3: ["R1", "R2", "X"]}
ORIGIN = {"A": "O", "B": "O", "C": "P"}
ANON_ROLES = {**ROLES, "X": EXIT_FLAGS | {PEER_FLAG_EXIT_IPV8}}
E2E_ROLES = {"D": RELAY_FLAGS, "S": RELAY_FLAGS, "N1": RELAY_FLAGS, "N2": RELAY_FLAGS, "N3": RELAY_FLAGS,
             "E": EXIT_FLAGS | {PEER_FLAG_EXIT_IPV8}}
E2E_PATH = ["D", "N3", "N2", "S"]      # downloader, its relay, the rendezvous point, seeder
E2E_LAYERS = [3, 2, 2]                 # D-N3: N3 + RP + e2e;  N3-RP: RP + e2e;  RP-S: RP (seeder side) + e2e

RESOLVED = "9.9.8.8"
DESTS = {"v4": ("v4", "9.9.9.9", 99), "v6": ("v6", "2001:db8::9", 99), "dom": ("dom", "tracker.example", 99)}

QUICK_SIZES = [0, 1, 22, 23, 24, 279, 1000, 1400]
MASKS = (0x01, 0x80)
HEADER_MASKS_THOROUGH = (0x01, 0x02, 0x04, 0x08, 0x10, 0x20, 0x40, 0x80, 0xFF)
FOREIGN_VARIANTS = ("layers", "one-layer", "plainflag", "rawbody", "unknown-cid")
OVH = len(generate_session_keys(b"\x00" * 64).encrypt_str(b"", FORWARD))   # bytes one layer adds (nonce + tag)

# The relay_early byte is link-level metadata that no key authenticates (it only meters EXTEND cells): flipping it
# leaves the data untouched.  The statement's "altered data is never delivered" is read as: for this byte the cell is
# either dropped or delivered bit-exact.  Set to True to demand a drop for this byte too.
STRICT_RELAY_EARLY = False

MAX_BAD_PER_GROUP = 3
KNOWN_RELAY_EARLY = "fault-delivered|alter:relay_early-flag-unauthenticated"   # listed in known_findings.json

DUAL_BENCHES = ("dsX1", "dsX2", "dsO1", "dsO2")   # exit X / originator O on a dual-stack DispatcherEndpoint, 1 and 2 hops
# ... on TunnelEndpoint(SimEndpoint) (what ipv8_service hands out once an overlay is anonymized) and on
# StatisticsEndpoint(SimEndpoint) (statistics enabled): wrappers through which setup_tunnels must still unregister
# the community as a raw listener
WRAP_BENCHES = ("teX1", "teX2", "teO1", "teO2", "seX1", "seX2", "seO1", "seO2")

RETIRE_VARIANTS = ("exit", "exit-destroy", "relay", "origin")
RETIRE_OFFSETS = (0.0, 2.5, 4.9, 5.1)       # seconds after the removal started (remove_tunnel_delay is 5 s)
RETIRE_ITERATIONS = 7                       # and: exactly k loop iterations after the 5 s timer came due, k = 0..6
ANON_BENCHES = ("anO1", "anO2")      # O on a TunnelEndpoint with an anonymized application prefix; X exits IPv8 packets
ANONSEQ_BENCHES = ("aqO1", "aqO2")   # the same without any circuit: one fresh world per send history
ANON_DESTS = {"A": ("v4", "9.9.9.9", 99), "B": ("v4", "8.8.8.8", 88)}
EXPECTED_HANDLERS = {"anon": [("X", 1)], "data": [("X", 1)], "reply": [("O", 1)], "ping": [("X", 6), ("O", 7)],
                     "test": [("X", 19), ("O", 20)], "e2e-ds": [("S", 1)], "e2e-sd": [("D", 1)]}


class RecTunnel(TunnelCommunity):
    """The real community; on_raw_data (a documented no-op hook for subclasses) records what reaches the originator."""

    def __init__(self, settings) -> None:  # noqa: ANN001
        super().__init__(settings)
        self.raw_log: list = []

    def on_raw_data(self, circuit, origin, data) -> None:  # noqa: ANN001
        self.raw_log.append((circuit, origin, data))


class RecHidden(HiddenTunnelCommunity):
    def __init__(self, settings) -> None:  # noqa: ANN001
        super().__init__(settings)
        self.raw_log: list = []

    def on_raw_data(self, circuit, origin, data) -> None:  # noqa: ANN001
        self.raw_log.append((circuit, origin, data))


class StubDHT:
    """The in-world stand-in for the DHT the hidden-service code announces introduction points to."""

    def __init__(self) -> None:
        self.store: dict = {}

    async def peer_lookup(self, mid: bytes, peer=None) -> None:  # noqa: ANN001
        return None

    async def lookup(self, info_hash: bytes):  # noqa: ANN201
        return info_hash, list(self.store.get(info_hash, []))

    async def announce(self, info_hash: bytes, intro_point) -> None:  # noqa: ANN001
        self.store.setdefault(info_hash, []).append(intro_point)


def _addr_obj(a: tuple):  # noqa: ANN202
    kind, host, port = a
    return {"v4": UDPv4Address, "v6": UDPv6Address, "dom": DomainAddress}[kind](host, port)


class HarnessError(Exception):
    pass


class Flow:
    """State of one launched flow."""

    def __init__(self, kind: str, size: int, dk: str) -> None:
        self.kind, _, self.shape = kind.partition("@")     # "data@pfx1": flow data, payload shape pfx1
        self.size = size
        self.dk = dk
        self.pt: dict[str, bytes | None] = {"f": None, "b": None}   # reference plaintext message per leg
        self.payload = b""
        self.secrets: list[bytes] = []       # byte strings that must never be visible on the wire
        self.ident: int | None = None
        self.future = None
        self.urandom_mark = 0
        self.expected_dest = None
        self.expected_origin = None
        self.tables0 = None
        self.raw_target: tuple | None = None   # (node name, Circuit object) whose on_raw_data must see the payload


class Bench:
    def __init__(self, h: int, seed: int) -> None:
        self.h = h
        self.seed = seed
        self.salt = seed
        self.nlinks = 3 if h == "e2e" else h
        self.w = self.make_world()
        self.urandom_log: list[bytes] = []
        self.last_held_len = -1
        self.handler_log: list = []
        self.spent = False          # a retire case destroys circuit A: the world cannot be reused
        self._orig_read = seams.URANDOM.read
        seams.URANDOM.read = self._recording_read
        try:
            self._setup()
        except BaseException:
            self.close()
            raise

    # -- construction -------------------------------------------------------------------------------------------------
    def make_world(self) -> TunnelWorld:
        return TunnelWorld(("c04", self.seed, self.h), ROLES, community_cls=RecTunnel, key_offset=self.seed % 8)

    def _recording_read(self, n: int) -> bytes:
        out = self._orig_read(n)
        self.urandom_log.append(out)
        return out

    def _setup(self) -> None:
        w, h = self.w, self.h
        w.loop.resolver["tracker.example"] = [RESOLVED]
        self.prefix = w.ov["O"].get_prefix()
        self.names = {ci: [ORIGIN[ci], *PATHS[h]] for ci in "ABC"}
        self.addr = {ci: [tuple(w.nodes[n].address) for n in self.names[ci]] for ci in "ABC"}
        self.circ = {}
        for ci in "ABC":
            self.circ[ci] = w.build_circuit(ORIGIN[ci], PATHS[h])
        w.run_for(6.0)   # lets the relays retire the exit sockets they held while the circuit was being extended
        for ci, c in self.circ.items():
            if c.state != CIRCUIT_STATE_READY or len(c.hops) != h:
                raise HarnessError(f"circuit {ci} not ready after the fault-free build (h={h})")
        # learn the per-link circuit ids from one clean packet per circuit, and find the exit sockets
        self.link_cid: dict[str, list[int]] = {}
        self.exit_sock = {}
        for ci in "ABC":
            self.reset_logs()
            w.send_out(ORIGIN[ci], self.circ[ci], _addr_obj(DESTS["v4"]), ref.payload(64, self.salt))
            w.flush()
            cells = [ref.parse_cell(self.prefix, dg.data) for dg in w.wire_log]
            if len(cells) != h or any(c is None for c in cells) or len(w.loop.outside_log) != 1:
                raise HarnessError(f"warm-up packet on circuit {ci} did not cross {h} links and exit once "
                                   f"(cells={len(cells)}, exited={len(w.loop.outside_log)})")
            self.link_cid[ci] = [c[0] for c in cells]
            es = w.ov["X"].exit_sockets.get(self.link_cid[ci][-1])
            if es is None or es.transport_ipv4 is None or es.transport_ipv6 is None:
                raise HarnessError(f"no open exit socket for circuit {ci}")
            self.exit_sock[ci] = es
        # use up the relay_early budget (the first cells of a circuit carry the flag) so that later cells are uniform
        for ci in "ABC":
            for _ in range(10):
                w.send_out(ORIGIN[ci], self.circ[ci], _addr_obj(DESTS["v4"]), ref.payload(64, self.salt))
                self.exit_sock[ci].transport_ipv4.inject(ref.payload(64, self.salt), DESTS["v4"][1:])
                w.flush()
        # white box: everybody's session keys
        self.okeys = {ci: [hop.keys for hop in self.circ[ci].hops] for ci in "ABC"}
        self.nkeys = {}
        for ci in "ABC":
            ks = []
            for k in range(1, h + 1):
                ov = w.ov[self.names[ci][k]]
                cid_in = self.link_cid[ci][k - 1]
                if k < h:
                    ks.append(ov.relay_from_to[cid_in].hop.keys)
                else:
                    ks.append(ov.exit_sockets[cid_in].hop.keys)
            self.nkeys[ci] = ks
        self.foreign_keys = [generate_session_keys(bytes([0xC4 + i]) * 64) for i in range(3)]
        if w.loop.exceptions:
            raise HarnessError(f"exceptions during the fault-free build: {w.loop.exceptions[:1]}")
        self.watch_handlers()
        self.reset_logs()

    def watch_handlers(self) -> None:
        """Record every dispatch to a cell-message handler (decode_map_private) of every overlay."""
        for name, ov in self.w.ov.items():
            for mid, fn in list(ov.decode_map_private.items()):
                ov.decode_map_private[mid] = self._recorder(name, mid, fn)

    def _recorder(self, name: str, mid: int, fn):  # noqa: ANN001, ANN202
        def handler(*a, **kw):  # noqa: ANN002, ANN003, ANN202
            self.handler_log.append((name, mid))
            return fn(*a, **kw)
        return handler

    def payload_for(self, fl: Flow, salt: int) -> bytes:
        if fl.shape:
            return ref.shaped_payload(fl.shape, salt, self.prefix)
        return ref.payload(fl.size, salt)

    def close(self) -> None:
        if seams.URANDOM.__dict__.get("read") is not None:
            del seams.URANDOM.read
        self.w.close()

    # -- plumbing -----------------------------------------------------------------------------------------------------
    def reset_logs(self) -> None:
        w = self.w
        del w.wire_log[:]
        del w.dropped[:]
        del w.undeliverable[:]
        del w.loop.outside_log[:]
        del self.urandom_log[:]
        del self.handler_log[:]
        for t in w.loop.transports:
            del t.sent[:]
        for ov in w.ov.values():
            del ov.raw_log[:]

    def pump(self, capture: tuple | None = None):  # noqa: ANN201
        """Deliver FIFO until quiet; hold (do not deliver) the first datagram travelling capture=(src, dst)."""
        w = self.w
        held = None
        w.loop.settle()
        n = 0
        while w.inflight:
            dg = w.inflight.pop(0)
            if capture is not None and held is None and (tuple(dg.src), tuple(dg.dst)) == capture:
                held = dg
                continue
            w.deliver_datagram(dg)
            n += 1
            if n > 10000:
                raise HarnessError("network did not go quiet")
        return held

    def link_pair(self, ci: str, leg: str, link: int) -> tuple:
        a = self.addr[ci]
        return (a[link], a[link + 1]) if leg == "f" else (a[link + 1], a[link])

    # -- what the path looks like (overridden for e2e circuits) --------------------------------------------------------
    def layers(self, link: int) -> int:
        return self.h - link

    def peel_plans(self, leg: str, link: int) -> list:
        """[(whose keys, [(SessionKeys, direction), ...])]: the layers to remove, outermost first, to reach the message."""
        dirn = FORWARD if leg == "f" else BACKWARD
        return [("originator", [(k, dirn) for k in self.okeys["A"][link:]]),
                ("node", [(k, dirn) for k in self.nkeys["A"][link:]])]

    def v6_address_of_receiver(self, leg: str, link: int) -> tuple:
        raise HarnessError("no dual-stack node in this world")

    def may_follow(self, ci: str, travel: str, at: int) -> list:
        """Datagrams a node that cannot authenticate the cell may still emit after a faulty cell entered link `at`:
        none in the forward direction (every hop authenticates its own layer); backward, relays only add a layer."""
        if travel == "f":
            return []
        return [(self.addr[ci][at - k], self.addr[ci][at - k - 1]) for k in range(at)]

    # -- flows --------------------------------------------------------------------------------------------------------
    def launch(self, kind: str, size: int, dk: str) -> Flow:
        w = self.w
        fl = Flow(kind, size, dk)
        ov = w.ov["O"]
        c = self.circ["A"]
        es = self.exit_sock["A"]
        if size < 2 and kind in ("data", "reply"):
            es.is_allowed = lambda data: True     # no 0/1-byte datagram can pass the exit policy (C06's subject)
        elif "is_allowed" in es.__dict__:
            del es.is_allowed
        kind = fl.kind
        if kind == "data":
            fl.payload = self.payload_for(fl, self.salt)
            dest = DESTS[dk]
            fl.pt["f"] = ref.msg_data(dest, ref.ZERO, fl.payload)
            fl.expected_dest = ((RESOLVED if dk == "dom" else dest[1], dest[2]), "v6" if dk == "v6" else "v4")
            fl.secrets = [fl.payload] if len(fl.payload) >= 8 else []
            w.send_out("O", c, _addr_obj(dest), fl.payload)
        elif kind == "anon":     # the application hands an IPv8 packet of its anonymized overlay to TunnelEndpoint.send
            fl.payload = ref.anon_packet(max(1, size), self.salt)
            dest = DESTS[dk]
            fl.pt["f"] = ref.msg_data(dest, ref.ZERO, fl.payload)
            fl.expected_dest = ((dest[1], dest[2]), "v6" if dk == "v6" else "v4")
            fl.secrets = [fl.payload]
            w.nodes["O"].run(ov.endpoint.send, _addr_obj(dest), fl.payload)
        elif kind == "reply":
            fl.payload = ref.payload(size, self.salt + 1)
            src = DESTS[dk]
            fl.pt["b"] = ref.msg_data(ref.ZERO, src, fl.payload)
            fl.expected_origin = _addr_obj(src)
            fl.raw_target = ("O", c)
            fl.secrets = [fl.payload] if size >= 8 else []
            if dk == "v6":
                es.transport_ipv6.inject(fl.payload, (src[1], src[2], 0, 0))
            else:
                es.transport_ipv4.inject(fl.payload, (src[1], src[2]))
        elif kind == "ping":
            before = set(ov.request_cache._identifiers)
            w.nodes["O"].run(ov.do_ping, exclude=[self.circ["B"].circuit_id])
            new = [ov.request_cache._identifiers[k] for k in set(ov.request_cache._identifiers) - before]
            if len(new) != 1 or new[0].prefix != "ping":
                raise HarnessError(f"do_ping created {len(new)} caches")
            fl.ident = new[0].number
            fl.pt["f"] = ref.msg_ping(fl.ident)
            fl.pt["b"] = ref.msg_pong(fl.ident)
        elif kind == "test":
            fl.future = w.nodes["O"].run(ov.send_test_request, c, size, size)
            new = [v for v in ov.request_cache._identifiers.values() if getattr(v, "future", None) is fl.future]
            if len(new) != 1 or len(self.urandom_log[-1]) != size:
                raise HarnessError("send_test_request bookkeeping")
            fl.ident = new[0].number
            fl.payload = self.urandom_log[-1]
            fl.urandom_mark = len(self.urandom_log)
            fl.pt["f"] = ref.msg_test_request(fl.ident, size, fl.payload)
            fl.secrets = [fl.payload] if size >= 8 else []
        else:
            raise HarnessError(kind)
        return fl

    def test_response_data(self, fl: Flow) -> bytes | None:
        later = self.urandom_log[fl.urandom_mark:]
        return later[0] if later else None

    def legs(self, kind: str) -> tuple:
        return {"data": ("f",), "reply": ("b",), "ping": ("f", "b"), "test": ("f", "b"),
                "e2e-ds": ("f",), "e2e-sd": ("b",), "anon": ("f",)}[kind]

    def deliveries(self, fl: Flow) -> tuple[int, list[str]]:
        """(number of completed deliveries of this flow, list of problems with anything delivered anywhere)."""
        w = self.w
        bad: list[str] = []
        n = 0
        out = list(w.loop.outside_log)
        raws = {name: list(ov.raw_log) for name, ov in w.ov.items()}
        if fl.kind in ("data", "anon"):
            (host, port), fam = fl.expected_dest
            want_tr = self.exit_sock["A"].transport_ipv6 if fam == "v6" else self.exit_sock["A"].transport_ipv4
            for tr, data, addr in out:
                if tr is want_tr and data == fl.payload and tuple(addr) == (host, port):
                    n += 1
                else:
                    bad.append(f"outside socket of {tr.owner.name if tr.owner else '?'} {tr.local_addr} emitted "
                               f"{len(data)} bytes to {tuple(addr)} ({'same' if data == fl.payload else 'DIFFERENT'} "
                               f"bytes; expected {len(fl.payload)} bytes to {(host, port)} on the {fam} socket)")
            out = []
        if out:
            bad.append(f"{len(out)} datagram(s) left an exit socket although nothing was sent outward: "
                       f"{[(len(d), tuple(a)) for _, d, a in out][:3]}")
        if fl.raw_target is not None:
            rname, rcirc = fl.raw_target
            for circuit, origin, data in raws.pop(rname):
                if (circuit is rcirc and data == fl.payload and type(origin) is type(fl.expected_origin)
                        and tuple(origin) == tuple(fl.expected_origin)):
                    n += 1
                else:
                    bad.append(f"{rname}.on_raw_data(circuit={'the right one' if circuit is rcirc else 'ANOTHER'}, "
                               f"origin={origin!r}, {len(data)} bytes "
                               f"{'same' if data == fl.payload else 'DIFFERENT'}); expected the circuit under test, "
                               f"origin {fl.expected_origin!r}")
        for name, entries in raws.items():
            if entries:
                bad.append(f"{name}.on_raw_data got {len(entries)} datagram(s) it should never see")
        if fl.kind == "ping":
            n = 0 if w.ov["O"].request_cache.has("ping", fl.ident) else 1
        if fl.kind == "test" and fl.future.done():
            n = 1
            got = fl.future.result()[0]
            want = self.test_response_data(fl)
            if got != want:
                bad.append(f"test-response future resolved with {len(got)} bytes that differ from the "
                           f"{len(want) if want is not None else 'no'} bytes the exit generated")
        return n, bad

    # -- the clean oracle ---------------------------------------------------------------------------------------------
    def check_clean(self, fl: Flow) -> tuple[list, str]:
        w, h = self.w, self.h
        v: list = []
        tag = fl.kind
        self.pump()
        legs = self.legs(fl.kind)
        if fl.kind == "test":
            data = self.test_response_data(fl)
            fl.pt["b"] = ref.msg_test_response(fl.ident, data if data is not None else b"")
            if data is not None and len(data) >= 8:
                fl.secrets.append(data)
        nl = self.nlinks
        expect = [(leg, link) for leg in legs for link in (range(nl) if leg == "f" else range(nl - 1, -1, -1))]
        wire = list(w.wire_log)
        cells = []
        if len(wire) != len(expect):
            v.append(("clean:wire-shape", f"h={h} {tag}: expected {len(expect)} cells on the wire, saw {len(wire)}: "
                      f"{[(d.src[0], d.dst[0], len(d.data)) for d in wire][:8]}"))
        for (leg, link), dg in zip(expect, wire):
            f = ref.parse_cell(self.prefix, dg.data)
            pair = self.link_pair("A", leg, link)
            if f is None or (tuple(dg.src), tuple(dg.dst)) != pair:
                v.append(("clean:wire-shape", f"h={h} {tag}: datagram {leg}{link} travels {dg.src}->{dg.dst}, expected "
                          f"{pair}, cell={f is not None}"))
                continue
            cid, plain, _early, body = f
            cells.append((leg, link, body))
            pt = fl.pt[leg]
            if cid != self.link_cid["A"][link]:
                v.append((f"clean:circuit-id|{leg}", f"h={h} {tag} link {link} carries circuit id {cid}, expected "
                          f"{self.link_cid['A'][link]}"))
            if plain:
                v.append((f"clean:plaintext-flag|{leg}", f"h={h} {tag}: cell on link {link} has the plaintext flag set"))
            layers = self.layers(link)
            if len(body) != len(pt) + OVH * layers:
                v.append((f"clean:layer-count|{leg}", f"h={h} {tag} link {link}: body is {len(body)} bytes, "
                          f"{len(pt)}-byte message under {layers} layer(s) should be {len(pt) + OVH * layers}"))
            for who, plan in self.peel_plans(leg, link):
                try:
                    b = body
                    for k, dirn in plan:
                        b = k.decrypt_str(b, dirn)
                    ok = b == pt
                    err = "" if ok else f"peeled to {len(b)} bytes != reference message ({len(pt)} bytes)"
                except (ValueError, RuntimeError) as e:
                    ok, err = False, f"{type(e).__name__}: {e}"
                if not ok:
                    v.append((f"clean:layers|{leg}", f"h={h} {tag} link {link}: removing the {layers} layer(s) of "
                              f"the remaining hops with the {who}-held keys fails: {err}"))
        for i in range(len(cells)):
            for j in range(i + 1, len(cells)):
                (l1, k1, b1), (l2, k2, b2) = cells[i], cells[j]
                if b1 == b2:
                    v.append(("clean:same-ciphertext", f"h={h} {tag}: links {l1}{k1} and {l2}{k2} carry the same "
                              f"cell body ({len(b1)} bytes)"))
                else:
                    off = ref.common_window(b1, b2)
                    if off is not None:
                        v.append(("clean:same-ciphertext-window", f"h={h} {tag}: 16 bytes at offset {off} of the "
                                  f"body on {l1}{k1} also occur in the body on {l2}{k2}"))
        for dg in wire:
            for s in fl.secrets:
                if s in dg.data:
                    v.append(("clean:plaintext-on-wire", f"h={h} {tag}: the {len(s)}-byte payload is readable in the "
                              f"datagram {dg.src[0]}->{dg.dst[0]}"))
            if ref.MARKER in dg.data or any(p is not None and len(p) >= 8 and p in dg.data for p in fl.pt.values()):
                v.append(("clean:plaintext-on-wire", f"h={h} {tag}: marker/plaintext message readable in the datagram "
                          f"{dg.src[0]}->{dg.dst[0]}"))
        n, bad = self.deliveries(fl)
        what = f"h={h} size={len(fl.payload)} {fl.dk}{' shape=' + fl.shape if fl.shape else ''}"
        for b in bad:
            v.append((f"clean:wrong-delivery|{tag}", f"{what}: {b}"))
        if n != 1:
            v.append((f"clean:delivered-{'never' if n == 0 else 'twice'}|{tag}",
                      f"{what}: flow completed {n} times, expected exactly once"))
        if sorted(self.handler_log) != sorted(EXPECTED_HANDLERS[fl.kind]):
            v.append(("clean:handler-calls", f"{what} {tag}: cell-message handlers that ran (node, msg id): "
                      f"{self.handler_log}; expected exactly {EXPECTED_HANDLERS[fl.kind]} - tunnelled data must "
                      f"never be interpreted as a control message"))
        if w.tables() != fl.tables0:
            v.append(("clean:table-change", f"{what} {tag}: circuit/relay/exit tables changed from {fl.tables0} to "
                      f"{w.tables()}"))
        v.extend(self.loop_exceptions(tag, "clean"))
        return v, f"delivered-{n}"

    def loop_exceptions(self, tag: str, phase: str) -> list:
        w = self.w
        if not w.loop.exceptions:
            return []
        excs = list(w.loop.exceptions)
        del w.loop.exceptions[:]
        e = excs[0].get("exception")
        name = type(e).__name__ if e is not None else "message"
        txt = ("".join(traceback.format_exception(e))[-900:] if e is not None else str(excs[0].get("message")))
        return [(f"loop-exception|{name}|{phase}", f"{len(excs)} exception(s) reached the event loop ({tag}): {txt}")]

    # -- retirement -----------------------------------------------------------------------------------------------------
    def run_anonseq(self, history: str) -> tuple[list, str]:
        raise HarnessError("send histories need an AnonSeqBench")

    def run_retire(self, size: int, dk: str, variant: str, offset) -> tuple[list, str]:  # noqa: ANN001
        """
        Circuit A has carried traffic (exit socket enabled, transports open).  One party starts removing its part of
        the circuit with the default remove_tunnel_delay; `offset` seconds later (or, "iK", exactly K loop iterations
        after the 5 s grace timer came due) a reply arrives from outside on every transport of the exit socket that is
        still open, and the originator - if it still regards the circuit as READY - sends one more data cell.
        Whatever then appears on a link of circuit A must be a properly layered cell, and whatever is delivered must
        be bit-exact; nothing has to be delivered (the circuit is going away).
        """
        w, h = self.w, self.h
        self.spent = True
        self.reset_logs()
        del w.loop.exceptions[:]
        names, addr, cids = self.names["A"], self.addr["A"], self.link_cid["A"]
        c, es = self.circ["A"], self.exit_sock["A"]
        ov_o, ov_x = w.ov["O"], w.ov["X"]
        t4, t6 = es.transport_ipv4, es.transport_ipv6
        p_out, p4, p6 = ref.payload(size, self.salt), ref.payload(size, self.salt + 1), ref.payload(size, self.salt + 2)
        src4, src6 = DESTS["v4"], DESTS["v6"]
        if variant == "exit":            # what do_remove does for an idle / old / over-used exit socket
            w.nodes["X"].run(ov_x.remove_exit_socket, cids[-1], "no activity")
        elif variant == "exit-destroy":
            w.nodes["X"].run(ov_x.remove_exit_socket, cids[-1], "traffic limit exceeded", destroy=1)
        elif variant == "relay":         # the relay next to the exit forgets both directions, tells nobody
            if h < 2:
                raise HarnessError("no relay in a 1-hop circuit")
            ov_r = w.ov[names[h - 1]]
            w.nodes[names[h - 1]].run(ov_r.remove_relay, cids[h - 2], "no activity")
            w.nodes[names[h - 1]].run(ov_r.remove_relay, cids[h - 1], "no activity")
        elif variant == "origin":
            w.nodes["O"].run(ov_o.remove_circuit, c.circuit_id, "unneeded", destroy=1)
        else:
            raise HarnessError(variant)
        t0 = w.loop.time()
        self.pump()                      # destroy messages travel now
        stepped = isinstance(offset, str)
        if stepped:
            k = int(offset[1:])
            w.run_for(4.999)
            seams.CLOCK.set(t0 + w.ov["X"].settings.remove_tunnel_delay)
            for _ in range(k):
                w.loop.iteration()
            phase = "closing"
        else:
            w.run_for(float(offset))
            phase = "grace" if offset < w.ov["X"].settings.remove_tunnel_delay else "after"
        injected = []
        if t4 is not None and not t4.closed:
            t4.inject(p4, (src4[1], src4[2]))
            injected.append("v4")
        if t6 is not None and not t6.closed:
            t6.inject(p6, (src6[1], src6[2], 0, 0))
            injected.append("v6")
        w.loop.iteration()               # the datagrams from outside are handled in this very iteration
        self.pump()
        sent = False
        if c.circuit_id in ov_o.circuits and c.state == CIRCUIT_STATE_READY:
            w.send_out("O", c, _addr_obj(src4), p_out)
            self.pump()
            sent = True
        w.run_for(1.0)
        where = (f"h={h} retirement by {variant}, probe {offset if stepped else f'{offset}s'} after it started "
                 f"(replies injected on {injected or 'no open socket'}, originator {'sent' if sent else 'did not send'})")
        v: list = []
        link_of = {}
        for i in range(h):
            link_of[(addr[i], addr[i + 1], cids[i])] = ("f", i)
            link_of[(addr[i + 1], addr[i], cids[i])] = ("b", i)
        expected = {"f": {ref.msg_data(src4, ref.ZERO, p_out)},
                    "b": {ref.msg_data(ref.ZERO, src4, p4), ref.msg_data(ref.ZERO, src6, p6)}}
        n_cells = 0
        for dg in w.wire_log:
            if ref.MARKER in dg.data or any(len(p) >= 8 and p in dg.data for p in (p_out, p4, p6)):
                v.append((f"retire:plaintext-on-wire|{phase}", f"{where}: the payload is readable in the datagram "
                          f"{dg.src[0]}->{dg.dst[0]} ({len(dg.data)} bytes)"))
            f = ref.parse_cell(self.prefix, dg.data)
            if f is None or (tuple(dg.src), tuple(dg.dst), f[0]) not in link_of:
                continue
            leg, link = link_of[(tuple(dg.src), tuple(dg.dst), f[0])]
            n_cells += 1
            if f[1]:
                v.append((f"retire:plaintext-flag|{phase}", f"{where}: cell with the plaintext flag on {leg}{link}"))
                continue
            try:
                msg = f[3]
                for key in self.okeys["A"][link:]:
                    msg = key.decrypt_str(msg, FORWARD if leg == "f" else BACKWARD)
            except (ValueError, RuntimeError) as e:
                v.append((f"retire:cell-not-layered|{phase}", f"{where}: the {len(f[3])}-byte body on {leg}{link} "
                          f"({dg.src[0]}->{dg.dst[0]}) does not carry the {h - link} layer(s) of the remaining hops "
                          f"({type(e).__name__}: {e})"))
                continue
            if not ((len(msg) == 3 and msg[0] in (6, 7)) or msg in expected[leg]):
                v.append((f"retire:unexpected-message|{phase}", f"{where}: cell on {leg}{link} peels to an unexpected "
                          f"{len(msg)}-byte message starting {msg[:1].hex()}"))
        n_out = n_raw = 0
        for tr, data, a in w.loop.outside_log:
            if tr is t4 and data == p_out and tuple(a) == (src4[1], src4[2]) and n_out == 0:
                n_out += 1
            else:
                v.append((f"retire:wrong-delivery|{phase}", f"{where}: an outside socket emitted {len(data)} bytes to "
                          f"{tuple(a)} ({'same' if data == p_out else 'DIFFERENT'} bytes, delivery #{n_out + 1})"))
        seen = set()
        for name, ov in w.ov.items():
            for circuit, origin, data in ov.raw_log:
                ok4 = data == p4 and type(origin) is UDPv4Address and tuple(origin) == (src4[1], src4[2])
                ok6 = data == p6 and type(origin) is UDPv6Address and tuple(origin) == (src6[1], src6[2])
                if name == "O" and circuit is c and (ok4 or ok6) and (ok4, ok6) not in seen:
                    seen.add((ok4, ok6))
                    n_raw += 1
                else:
                    v.append((f"retire:wrong-delivery|{phase}", f"{where}: {name}.on_raw_data(origin={origin!r}, "
                              f"{len(data)} bytes) is not one of the injected replies, once, on circuit A"))
        v.extend(self.loop_exceptions("retire", f"retire-{phase}"))
        return v, f"{'+'.join(injected) or 'closed'}-sent{int(sent)}-out{n_out}-raw{n_raw}-cells{n_cells}"

    # -- faults -------------------------------------------------------------------------------------------------------
    def fault_datagram(self, fl: Flow, held: Datagram, leg: str, link: int, fault: list):  # noqa: ANN201
        """-> (Datagram to deliver, circuit it now claims to belong to, entry link, direction it travels)."""
        kind = fault[0]
        if kind == "via6":       # the inner fault, but the datagram arrives on the receiver's IPv6 interface
            fdg, ci, at, travel = self.fault_datagram(fl, held, leg, link, fault[1])
            fdg.dst = self.v6_address_of_receiver(leg, link)
            return fdg, ci, at, travel
        data = held.data
        src, dst = tuple(held.src), tuple(held.dst)
        ci, at, travel = "A", link, leg
        if kind == "cleartext":  # a well-formed message of kind fault[1], not encrypted at all, plaintext flag fault[2]
            evil = ref.payload(40, self.salt + 7)
            data_msg = (ref.msg_data(DESTS["v4"], ref.ZERO, evil) if leg == "f"
                        else ref.msg_data(ref.ZERO, DESTS["v4"], evil))
            body = ref.wellformed_message(fault[1], data_msg, fixtures.public_bin(11))
            data = ref.make_cell(self.prefix, self.link_cid["A"][link], body, bool(fault[2]))
        elif kind == "xor":
            pos, mask = fault[1], fault[2]
            data = data[:pos] + bytes([data[pos] ^ mask]) + data[pos + 1:]
        elif kind == "trunc":
            data = data[:-1]
        elif kind == "append":
            data = data + b"\x00"
        elif kind == "splice":
            ci = fault[1]
            cid = self.link_cid[ci][link]
            data = ref.make_cell(self.prefix, cid, data[ref.HEADER_LEN:], bool(data[ref.POS_PLAINTEXT]),
                                 bool(data[ref.POS_RELAY_EARLY]))
            src, dst = self.link_pair(ci, leg, link)
        elif kind == "reflect":
            src, dst = dst, src
            travel = "b" if leg == "f" else "f"
        elif kind == "crosslink":
            at = fault[1]
            data = ref.make_cell(self.prefix, self.link_cid["A"][at], data[ref.HEADER_LEN:])
            src, dst = self.link_pair("A", leg, at)
        elif kind == "foreign":
            var = fault[1]
            msg = fl.pt[leg]
            dirn = FORWARD if leg == "f" else BACKWARD
            cid = self.link_cid["A"][link]
            layers = self.layers(link)
            plain = False
            if var == "layers":
                body = msg
                for i in range(layers):
                    body = self.foreign_keys[i].encrypt_str(body, dirn)
            elif var == "one-layer":
                body = self.foreign_keys[0].encrypt_str(msg, dirn)
            elif var == "plainflag":
                body, plain = msg, True
            elif var == "rawbody":
                body = msg
            elif var == "unknown-cid":
                cid ^= 0x5A5A5A5A
                body = msg
                for i in range(layers):
                    body = self.foreign_keys[i].encrypt_str(body, dirn)
            else:
                raise HarnessError(var)
            data = ref.make_cell(self.prefix, cid, body, plain)
        else:
            raise HarnessError(kind)
        return Datagram(-1, src, dst, data, None, f"fault:{kind}"), ci, at, travel

    def run_case(self, case: list) -> tuple[list, str]:
        """case = [flow, size, dest-kind, leg, link, fault|None] -> (violations [(key, what)], outcome class)."""
        kind, size, dk, leg, link, fault = case
        w, h = self.w, self.h
        if kind == "retire":
            return self.run_retire(size, dk, leg, link)
        if kind == "anonseq":
            return self.run_anonseq(leg)
        self.reset_logs()
        del w.loop.exceptions[:]
        tables0 = w.tables()
        fl = self.launch(kind, size, dk)
        fl.tables0 = tables0
        if fault is None:
            return self.check_clean(fl)
        core_fault = fault[1] if fault[0] == "via6" else fault
        family = {"xor": "alter", "trunc": "alter", "append": "alter", "splice": "splice", "crosslink": "splice",
                  "reflect": "reflect", "foreign": "foreign", "cleartext": "foreign"}[core_fault[0]]
        tag = f"{kind}:{leg}"
        v: list = []
        held = self.pump(capture=self.link_pair("A", leg, link))
        if held is None:
            return [("after-fault:original-lost", f"h={h} {kind}: no cell appeared on link {link} of leg {leg}")], "x"
        if fl.kind == "test" and leg == "b":
            data = self.test_response_data(fl)
            fl.pt["b"] = ref.msg_test_response(fl.ident, data if data is not None else b"")
        self.last_held_len = len(held.data)
        if core_fault[0] == "xor" and core_fault[1] >= len(held.data):
            raise HarnessError(f"xor position {core_fault[1]} beyond the {len(held.data)}-byte cell")
        n0, bad0 = self.deliveries(fl)
        if n0 or bad0:
            return [(f"harness:early-delivery|{kind}:{leg}", f"delivered before the held cell arrived: {bad0}")], "x"
        n_wire = len(w.wire_log)
        n_handlers = len(self.handler_log)
        fdg, ci, at, travel = self.fault_datagram(fl, held, leg, link, fault)
        w.deliver_datagram(fdg)
        self.pump()
        where = f"h={h} size={size} {dk} {kind} leg={leg} link={link} fault={fault}"
        lenient = (not STRICT_RELAY_EARLY) and core_fault[0] == "xor" and core_fault[1] == ref.POS_RELAY_EARLY
        n1, bad1 = self.deliveries(fl)
        for b in bad1:
            v.append((f"fault-delivered|{family}", f"{where}: {b}"))
        if n1 and not lenient:
            v.append((f"fault-delivered|{family}", f"{where}: the faulty datagram completed the flow ({n1}x): altered or "
                      f"foreign data was accepted"))
        elif n1 and lenient:
            # literal reading of the statement: *any* altered byte must lead to a drop. The relay_early header flag is
            # authenticated by no key, so this one is a genuine (protocol-level) defect; it has its own key so that it
            # can be listed in known_findings.json without hiding any other accepted alteration.
            v.append(("fault-delivered|alter:relay_early-flag-unauthenticated",
                      f"{where}: a cell whose relay_early header byte (offset {ref.POS_RELAY_EARLY}) was flipped in "
                      f"flight was not dropped (its data arrived bit-exact)"))
        new = w.wire_log[n_wire:]
        fbody = fdg.data[ref.HEADER_LEN:]
        if not (lenient and n1):
            ran = self.handler_log[n_handlers:]
            if ran:
                v.append((f"fault-delivered|{family}", f"{where}: the faulty datagram was dispatched to cell-message "
                          f"handler(s) (node, msg id) {ran}: it passed for a cell that came out of the circuit"))
            if w.tables() != fl.tables0:
                v.append((f"fault-delivered|{family}", f"{where}: the faulty datagram changed the circuit/relay/exit "
                          f"tables from {fl.tables0} to {w.tables()}"))
            allowed = self.may_follow(ci, travel, at)
            got = [(tuple(d.src), tuple(d.dst)) for d in new]
            if got != allowed[:len(got)]:
                v.append(("fault-forwarded", f"{where}: instead of dropping the faulty cell the network carried "
                          f"{[(a[0], b[0]) for a, b in got][:4]}; only nodes that cannot authenticate it may pass it "
                          f"on: {[(a[0], b[0]) for a, b in allowed]}"))
        for d in new:
            f = ref.parse_cell(self.prefix, d.data)
            if f is not None and len(fbody) >= 16 and f[3] == fbody:
                v.append(("same-ciphertext", f"{where}: the faulty body was re-emitted unchanged on "
                          f"{d.src[0]}->{d.dst[0]}"))
        v.extend(self.loop_exceptions(tag, "fault"))
        outcome = "accepted-intact(relay_early byte)" if (lenient and n1) else f"dropped-after-{len(new)}-hops"
        # the untouched original still arrives
        del w.loop.outside_log[:]
        for ov in w.ov.values():
            del ov.raw_log[:]
        w.deliver_datagram(held)
        self.pump()
        n2, bad2 = self.deliveries(fl)
        for b in bad2:
            v.append(("after-fault:wrong-delivery", f"{where}: {b}"))
        if n2 != 1 and not (lenient and n1):      # (after an accepted flip the original is a duplicate: no promise)
            v.append(("after-fault:original-lost", f"{where}: after the faulty datagram the untouched original "
                      f"completed the flow {n2} time(s), expected once"))
        v.extend(self.loop_exceptions(tag, "after-fault"))
        return v, outcome


class E2EBench(Bench):
    """
    A hidden-service (end-to-end) circuit built by the real rendezvous protocol: seeder S opens an introduction point
    (S -> N1 -> E), downloader D finds it through its data circuit (D -> E) and the stub DHT, S opens a rendezvous
    point at N2, D builds D -> N3 -> N2 and links.  Exit sockets and node endpoints are bridged during set-up only.
    Afterwards data flows D -> N3 -> N2 -> S and back, with one extra end-to-end layer under the hop layers.
    """

    SERVICE = b"C04-hidden-service!!"

    def make_world(self) -> TunnelWorld:
        self.dht = StubDHT()
        return TunnelWorld(("c04-e2e", self.seed), E2E_ROLES, community_cls=RecHidden, key_offset=self.seed % 7,
                           dht_provider=self.dht)

    def _bridge(self) -> bool:
        w = self.w
        moved = False

        def exit_transport(addr: tuple):  # noqa: ANN202
            for t in w.loop.transports:
                if (not t.closed and t.owner is not None and ":" not in t.local_addr[0]
                        and (t.owner.address[0], t.local_addr[1]) == tuple(addr)):
                    return t
            return None

        log = w.loop.outside_log
        while log:
            tr, data, addr = log.pop(0)
            src = (tr.owner.address[0], tr.local_addr[1])
            if tuple(addr) in w.endpoints:
                w.inject(src, tuple(addr), data, note="from-exit")
                moved = True
            else:
                t2 = exit_transport(addr)
                if t2 is not None:
                    t2.inject(data, src)
                    moved = True
        while w.undeliverable:
            dg = w.undeliverable.pop(0)
            t2 = exit_transport(dg.dst)
            if t2 is not None:
                t2.inject(dg.data, tuple(dg.src))
                moved = True
        if moved:
            w.loop.settle()
        return moved or bool(w.inflight)

    def _setup(self) -> None:
        w = self.w
        svc = self.SERVICE
        d, s_ = w.ov["D"], w.ov["S"]
        self.prefix = d.get_prefix()
        w.idle_hook = self._bridge
        done = w.loop.create_future()
        self.callback_marker = b"c04-first-e2e-data-sent-from-the-callback" + bytes([self.salt % 251])
        self.callback_wire: list = []

        def on_e2e(address) -> None:  # noqa: ANN001
            # the application uses its new end-to-end circuit at once, from inside the callback that announces it
            n0 = len(w.wire_log)
            c = next((c for c in d.circuits.values() if c.ctype == CIRCUIT_TYPE_RP_DOWNLOADER), None)
            if c is not None:
                d.send_data(c.hop.address, c.circuit_id, ("0.0.0.0", 0), ("0.0.0.0", 0), self.callback_marker)
            self.callback_wire = list(w.wire_log[n0:])
            done.set_result(address)
        w.nodes["D"].run(d.join_swarm, svc, 1, on_e2e, seeding=False)
        w.nodes["S"].run(s_.join_swarm, svc, 1, None)
        w.restrict("S", ["N1", "E"])                                  # introduction circuit S -> N1 -> E
        w.drive(w.nodes["S"].run(s_.create_introduction_point, svc), horizon=30)
        w.flush()
        if not self.dht.store.get(svc):
            raise HarnessError("e2e set-up: no introduction point was announced")
        s_.candidates[w.peer_of("S", "N2")] = sorted(RELAY_FLAGS)
        w.restrict("S", ["N2"])                                       # the rendezvous point will be N2
        w.restrict("D", ["E"])
        dc = w.nodes["D"].run(d.create_circuit, 1, required_exit=w.peer_of("D", "E"))
        w.flush()
        if dc is None or dc.state != CIRCUIT_STATE_READY:
            raise HarnessError("e2e set-up: the downloader's data circuit did not become ready")
        d.candidates[w.peer_of("D", "N3")] = sorted(RELAY_FLAGS)
        w.restrict("D", ["N3"])                                       # D -> N3 -> rendezvous point
        w.drive(w.nodes["D"].run(d.do_peer_discovery), horizon=30)
        w.flush()
        if not done.done():
            raise HarnessError("e2e set-up: the end-to-end circuit was not linked")
        self.callback_findings = []
        got = [data for _c, _o, data in s_.raw_log if data == self.callback_marker]
        if len(got) != 1:
            self.callback_findings.append(("e2e-callback-send:not-delivered",
                                           f"data sent over the new end-to-end circuit from inside the join_swarm callback "
                                           f"reached the seeder {len(got)} times (expected once, byte-identical)"))
        if any(self.callback_marker in dg.data for dg in self.callback_wire):
            self.callback_findings.append(("e2e-callback-send:plaintext-on-wire",
                                           "the payload sent from inside the join_swarm callback is visible on a link"))
        w.idle_hook = None
        w.run_for(6.0)
        ce = [c for c in d.circuits.values() if c.ctype == CIRCUIT_TYPE_RP_DOWNLOADER]
        cs = [c for c in s_.circuits.values() if c.ctype == CIRCUIT_TYPE_RP_SEEDER]
        if len(ce) != 1 or len(cs) != 1 or not ce[0].e2e or ce[0].state != CIRCUIT_STATE_READY \
                or cs[0].state != CIRCUIT_STATE_READY or ce[0].hs_session_keys is None or cs[0].hs_session_keys is None:
            raise HarnessError("e2e set-up: circuits not in the linked state")
        self.ce, self.cs = ce[0], cs[0]
        self.circ = {"A": self.ce}
        self.names = {"A": list(E2E_PATH)}
        self.addr = {"A": [tuple(w.nodes[n].address) for n in E2E_PATH]}
        self.exit_sock = {}
        self.link_cid = {}
        zero = ("0.0.0.0", 0)
        for _ in range(10):     # first packets carry relay_early; also learns the per-link circuit ids
            self.reset_logs()
            w.nodes["D"].run(d.send_data, self.ce.hop.address, self.ce.circuit_id, zero, zero, ref.payload(64, self.salt))
            w.flush()
            fwd = list(w.wire_log)
            w.nodes["S"].run(s_.send_data, self.cs.hop.address, self.cs.circuit_id, zero, zero, ref.payload(64, self.salt))
            w.flush()
        cells = [ref.parse_cell(self.prefix, dg.data) for dg in fwd]
        pairs = [(tuple(dg.src), tuple(dg.dst)) for dg in fwd]
        if pairs != [self.link_pair("A", "f", i) for i in range(3)] or any(c is None for c in cells) \
                or len(d.raw_log) != 1 or len(s_.raw_log) != 1:
            raise HarnessError(f"e2e warm-up: path is {[(a[0], b[0]) for a, b in pairs]}, expected {E2E_PATH}")
        self.link_cid["A"] = [c[0] for c in cells]
        n3, n2 = w.ov["N3"], w.ov["N2"]
        cid = self.link_cid["A"]
        self.k_n3 = {"end": self.ce.hops[0].keys, "node": n3.relay_from_to[cid[0]].hop.keys}
        self.k_rpd = {"end": self.ce.hops[1].keys, "node": n2.relay_from_to[cid[1]].hop.keys}
        self.k_rps = {"end": self.cs.hops[0].keys, "node": n2.relay_from_to[cid[2]].hop.keys}
        self.foreign_keys = [generate_session_keys(bytes([0xC4 + i]) * 64) for i in range(3)]
        if w.loop.exceptions:
            raise HarnessError(f"exceptions during the fault-free e2e build: {w.loop.exceptions[:1]}")
        self.watch_handlers()
        self.reset_logs()

    def layers(self, link: int) -> int:
        return E2E_LAYERS[link]

    def peel_plans(self, leg: str, link: int) -> list:
        plans = []
        for who in ("end", "node"):
            n3, rpd, rps = self.k_n3[who], self.k_rpd[who], self.k_rps[who]
            if leg == "f":     # D -> S: D adds the e2e layer with BACKWARD keys; the rendezvous point re-wraps BACKWARD
                hs = self.ce.hs_session_keys if who == "end" else self.cs.hs_session_keys
                plan = [[(n3, FORWARD), (rpd, FORWARD), (hs, BACKWARD)], [(rpd, FORWARD), (hs, BACKWARD)],
                        [(rps, BACKWARD), (hs, BACKWARD)]][link]
            else:              # S -> D: S adds the e2e layer with FORWARD keys
                hs = self.cs.hs_session_keys if who == "end" else self.ce.hs_session_keys
                plan = [[(n3, BACKWARD), (rpd, BACKWARD), (hs, FORWARD)], [(rpd, BACKWARD), (hs, FORWARD)],
                        [(rps, FORWARD), (hs, FORWARD)]][link]
            plans.append(("originator" if who == "end" else "node", plan))
        return plans

    def may_follow(self, ci: str, travel: str, at: int) -> list:
        # Towards S every node authenticates; towards D the rendezvous point does (it removes the seeder-side layer
        # first) and only N3 adds a layer blindly.
        if travel == "b" and at == 1:
            return [(self.addr["A"][1], self.addr["A"][0])]
        return []

    def launch(self, kind: str, size: int, dk: str) -> Flow:
        w = self.w
        fl = Flow(kind, size, dk)
        zero = ("0.0.0.0", 0)
        fl.expected_origin = UDPv4Address(*zero)
        kind = fl.kind
        if kind == "e2e-ds":
            fl.payload = self.payload_for(fl, self.salt)
            fl.pt["f"] = ref.msg_data(ref.ZERO, ref.ZERO, fl.payload)
            fl.raw_target = ("S", self.cs)
            ov, c, name = w.ov["D"], self.ce, "D"
        elif kind == "e2e-sd":
            fl.payload = self.payload_for(fl, self.salt + 1)
            fl.pt["b"] = ref.msg_data(ref.ZERO, ref.ZERO, fl.payload)
            fl.raw_target = ("D", self.ce)
            ov, c, name = w.ov["S"], self.cs, "S"
        else:
            raise HarnessError(kind)
        fl.secrets = [fl.payload] if len(fl.payload) >= 8 else []
        w.nodes[name].run(ov.send_data, c.hop.address, c.circuit_id, zero, zero, fl.payload)
        return fl


class DualWorld(TunnelWorld):
    """TunnelWorld in which the nodes named in `dual` sit on a real DispatcherEndpoint with an IPv4 and an IPv6
    interface (two SimEndpoints); circuits are built over IPv4 as usual, the IPv6 address is reachable for anybody."""

    def __init__(self, seed_key, roles: dict, special: dict, **kw) -> None:  # noqa: ANN001, ANN003
        """special: node name -> "ds" (dual-stack dispatcher) | "te" (TunnelEndpoint wrapper) | "se" (StatisticsEndpoint)."""
        self._special = dict(special)
        self.v6: dict[str, tuple] = {}
        super().__init__(seed_key, roles, **kw)

    def add_node(self, name: str, key_index: int, address=None, curve: str = "curve25519"):  # noqa: ANN001, ANN201
        node = super().add_node(name, key_index, address, curve)
        how = self._special.get(name)
        if how == "te":      # datagrams still arrive at (and are dispatched by) the wrapped endpoint, as with a socket
            node.endpoint = TunnelEndpoint(node.endpoint)
        elif how == "se":
            node.endpoint = StatisticsEndpoint(node.endpoint)
        elif how == "ds":
            n = len(self.nodes)
            a6 = UDPv6Address(f"2001:db8::{n}", 1000 + n)
            ep6 = SimEndpoint(self, a6, name + "-v6")
            ep6.node = node
            disp = DispatcherEndpoint([])
            disp.interfaces = {"UDPIPv4": node.endpoint, "UDPIPv6": ep6}
            disp.interface_order = ["UDPIPv4", "UDPIPv6"]
            disp._preferred_interface = node.endpoint
            self.endpoints[tuple(a6)] = ep6
            node.endpoint = disp
            self.v6[name] = tuple(a6)
        return node


class DualBench(Bench):
    """Bench "<kind><node><h>": the exit X or the originator O sits on a dual-stack dispatcher (ds), a TunnelEndpoint
    wrapper (te) or a StatisticsEndpoint wrapper (se)."""

    def __init__(self, bid: str, seed: int) -> None:
        self.bid = bid
        self.how = bid[:2]
        self.dual = bid[2]
        super().__init__(int(bid[3]), seed)

    def make_world(self) -> TunnelWorld:
        how = "te" if self.how == "an" else self.how
        w = DualWorld(("c04", self.seed, self.bid), ANON_ROLES if self.how == "an" else ROLES, {self.dual: how},
                      community_cls=RecTunnel, key_offset=self.seed % 8)
        ep = w.ov[self.dual].endpoint
        if self.how == "an":     # as an application would: tunnels of h hops, this overlay prefix is anonymized
            ep.set_tunnel_community(w.ov[self.dual], hops=self.h)
            ep.set_anonymity(ref.APP_PREFIX, True)
        want = {"ds": DispatcherEndpoint, "te": TunnelEndpoint, "se": StatisticsEndpoint, "an": TunnelEndpoint}[self.how]
        if not isinstance(ep, want) or (self.how == "ds" and len(ep.interfaces) != 2):
            raise HarnessError(f"{want.__name__} was not installed")
        return w

    def v6_address_of_receiver(self, leg: str, link: int) -> tuple:
        receiver = self.names["A"][link + 1] if leg == "f" else self.names["A"][link]
        if self.how != "ds" or receiver != self.dual:
            raise HarnessError(f"the receiver on {leg}{link} is {receiver}, not the dual-stack node {self.dual}")
        return self.w.v6[self.dual]


class AnonSeqBench(Bench):
    """
    "aqO<h>": O sits on TunnelEndpoint(SimEndpoint), its application overlay prefix is anonymized with h-hop tunnels, X
    is the only exit for IPv8 packets (R1 the only relay), and *no* circuit exists.  One send history per world.
    """

    def __init__(self, bid: str, seed: int) -> None:
        self.bid = bid
        super().__init__(int(bid[3]), seed)

    def make_world(self) -> TunnelWorld:
        roles = {"O": RELAY_FLAGS, "R1": RELAY_FLAGS, "X": EXIT_FLAGS | {PEER_FLAG_EXIT_IPV8}}
        return DualWorld(("c04", self.seed, self.bid), roles, {"O": "te"}, community_cls=RecTunnel,
                         key_offset=self.seed % 8)

    def _setup(self) -> None:
        w, h = self.w, self.h
        self.prefix = w.ov["O"].get_prefix()
        self.tep = w.ov["O"].endpoint
        if not isinstance(self.tep, TunnelEndpoint):
            raise HarnessError("TunnelEndpoint was not installed")
        self.tep.set_tunnel_community(w.ov["O"], hops=h)
        self.tep.set_anonymity(ref.APP_PREFIX, True)
        if h == 1:
            w.restrict("O", ["X"])
        else:
            w.restrict("O", ["R1", "X"])
            w.restrict("R1", ["X"])
        self.watch_handlers()
        self.reset_logs()

    def ready_circuits(self) -> list:
        return self.w.ov["O"].find_circuits(exit_flags=[PEER_FLAG_EXIT_IPV8], hops=self.h)

    def run_anonseq(self, history: str) -> tuple[list, str]:
        """
        Oracle: what leaves the exit's outside socket is a sub-multiset of the (destination, packet) pairs handed to
        send(), each at most once and bit-exact; every packet handed over up to the last send that found a READY
        circuit (that send also flushes the hold queue) has left exactly once; no packet readable on any link.
        """
        w, h = self.w, self.h
        self.spent = True
        self.reset_logs()
        del w.loop.exceptions[:]
        ov = w.ov["O"]
        node = w.nodes["O"]
        handed: list = []          # (destination tuple, packet, a READY circuit existed when it was handed over)
        for ev in history.split("-"):
            if ev[0] == "s":
                dest = ANON_DESTS[ev[1]]
                pkt = ref.anon_packet(24 + len(handed), self.salt + len(handed))
                handed.append(((dest[1], dest[2]), pkt, bool(self.ready_circuits())))
                node.run(self.tep.send, _addr_obj(dest), pkt)
                w.loop.settle()
            elif ev == "prebuild":
                if node.run(ov.create_circuit, h, exit_flags=[PEER_FLAG_EXIT_IPV8]) is None:
                    raise HarnessError("create_circuit refused")
                w.loop.settle()
            elif ev == "ready":
                self.pump()
                if not self.ready_circuits():
                    raise HarnessError(f"no {h}-hop circuit became ready after {history!r}")
            elif ev == "remove":
                self.pump()
                for c in list(ov.circuits.values()):
                    node.run(ov.remove_circuit, c.circuit_id, "unneeded", destroy=1)
                self.pump()
            elif ev == "expire":
                w.run_for(ov.settings.remove_tunnel_delay + 1.0)
            else:
                raise HarnessError(ev)
        self.pump()
        w.run_for(1.0)
        where = f"h={h} history {history}"
        v: list = []
        pairs = [(d, p) for d, p, _ in handed]
        last_ready = max((i for i, (_, _, r) in enumerate(handed) if r), default=-1)
        exited = [(tuple(a), data) for _tr, data, a in w.loop.outside_log]
        names = {p: f"#{i + 1}" for i, (_, p) in enumerate(pairs)}
        for pair in sorted(set(exited), key=repr):
            if pair not in pairs:
                same = names.get(pair[1])
                v.append(("anon:wrong-delivery", f"{where}: the exit emitted {len(pair[1])} bytes to {pair[0]} - "
                          + (f"packet {same} was handed over for {dict((p, d) for d, p in pairs)[pair[1]]}" if same
                             else "bytes nobody handed to send()")))
            elif exited.count(pair) > 1:
                v.append(("anon:duplicate", f"{where}: packet {names[pair[1]]} for {pair[0]} left the exit "
                          f"{exited.count(pair)} times"))
        for i, pair in enumerate(pairs[:last_ready + 1]):
            if pair not in exited:
                v.append(("anon:not-delivered", f"{where}: packet #{i + 1} for {pair[0]} "
                          f"({'handed over while a circuit was READY' if handed[i][2] else 'held, then flushed'}; a later "
                          f"send found a READY circuit) never left the exit; exited: "
                          f"{[(names.get(p, '?'), d) for d, p in exited]}"))
        for dg in w.wire_log:
            if ref.MARKER in dg.data or ref.APP_PREFIX in dg.data or any(p in dg.data for _, p in pairs):
                v.append(("anon:plaintext-on-wire", f"{where}: a packet of the anonymized overlay is readable in the "
                          f"datagram {dg.src[0]}->{dg.dst[0]} ({len(dg.data)} bytes)"))
                break
        for name, o in w.ov.items():
            if o.raw_log:
                v.append(("anon:wrong-delivery", f"{where}: {name}.on_raw_data got {len(o.raw_log)} datagram(s)"))
        v.extend(self.loop_exceptions("anonseq", "anonseq"))
        return v, f"exited{len(exited)}of{len(pairs)}-must{last_ready + 1}-held{len(self.tep.send_queue)}"


def hops_of(h) -> int:  # noqa: ANN001
    return 3 if h == "e2e" else int(h[3]) if isinstance(h, str) else h


def make_bench(h, seed: int) -> Bench:  # noqa: ANN001
    if h == "e2e":
        return E2EBench(h, seed)
    if isinstance(h, str) and h[:2] == "aq":
        return AnonSeqBench(h, seed)
    if isinstance(h, str) and h[:2] in ("ds", "te", "se", "an"):
        return DualBench(h, seed)
    return Bench(h, seed)


# ---- enumeration ----------------------------------------------------------------------------------------------------

def cell_len(h: int, kind: str, leg: str, link: int, size: int, dk: str) -> int:
    kind = kind.partition("@")[0]
    alen = {"v4": 7, "v6": 19, "dom": 5 + len(DESTS["dom"][1])}
    if h == "e2e":
        return ref.HEADER_LEN + 15 + size + OVH * E2E_LAYERS[link]
    if kind == "data":
        m = 1 + alen[dk] + 7 + size
    elif kind == "anon":
        m = 1 + alen[dk] + 7 + 22 + max(1, size)
    elif kind == "reply":
        m = 1 + 7 + alen[dk] + size
    elif kind == "ping":
        m = 3
    else:
        m = (5 if leg == "f" else 3) + size
    return ref.HEADER_LEN + m + OVH * (hops_of(h) - link)


def expand(group: list, thorough: bool) -> list:
    """group = [h, flow, size, dk, leg, link, fault-class] -> list of faults."""
    h, kind, size, dk, leg, link, fclass = group
    if fclass == "clean":
        return [None]
    if fclass == "xor":
        n = cell_len(h, kind, leg, link, size, dk)
        out = []
        for pos in range(n):
            masks = HEADER_MASKS_THOROUGH if (thorough and pos < ref.HEADER_LEN) else MASKS
            out.extend(["xor", pos, m] for m in masks)
        return out
    if fclass == "xor6":
        return [["via6", f] for f in expand([h, kind, size, dk, leg, link, "xor"], thorough)]
    if fclass in ("clear", "clear6"):
        # create/created with the plaintext flag are how circuits are built: a node is *supposed* to look at them
        out = [["cleartext", mid, flag] for mid in ref.CELL_MESSAGE_IDS for flag in (0, 1)
               if (mid, flag) not in ((2, 1), (3, 1))]
        return out if fclass == "clear" else [["via6", f] for f in out]
    if fclass == "misc6":
        return [["via6", f] for f in [["trunc"], ["append"], *(["foreign", var] for var in FOREIGN_VARIANTS)]]
    if fclass == "misc":
        out = [["trunc"], ["append"], ["reflect"]]
        if h != "e2e":
            out.extend([["splice", "B"], ["splice", "C"]])
        out.extend(["foreign", var] for var in FOREIGN_VARIANTS)
        out.extend(["crosslink", j] for j in range(hops_of(h)) if j != link)
        return out
    raise HarnessError(fclass)


def groups(thorough: bool) -> list:
    out = []
    clean_sizes = list(range(0, 1401)) if thorough else QUICK_SIZES
    if thorough:
        xor_sizes = sorted(set(range(0, 65)) | set(range(64, 1401, 16)) | set(QUICK_SIZES)
                           | {255, 256, 257, 511, 512, 513, 1023, 1024, 1025, 1399})
        test_xor_sizes = [0, 1, 23, 279, 1000, 1400]
    else:
        xor_sizes = QUICK_SIZES
        test_xor_sizes = [0, 23, 279]
    for h in (1, 2, 3):
        # clean runs
        for size in clean_sizes:
            out.append([h, "data", size, "v4", "f", 0, "clean"])
            out.append([h, "reply", size, "v4", "b", 0, "clean"])
            out.append([h, "test", size, "v4", "f", 0, "clean"])
        for size in QUICK_SIZES:
            out.append([h, "data", size, "v6", "f", 0, "clean"])
            out.append([h, "data", size, "dom", "f", 0, "clean"])
            out.append([h, "reply", size, "v6", "b", 0, "clean"])
        out.append([h, "ping", 0, "v4", "f", 0, "clean"])
        # faults on every link, both directions
        for link in range(h):
            for size in xor_sizes:
                out.append([h, "data", size, "v4", "f", link, "xor"])
                out.append([h, "reply", size, "v4", "b", link, "xor"])
            for size in QUICK_SIZES:
                out.append([h, "data", size, "v4", "f", link, "misc"])
                out.append([h, "reply", size, "v4", "b", link, "misc"])
            for dk in ("v6", "dom"):
                out.append([h, "data", 24, dk, "f", link, "xor"])
                out.append([h, "data", 24, dk, "f", link, "misc"])
            out.append([h, "reply", 24, "v6", "b", link, "xor"])
            for leg in ("f", "b"):
                out.append([h, "ping", 0, "v4", leg, link, "xor"])
                out.append([h, "ping", 0, "v4", leg, link, "misc"])
                for size in test_xor_sizes:
                    out.append([h, "test", size, "v4", leg, link, "xor"])
                    out.append([h, "test", size, "v4", leg, link, "misc"])
    # retirement: one party removes its part of circuit A; probes inside/after the grace period and around its end
    for h in (1, 2, 3):
        for variant in RETIRE_VARIANTS:
            if variant == "relay" and h < 2:
                continue
            offs = list(RETIRE_OFFSETS) + ([1.0, 4.999, 5.0, 5.001, 7.4, 10.0] if thorough else [])
            if variant != "relay":     # (a relay that forgets the circuit tells nobody: the exit socket stays)
                offs += [f"i{k}" for k in range(RETIRE_ITERATIONS + (5 if thorough else 0))]
            for size in ((24, 64, 1400) if thorough else (64,)):
                for off in offs:
                    out.append([h, "retire", size, "v4", variant, off, "clean"])
        # payloads that look like the tunnel overlay's own packets, outbound (every exit forwards its own prefix)
        for shape in ref.SHAPES:
            if shape.startswith("pfx"):
                out.append([h, f"data@{shape}", ref.SHAPE_SIZE[shape], "v4", "f", 0, "clean"])
                out.append([h, f"data@{shape}", ref.SHAPE_SIZE[shape], "v4", "f", h - 1, "misc"])
    # dual-stack exit / originator: the same faulty cells arriving on the node's IPv4 and on its IPv6 interface
    for bid in (*DUAL_BENCHES, *WRAP_BENCHES):
        hops = hops_of(bid)
        flows = ([("data", "f", hops - 1), ("ping", "f", hops - 1), ("test", "f", hops - 1)] if bid[2] == "X"
                 else [("reply", "b", 0), ("ping", "b", 0), ("test", "b", 0)])
        for kind, leg, link in flows:
            for size in ((24, 279) if thorough and kind != "ping" else (0,) if kind == "ping" else (24,)):
                out.append([bid, kind, size, "v4", leg, 0, "clean"])
                for fclass in ("xor", "xor6", "misc", "misc6", "clear", "clear6"):
                    if bid[:2] == "ds" or not fclass.endswith("6"):
                        out.append([bid, kind, size, "v4", leg, link, fclass])
    # anonymized overlay: packets enter the circuit through the real TunnelEndpoint.send
    for bid in ANON_BENCHES:
        hops = hops_of(bid)
        for size in ((1, 24, 279, 1000, 1370) if thorough else (1, 24, 279, 1370)):
            out.append([bid, "anon", size, "v4", "f", 0, "clean"])
        out.append([bid, "anon", 24, "v6", "f", 0, "clean"])
        for link in range(hops):
            for fclass in ("xor", "misc"):
                out.append([bid, "anon", 24, "v4", "f", link, fclass])
        out.append([bid, "anon", 24, "v4", "f", hops - 1, "clear"])
    for bid in ANONSEQ_BENCHES:
        k = 4 if thorough else 3
        for hist in ref.anon_histories(k):
            out.append([bid, "anonseq", hist.count("s"), "v4", hist, 0, "clean"])
    # end-to-end (hidden service) circuit: D -> N3 -> rendezvous -> S and back
    if thorough:
        e2e_xor = sorted(set(range(0, 65)) | set(range(64, 1401, 64)) | set(QUICK_SIZES) | {1399})
    else:
        e2e_xor = [0, 24, 279, 1000]
    for kind, leg in (("e2e-ds", "f"), ("e2e-sd", "b")):
        for size in clean_sizes:
            out.append(["e2e", kind, size, "v4", leg, 0, "clean"])
        for link in range(3):
            for size in e2e_xor:
                out.append(["e2e", kind, size, "v4", leg, link, "xor"])
            for size in QUICK_SIZES:
                out.append(["e2e", kind, size, "v4", leg, link, "misc"])
        # payload shapes: opaque bytes, IPv8-looking bytes, the overlay's own prefix + a cell message id
        for shape in ref.SHAPES:
            out.append(["e2e", f"{kind}@{shape}", ref.SHAPE_SIZE[shape], "v4", leg, 0, "clean"])
            for link in range(3):
                out.append(["e2e", f"{kind}@{shape}", ref.SHAPE_SIZE[shape], "v4", leg, link, "misc"])
                if thorough or shape in ("opaque", "v1", "pfx1", "pfx2"):
                    out.append(["e2e", f"{kind}@{shape}", ref.SHAPE_SIZE[shape], "v4", leg, link, "xor"])
    return out


def group_cost(g: list, thorough: bool) -> int:
    h, kind, size, dk, leg, link, fclass = g
    if kind == "retire":
        return 150          # needs a world of its own
    if kind == "anonseq":
        return 60
    if fclass == "clean":
        return 2 + size // 200
    if fclass in ("misc", "misc6", "clear", "clear6"):
        return 16
    n = cell_len(h, kind, leg, link, size, dk)
    return 2 * n + (7 * ref.HEADER_LEN if thorough else 0)


def pack_items(gs: list, thorough: bool, target: int) -> list:
    """Bins of groups with the same hop count and about `target` cases each (one bench per bin)."""
    items = []
    for h in (1, 2, 3, "e2e", *DUAL_BENCHES, *WRAP_BENCHES, *ANON_BENCHES, *ANONSEQ_BENCHES):
        cur, cost = [], 0
        for g in sorted((g for g in gs if g[0] == h), key=lambda g: -group_cost(g, thorough)):
            c = group_cost(g, thorough)
            if cur and cost + c > target:
                items.append((h, cur))
                cur, cost = [], 0
            cur.append(g)
            cost += c
        if cur:
            items.append((h, cur))
    return items


_SEED = 0
_THOROUGH = False


def work(chunk: list) -> list:
    res = []
    for h, gs in chunk:
        res.append(run_item(h, gs, _SEED, _THOROUGH))
    return res


def run_item(h, gs: list, seed: int, thorough: bool) -> dict:
    out = {"evals": 0, "by_class": {}, "outcomes": set(), "viols": {}, "aborted": 0, "positions": 0}
    bench = None

    def note(v: list, case: list) -> None:
        for key, what in v:
            rp = {"h": h, "seed": seed, "case": case}
            if key not in out["viols"] or _case_rank(rp) < _case_rank(out["viols"][key][1]):
                out["viols"][key] = (what, rp)

    try:
        for gi, g in enumerate(gs):
            faults = expand(g, thorough)
            fclass = g[6]
            bad_cases = 0
            for fault in faults:
                case = [g[1], g[2], g[3], g[4], g[5], fault]
                if bench is None:
                    try:
                        bench = make_bench(h, seed)
                    except Exception as e:  # noqa: BLE001
                        # no ready circuit / no clean delivery at all: everything in this bin would fail the same way
                        note([_build_failure(h, e)], case)
                        out["evals"] += 1
                        out["aborted"] += len(gs) - gi
                        return out
                    if getattr(bench, "callback_findings", None):
                        note(list(bench.callback_findings), ["e2e-callback-send", 0, "v4", "f", 0, None])
                        bench.callback_findings = []
                try:
                    v, outcome = bench.run_case(case)
                except Exception as e:  # noqa: BLE001
                    v = [(f"harness-exception|{type(e).__name__}|{g[1]}:{g[4]}",
                          f"h={h} case={case}: {traceback.format_exc()[-900:]}")]
                    outcome = "exception"
                out["evals"] += 1
                inner = fault[1] if fault is not None and fault[0] == "via6" else fault
                ck = fclass if fclass not in ("xor", "xor6") else ("xor-header" if inner[1] < ref.HEADER_LEN
                                                                    else "xor-body")
                ck = ck if fclass not in ("misc", "misc6", "clear", "clear6") else inner[0]
                ck = ck + "-via-ipv6" if fclass.endswith("6") else ck
                ck = g[1] if g[1] in ("retire", "anonseq") else ck
                known = [(k, x) for k, x in v if k == KNOWN_RELAY_EARLY]
                if known:          # registered finding: record it, but it neither damages the world nor ends the group
                    note(known, case)
                    v = [(k, x) for k, x in v if k != KNOWN_RELAY_EARLY]
                out["by_class"][ck] = out["by_class"].get(ck, 0) + 1
                out["outcomes"].add((h, g[1], g[4], g[5], ck, outcome))
                if v:
                    bad_cases += 1
                    bench.close()      # never let a damaged world colour later cases
                    bench = None
                    if fault is not None and any(k.startswith("after-fault:") for k, _ in v):
                        # is it the fault that broke the circuit, or does this flow not even work fault-free?
                        clean_case = [g[1], g[2], g[3], g[4], g[5], None]
                        try:
                            bench = make_bench(h, seed)
                            cv, _ = bench.run_case(clean_case)
                        except Exception as e:  # noqa: BLE001
                            cv = [_build_failure(h, e)]
                        if cv:
                            note(cv, clean_case)
                            v = [(k, w) for k, w in v if not k.startswith("after-fault:")]
                            if bench is not None:
                                bench.close()
                                bench = None
                    note(v, case)
                    if bad_cases >= MAX_BAD_PER_GROUP:
                        out["aborted"] += 1
                        break
                if bench is not None and bench.spent:
                    bench.close()
                    bench = None
            if fclass in ("xor", "xor6"):
                n = cell_len(h, g[1], g[4], g[5], g[2], g[3])
                out["positions"] += n
                if bench is not None and bench.last_held_len != n:
                    note([("harness:cell-length-model", f"group {g}: cells are {bench.last_held_len} bytes, the "
                           f"enumeration assumed {n}")], [g[1], g[2], g[3], g[4], g[5], ["xor", 0, 1]])
    finally:
        if bench is not None:
            bench.close()
    return out


def _build_failure(h, e: Exception) -> tuple:
    if isinstance(e, HarnessError):
        return (f"clean:no-working-circuit|{h if isinstance(h, str) else f'h{h}'}", f"fault-free set-up failed: {e}")
    return (f"harness-exception|{type(e).__name__}|setup", f"h={h}: {traceback.format_exc()[-900:]}")


def _self_check(seed: int) -> None:
    """Same cases in two fresh worlds must give the same observations (else the machinery is broken: exit 2)."""
    cases = [["data", 24, "v4", "f", 0, None], ["reply", 279, "v4", "b", 1, ["xor", 40, 0x80]],
             ["ping", 0, "v4", "b", 0, ["splice", "B"]], ["test", 23, "v4", "f", 1, ["foreign", "plainflag"]]]
    obs = []
    for _ in range(2):
        try:
            b = Bench(2, seed)
        except HarnessError:
            return      # the workers will report the broken set-up as a violation
        try:
            obs.append([(repr(sorted(k for k, _ in v)), o) for v, o in (b.run_case(c) for c in cases)])
        finally:
            b.close()
    if obs[0] != obs[1]:
        core.eprint(f"C04: replay determinism self-check failed:\n{obs[0]}\n{obs[1]}")
        sys.exit(2)


def run(ctx: core.Ctx) -> core.Report:
    global _SEED, _THOROUGH
    _SEED, _THOROUGH = ctx.seed, ctx.thorough
    _self_check(ctx.seed)
    gs = groups(ctx.thorough)
    items = pack_items(gs, ctx.thorough, 12000 if ctx.thorough else 1500)
    res = core.pmap(work, items, ctx.jobs, chunk=1)
    evals = sum(r["evals"] for r in res)
    by_class: dict = {}
    outcomes: set = set()
    viols: dict = {}
    aborted = 0
    positions = 0
    for r in res:
        for k, n in r["by_class"].items():
            by_class[k] = by_class.get(k, 0) + n
        outcomes |= r["outcomes"]
        aborted += r["aborted"]
        positions += r["positions"]
    for r in sorted(res, key=lambda r: repr(sorted(r["viols"]))):
        for key, (what, rp) in sorted(r["viols"].items()):
            if key not in viols or _case_rank(rp) < _case_rank(viols[key][1]):
                viols[key] = (what, rp)
    violations = [core.Violation(k, w, rp) for k, (w, rp) in sorted(viols.items())]
    outcome_classes = sorted({(ck, o) for (_h, _k, _leg, _link, ck, o) in outcomes})
    xor_sizes = sorted({g[2] for g in gs if g[6] == "xor" and g[1] in ("data", "reply")})
    cov = {
        "evaluations": evals,
        "distinct_nontrivial": len(outcomes),
        "rule": "one evaluation = one message flow (data to the outside, reply from the outside, ping/pong, "
                "test-request/response) through a ready circuit of real TunnelCommunity nodes, fault-free with the "
                "complete oracle or with exactly one fault applied to the cell in flight on one link of one leg, "
                "followed by the untouched original; faults = every byte position of the cell XOR each mask, drop/add "
                "one trailing byte, circuit-id splice onto a second circuit of the same originator (B) and of another "
                "originator (C) through the same nodes, five kinds of foreign cells, reflection to the sender, replay "
                "on another link, well-formed unencrypted messages of every cell message id, and - for a dual-stack "
                "exit/originator - the same faulty cells arriving on the node's IPv6 interface; plus send histories of an "
                "anonymized overlay through TunnelEndpoint.send (see the module docstring), retirement runs (see 'retire' in the module docstring) and payload shapes; "
                "distinct_nontrivial = distinct (hops, flow, leg, link, fault class, outcome) tuples "
                "where outcome is delivered-N / dropped-after-N-hops / accepted-intact(relay_early byte)",
        "samples": [{"bench_hops": h, "first_group": g[0], "groups_in_bench": len(g)} for h, g in items[:2]]
                   + [{"case": [g[1], g[2], g[3], g[4], g[5], f]} for g in (gs[0], gs[-1]) for f in expand(g, ctx.thorough)[:2]],
        "exhaustive": aborted == 0,
        "groups_aborted_after_violations": aborted,
        "hops": [1, 2, 3, "e2e: downloader - relay - rendezvous point - seeder (3 links)",
                 "dual-stack exit / originator (DispatcherEndpoint with IPv4 + IPv6 interface), 1 and 2 hops",
                 "exit / originator on TunnelEndpoint(SimEndpoint) and on StatisticsEndpoint(SimEndpoint), 1 and 2 hops"],
        "links": "every link of the path, both directions",
        "clean_sizes": f"{min(g[2] for g in gs)}..{max(g[2] for g in gs)} ({len({g[2] for g in gs if g[6] == 'clean'})} "
                       "sizes) for data, reply and test flows; ipv4 / ipv6 / hostname destinations for the quick sizes",
        "xor_sizes_data_reply": xor_sizes if len(xor_sizes) <= 16 else f"{len(xor_sizes)} sizes: 0..64, every 16th "
                                                                        "to 1400, boundaries",
        "xor_masks": {"body": list(MASKS), "header": list(HEADER_MASKS_THOROUGH if ctx.thorough else MASKS)},
        "byte_positions_altered": positions,
        "evaluations_by_fault_class": dict(sorted(by_class.items())),
        "outcome_classes": [list(x) for x in outcome_classes],
        "groups": len(gs),
        "benches": len(items),
        "layer_overhead_bytes": OVH,
        "retire": {"variants": list(RETIRE_VARIANTS), "offsets_s": sorted({g[5] for g in gs if g[1] == "retire"
                                                                             and not isinstance(g[5], str)}),
                   "iterations_after_grace_timer": len({g[5] for g in gs if g[1] == "retire" and isinstance(g[5], str)}),
                   "runs": sum(1 for g in gs if g[1] == "retire")},
        "payload_shapes": ["bt", *ref.SHAPES],
        "anonymized_send_histories": {"max_packets": 4 if ctx.thorough else 3, "destinations": 2, "hops": [1, 2],
                                      "histories": sum(1 for g in gs if g[1] == "anonseq")},
        "strict_relay_early": STRICT_RELAY_EARLY,
    }
    assumptions = [
        "crypto primitives (ipv8_rust_tunnels: X25519, HKDF, ChaCha20-Poly1305) trusted; ciphertext bytes differ "
        "between runs (Rust-side ephemeral keys), control flow does not",
        "PythonCryptoEndpoint only (the Rust endpoint is not explored)",
        "end-to-end (hidden-service) circuits: one topology (swarm hop count 1: D - N3 - rendezvous N2 - S), built by "
        "the real introduction/rendezvous protocol with a stub DHT provider and no PEX community; only raw data flows "
        "in both directions are faulted on the linked circuit (the set-up handshake itself is not faulted)",
        "the relay_early header byte is not authenticated by any key: an accepted flip (data bit-exact) is reported under "
        "its own key, which known_findings.json lists; every other byte must lead to a drop",
        "retirement runs do not demand that anything is still delivered while a circuit is being removed, only that "
        "what appears on the wire is properly layered and what is delivered is bit-exact; replies that look like IPv8 "
        "packets on plain circuits (re-injection at the originator) are not covered; plain-circuit outbound payload "
        "shapes are limited to those every exit forwards (its own overlay prefix)",
        "payloads of 0 and 1 bytes cannot pass any exit policy (C06); for these two sizes the exit socket's "
        "is_allowed is overridden so that the tunnel itself is still observed; all other payloads are bencoded-dict "
        "shaped and pass the real BitTorrent policy",
        "length-changing faults are limited to dropping/adding one trailing byte; cells shorter than the 29-byte "
        "header or with an empty body are C03's subject",
        "anonymized-overlay send histories: packets handed to TunnelEndpoint.send while no circuit is READY are only "
        "required to leave the exit if a later send found a READY circuit (that is what flushes the hold queue); no order "
        "is demanded; inbound delivery to an anonymized overlay (notify_listeners(from_tunnel)) is not covered; circuit "
        "bookkeeping of TunnelEndpoint (how many circuits it creates) is C07's subject",
        "one fault per flow; the virtual clock only advances in retirement runs (timeouts are C09's subject)",
        "cell duplication/replay on the same link is not a fault class here: the statement does not promise replay "
        "protection and the code has none (the untouched original is in fact re-delivered after every fault)",
    ]
    return core.Report(LEVEL, cov, violations, assumptions)


def _case_rank(rp: dict) -> tuple:
    """Prefer small replays: fewer hops, clean before faults, small sizes, low link."""
    c = rp["case"]
    return (str(rp["h"]), c[1], len(str(c[3])), str(c[3]), str(c[4]), repr(c[5]))


def replay(ctx: core.Ctx, data) -> list:  # noqa: ANN001
    if not data:
        return []
    try:
        h = data["h"] if isinstance(data["h"], str) and not data["h"].isdigit() else int(data["h"])
        b = make_bench(h, int(data["seed"]))
    except Exception as e:  # noqa: BLE001
        k, w = _build_failure(data["h"], e)
        return [core.Violation(k, w)]
    try:
        try:
            v, _ = b.run_case(data["case"])
        except Exception as e:  # noqa: BLE001
            c = data["case"]
            v = [(f"harness-exception|{type(e).__name__}|{c[0]}:{c[3]}", traceback.format_exc()[-900:])]
    finally:
        b.close()
    return [core.Violation(k, w) for k, w in v]
