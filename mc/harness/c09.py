"""
C09 - Tunnel state is always reclaimed, whatever gets lost.

Fault enumeration on real TunnelCommunity nodes (default timing settings) over SimNet:
for every hop count, teardown initiator, phase and every set of <= d message faults (drop / duplicate /
delay) in the window after the trigger, virtual time runs to the deadline T and every table must be empty and
every outside socket closed.  Plus: join limit under every order of create requests; relay_early budget.
"""
from __future__ import annotations

import itertools

from ipv8.messaging.anonymization.payload import CreatePayload, DataPayload
from ipv8.messaging.anonymization.tunnel import CIRCUIT_STATE_READY

from .. import core, seams
from ..tunnelworld import BT_PAYLOAD, CONFIG_ROUTES, EXIT_ALL, RELAY, TunnelWorld

LEVEL = "fault_enumeration"

ROLES = {"O": RELAY, "R1": RELAY, "R2": RELAY, "X": EXIT_ALL}
PATHS = {1: ["X"], 2: ["R1", "X"], 3: ["R1", "R2", "X"]}
LEGACY_CURVES = ("very-low", "low", "medium", "high")
CHATTER_PERIOD = 7.0
FAULT_WINDOW = 30.0     # seconds after the trigger during which sent datagrams are fault candidates


def deadline(settings) -> float:  # noqa: ANN001
    return (settings.circuit_timeout + settings.max_time_inactive + 5 + settings.remove_tunnel_delay + 10)


class FaultPlan:
    """faults: dict index -> 'drop' | 'dup' | 'delay' applied to the i-th datagram sent after arming."""

    def __init__(self, world: TunnelWorld, faults: dict[int, str]) -> None:
        self.world = world
        self.faults = faults
        self.armed_at: float | None = None
        self.count = 0
        self.held: list = []
        self.log: list = []
        world.send_hook = self.hook
        world.idle_hook = self.release_all

    def arm(self) -> None:
        self.armed_at = self.world.loop.time()

    def hook(self, dg):  # noqa: ANN001, ANN201
        w = self.world
        if self.armed_at is None or w.loop.time() > self.armed_at + FAULT_WINDOW:
            return self._release(dg)
        i = self.count
        self.count += 1
        f = self.faults.get(i)
        self.log.append((i, w.kind(dg), dg.src[0], dg.dst[0], f))
        if f == "drop":
            w.dropped.append(dg)
            return None
        if f == "dup":
            w.wire_log.append(dg)
            w.inflight.append(dg)
            return self._release(dg)
        if f == "delay":
            self.held.append(dg)     # delivered after the next datagram anybody sends (adjacent reordering)
            return None
        return self._release(dg)

    def _release(self, dg):  # noqa: ANN001, ANN201
        if self.held:
            held, self.held = self.held, []
            w = self.world
            w.wire_log.append(dg)
            w.inflight.append(dg)
            for h in held:
                w.wire_log.append(h)
                w.inflight.append(h)
            return None
        return dg

    def release_all(self) -> bool:
        """A delayed datagram is overtaken by everything sent until the network goes quiet, then delivered."""
        if not self.held:
            return False
        held, self.held = self.held, []
        for h in held:
            self.world.wire_log.append(h)
            self.world.inflight.append(h)
        return True


def scenarios() -> list[tuple]:
    out = []
    for h in (1, 2, 3):
        path = PATHS[h]
        n_build = 2 * h + 2 * (h - 1) * 0  # placeholder, phases are expressed in delivered-datagram counts below
        del n_build
        initiators = ["O", *path, "offline"]
        # phases: ("build", k) trigger after k datagrams of the handshake were delivered; "ready"; "transfer"
        build_msgs = {1: 2, 2: 6, 3: 12}[h]
        phases = [("build", k) for k in range(1, build_msgs)] + [("ready", 0), ("transfer", 0), ("first-data", 0)]
        for ini in initiators:
            for ph in phases:
                out.append((h, ini, ph))
        # the same abandonment, but every relay/exit on the path also *wants* circuits of its own that it cannot
        # build (it knows no exit): its periodic do_circuits() takes the "creation failed" branch before the sweep
        for ph in phases:
            out.append((h, "offline+busy", ph))
        # ... or the only exit candidate it knows has a legacy (non-curve25519) identity key, which cannot take part
        # in the circuit key exchange: one scenario per legacy curve
        for curve, ph in zip(LEGACY_CURVES, [("ready", 0), ("transfer", 0), ("first-data", 0), ("ready", 0)]):
            out.append((h, f"offline+busy-legacy:{curve}", ph))
        # abandoned mid-transfer while the outside host keeps answering: every CHATTER_PERIOD seconds an allowed packet
        # arrives on each open outside socket until the deadline
        for ph in (("transfer", 0), ("first-data", 0)):
            out.append((h, "offline+chatty", ph))
    return out


def run_one(scn: tuple, faults: dict[int, str], seed: int):  # noqa: ANN201
    """Returns (violations, n_fault_candidates, observation)."""
    h, ini, (phase, k) = scn
    busy = ini.split("+")[1] if "+" in ini else None
    ini = ini.split("+")[0]
    path = PATHS[h]
    viol = []
    if busy and busy.startswith("busy-legacy"):
        w = TunnelWorld(("c09", seed, scn), {**ROLES, "L": EXIT_ALL}, key_offset=seed,
                        curves={"L": busy.split(":")[1]})
    else:
        w = TunnelWorld(("c09", seed, scn), ROLES, key_offset=seed)
    try:
        plan = FaultPlan(w, {int(i): f for i, f in faults.items() if str(i) != "sched"})
        ov = w.ov
        if "L" in ov:
            # the legacy-key peer becomes known to the path nodes only once the circuit under test exists
            for name in ROLES:
                ov[name].candidates.pop(w.peer_of(name, "L"), None)
        c = w.start_circuit("O", path)
        cid = c.circuit_id
        if phase == "build":
            for _ in range(k):
                if not w.inflight:
                    break
                w.deliver(0)
        else:
            w.flush()
            if c.state != CIRCUIT_STATE_READY:
                return [("harness:circuit-not-ready", f"{scn}: circuit did not become ready in the fault-free build")], 0, None
            if phase == "transfer":
                w.send_out("O", c, ("9.9.9.9", 99), BT_PAYLOAD)
                w.flush()
                for t in w.loop.transports:
                    if t.sent:
                        t.inject(BT_PAYLOAD, ("9.9.9.9", 99))
                w.send_out("O", c, ("9.9.9.9", 99), BT_PAYLOAD)   # left in flight
                w.loop.settle()
        if busy:
            for name in path:
                o = ov[name]
                if busy == "chatty":
                    continue
                if busy == "busy":
                    o.candidates.clear()        # knows nobody it could build through ...
                else:
                    o.candidates.clear()        # ... or only an exit whose key cannot do the key exchange ...
                    o.candidates[w.peer_of(name, "L")] = sorted(EXIT_ALL)
                o.circuits_needed[1] = 1        # ... but wants a circuit: create_circuit fails on every do_circuits()
        # who holds what right now (white box): the initiator tears down whatever entry it has for this circuit
        plan.arm()
        w.batch = faults.get("sched") == "batch"     # from the trigger on: back-to-back datagrams share a loop iteration
        t0 = w.loop.time()
        if phase == "first-data":
            # the very first data cell of the circuit is sent just before the teardown (a fault may let the
            # destroy overtake it, so that the exit socket is opened while its removal is already under way)
            w.send_out("O", c, ("9.9.9.9", 99), BT_PAYLOAD)
        did = _teardown(w, ini, cid)
        T = deadline(ov["O"].settings)
        if busy == "chatty":
            end = w.loop.time() + T
            while w.loop.time() < end:
                w.run_for(min(CHATTER_PERIOD, end - w.loop.time()))
                for t in w.open_transports():
                    t.inject(BT_PAYLOAD, ("9.9.9.9", 99))
                w.loop.settle()
            w.flush()
        else:
            w.run_for(T)
        sizes = w.table_sizes()
        open_tr = [(t.owner.name if t.owner else None, t.local_addr) for t in w.open_transports()]
        o_circ = ov["O"].circuits.get(cid)
        live = (ini != "O" and w.nodes["O"].endpoint.is_open() and o_circ is not None
                and o_circ.state != "CLOSING")
        trail = f"h={h} faults={faults} action={did}; first datagrams after trigger: {plan.log[:10]}"
        if ini == "O" and did == "remove_circuit" and cid in ov["O"].circuits:
            viol.append((f"originator-keeps-circuit|phase:{phase}", f"O still has the circuit it removed; {trail}"))
        if live:
            # Not reclaimed because it is still in use: the originator never learnt of the teardown (or re-built the
            # circuit by retrying) and keeps it alive with pings. That is a working circuit, not a leak.
            obs = ("survived", o_circ.state, len(o_circ.hops), did, plan.count)
            return viol, plan.count, obs
        for name, sz in sizes.items():
            if sz != (0, 0, 0):
                what = ("circuits", "relay_from_to", "exit_sockets")
                leaked = [what[i] for i in range(3) if sz[i]]
                viol.append((f"leak:{'+'.join(leaked)}|initiator:{ini}|phase:{phase}",
                             f"{name} still holds {dict(zip(what, sz))} {T:.0f}s after teardown by {ini} at phase "
                             f"{phase}/{k}; {trail}"))
        if open_tr:
            viol.append((f"open-socket|initiator:{ini}|phase:{phase}",
                         f"outside sockets still open at deadline: {open_tr}; {trail}"))
        if w.loop.exceptions:
            import traceback
            msgs = sorted({"".join(traceback.format_exception(e["exception"]))[-700:] if e.get("exception")
                           else str(e.get("message"))[:200] for e in w.loop.exceptions})
            viol.append((f"loop-exception|{str(w.loop.exceptions[0].get('exception'))[:50]}", f"{trail}: {msgs[:2]}"))
        obs = (tuple(sorted(sizes.items())), len(open_tr), did, plan.count, round(w.loop.time() - t0))
        return viol, plan.count, obs
    finally:
        w.close()


def _teardown(w: TunnelWorld, ini: str, cid: int) -> str:
    if ini == "offline":
        w.nodes["O"].endpoint.close()
        return "origin-offline"
    ov = w.ov[ini]
    node = w.nodes[ini]
    if ini == "O":
        if cid in ov.circuits:
            node.run(ov.remove_circuit, cid, "teardown", destroy=1)
            return "remove_circuit"
        return "nothing"
    # a relay or exit: it knows the circuit under the id its predecessor used
    for rid, relay in list(ov.relay_from_to.items()):
        node.run(ov.remove_relay, rid, "teardown", destroy=1)
    for eid in list(ov.exit_sockets):
        node.run(ov.remove_exit_socket, eid, "teardown", destroy=1)
    return f"relays={len(ov.relay_from_to)},exits={len(ov.exit_sockets)}"


# ---- worker: DFS over fault sets of one scenario -------------------------------------------------------------------

_BOUND = 2
_SEED = 0
_SINGLES = True


def explore_scenarios(chunk: list) -> list:
    res = []
    for scn in chunk:
        execs = 0
        outcomes = set()
        viols: dict[str, tuple] = {}
        max_n = 0

        def run(faults: dict) -> int:
            nonlocal execs, max_n
            v, n, obs = run_one(scn, faults, _SEED)
            execs += 1
            max_n = max(max_n, n)
            outcomes.add(repr(obs))
            for key, what in v:
                if key not in viols:
                    viols[key] = (what, {"scenario": scn, "faults": faults, "seed": _SEED})
            return n

        bound = 1 if ("chatty" in str(scn[1]) and _BOUND <= 2) else _BOUND   # quick: chatty scenarios get single faults

        def dfs(drops: tuple, n: int) -> None:
            if len(drops) >= bound:
                return
            start = drops[-1] + 1 if drops else 0
            for j in range(start, n):
                d2 = (*drops, j)
                n2 = run({i: "drop" for i in d2})
                dfs(d2, n2)

        n0 = run({})
        dfs((), n0)
        # scheduling mode "batch": the fault-free run and every single fault once more with all datagrams queued for a
        # node handled in one loop iteration
        nb = run({"sched": "batch"})
        for j in range(nb):
            for f in ("drop", "dup", "delay"):
                run({j: f, "sched": "batch"})
        if _SINGLES:
            for j in range(n0):
                run({j: "dup"})
                run({j: "delay"})
                if bound >= 2:
                    for i in range(n0 + 2):
                        if i != j:
                            run({j: "dup", i: "drop"} if i > j else {i: "drop", j: "dup"})
        res.append((scn, execs, max_n, len(outcomes), viols))
    return res


# ---- join limit and relay_early ------------------------------------------------------------------------------------

def join_limit_checks(seed: int) -> tuple[list, int]:
    """max_joined_circuits = 2; 4 originators' create requests in every order; joined count never exceeds the limit."""
    viol, execs = [], 0
    names = ["A", "B", "C", "D"]
    for limit, route in [(lim, r) for lim in (1, 2) for r in ("attr-after-load", *CONFIG_ROUTES)]:
        for order in itertools.permutations(range(4)):
            if route == "attr-after-load":
                w = TunnelWorld(("c09j", seed, limit, order), {**{n: RELAY for n in names}, "X": EXIT_ALL},
                                key_offset=seed)
            else:
                w = TunnelWorld(("c09j", seed, limit, order, route), {**{n: RELAY for n in names}, "X": EXIT_ALL},
                                key_offset=seed, route=route, max_joined_circuits=limit)
            try:
                x = w.ov["X"]
                if route == "attr-after-load":
                    x.settings.max_joined_circuits = limit
                cs = [w.start_circuit(n, ["X"]) for n in names]
                assert len(w.inflight) == 4
                dgs = list(w.inflight)
                w.inflight.clear()
                peak = 0
                for i in order:
                    w.deliver_datagram(dgs[i])
                    peak = max(peak, len(x.relay_from_to) + len(x.exit_sockets))
                w.flush()
                peak = max(peak, len(x.relay_from_to) + len(x.exit_sockets))
                ready = sum(1 for c in cs if c.state == CIRCUIT_STATE_READY)
                execs += 1
                if peak > limit or ready > limit:
                    viol.append((f"join-limit-exceeded:configured-by={route}",
                                 f"limit={limit} (configured by {route}) order={order}: joined peak {peak}, "
                                 f"{ready} circuits became ready", {"kind": "join", "limit": limit, "order": order,
                                                                      "seed": seed, "route": route}))
                if ready < limit:
                    viol.append((f"join-limit-too-strict:configured-by={route}",
                                 f"limit={limit} (configured by {route}) order={order}: only {ready} joined",
                                 {"kind": "join", "limit": limit, "order": order, "seed": seed, "route": route}))
            finally:
                w.close()
    return viol, execs


def relay_early_checks(seed: int) -> tuple[list, int]:
    """A relay forwards at most max_relay_early relay_early-flagged cells per circuit, whatever the originator sets."""
    viol, execs = [], 0
    for h, budget, route in [(h, b, r) for h in (2, 3) for b in (8, 3) for r in ("attr-after-load", *CONFIG_ROUTES)]:
        if True:
            if route == "attr-after-load":
                w = TunnelWorld(("c09r", seed, h, budget), ROLES, key_offset=seed)
            else:
                w = TunnelWorld(("c09r", seed, h, budget, route), ROLES, key_offset=seed, route=route,
                                max_relay_early=budget)
            try:
                if route == "attr-after-load":
                    for o in w.ov.values():
                        o.settings.max_relay_early = budget
                c = w.build_circuit("O", PATHS[h])
                if c.state != CIRCUIT_STATE_READY:
                    viol.append(("harness:circuit-not-ready", f"h={h} budget={budget} route={route}", None))
                    continue
                c.relay_early_count = -10 ** 6   # a misbehaving originator: every cell is flagged relay_early
                first = w.nodes[PATHS[h][0]].address
                n0 = len(w.wire_log)
                for _ in range(20):
                    w.send_out("O", c, ("9.9.9.9", 99), BT_PAYLOAD)
                w.flush()
                fwd_early = 0
                for dg in w.wire_log[n0:]:
                    f = w.cell_fields(dg.data)
                    if f and tuple(dg.src) == tuple(first) and tuple(dg.dst) != tuple(w.nodes["O"].address) and f[2]:
                        fwd_early += 1
                execs += 1
                # the RelayRoute starts its count at 1 (the extend that created it), extends while building count too
                if fwd_early > budget:
                    viol.append((f"relay-early-budget:configured-by={route}",
                                 f"h={h} budget={budget} (configured by {route}): first relay forwarded {fwd_early} "
                                 f"relay_early cells after the circuit was ready", {"kind": "relay_early", "h": h,
                                                                                   "budget": budget, "seed": seed}))
            finally:
                w.close()
    return viol, execs


def run(ctx: core.Ctx) -> core.Report:
    global _BOUND, _SEED, _SINGLES
    _BOUND = 3 if ctx.thorough else 2
    _SEED = ctx.seed % 8
    scns = scenarios()
    if not ctx.thorough:
        # quick: every hop count/initiator, phases thinned to first/last build step, ready, transfer
        keep = []
        for s in scns:
            h, ini, (ph, k) = s
            last = {1: 1, 2: 5, 3: 11}[h]
            if ph != "build" or k in (1, last, (last + 1) // 2):
                keep.append(s)
        scns = keep
    res = core.pmap(explore_scenarios, scns, ctx.jobs, chunk=1)
    execs = sum(r[1] for r in res)
    violations = []
    distinct = 0
    per = []
    for scn, e, max_n, n_out, viols in sorted(res, key=lambda r: repr(r[0])):
        distinct += n_out
        per.append({"scenario": scn, "executions": e, "fault_candidates": max_n, "distinct_outcomes": n_out})
        for key, (what, rp) in viols.items():
            violations.append(core.Violation(key, what, rp))
    jv, je = join_limit_checks(_SEED)
    rv, re_ = relay_early_checks(_SEED)
    for key, what, rp in jv + rv:
        violations.append(core.Violation(key, what, rp))
    cov = {
        "evaluations": execs + je + re_,
        "distinct_nontrivial": distinct,
        "rule": "one evaluation = one complete run of real TunnelCommunity nodes (default settings) from circuit build "
                "through teardown to the deadline under one fault set; fault sets = every subset of <= bound dropped "
                f"datagrams among those sent within {FAULT_WINDOW:.0f}s after the trigger (DFS: indices re-read from each "
                "run), every single duplication and adjacent reordering, and dup+drop pairs; the fault-free run and every single fault again in scheduling mode 'batch' (all datagrams queued for one node handled in one loop iteration); distinct_nontrivial = "
                "distinct (table sizes, open sockets, teardown action, datagrams sent, duration) observations summed "
                "over scenarios",
        "samples": per[:3] + per[-2:],
        "exhaustive": True,
        "bound_drops": _BOUND,
        "scenarios": len(scns),
        "join_limit_executions": je,
        "relay_early_executions": re_,
        "deadline_s": deadline(type("S", (), {"circuit_timeout": 60, "max_time_inactive": 20,
                                               "remove_tunnel_delay": 5})),
    }
    return core.Report(LEVEL, cov, violations,
                       ["crypto primitives (ipv8_rust_tunnels) trusted", "one circuit in the world at a time (C05 covers "
                        "concurrent circuits)", "PythonCryptoEndpoint only (the Rust endpoint is not explored)"])


def replay(ctx: core.Ctx, data) -> list:  # noqa: ANN001
    if data is None:
        return []
    if data.get("kind") == "join":
        v, _ = join_limit_checks(data["seed"])
        return [core.Violation(k, w) for k, w, _ in v]
    if data.get("kind") == "relay_early":
        v, _ = relay_early_checks(data["seed"])
        return [core.Violation(k, w) for k, w, _ in v]
    scn = data["scenario"]
    scn = (scn[0], scn[1], tuple(scn[2]))
    v, _, _ = run_one(scn, {int(k): f for k, f in data["faults"].items()}, data["seed"])
    return [core.Violation(k, w) for k, w in v]
