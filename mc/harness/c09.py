"""
C09 - Tunnel state is always reclaimed, whatever gets lost.

Fault enumeration on real TunnelCommunity nodes (default timing settings) over SimNet:
for every hop count, teardown initiator, phase and every set of <= d message faults (drop / duplicate /
delay) in the window after the trigger, virtual time runs to the deadline T and every table must be empty and
every outside socket closed.  Plus: join limit under every order of create requests; relay_early budget.

Hidden-services family (see the section "hidden services" below and notes/C09.md): the same for a linked end-to-end
circuit of real HiddenTunnelCommunity nodes (c04.E2EBench world): trigger x net x fault set, deadline, then second plain
circuits through the surviving nodes that are abandoned, second deadline; oracle by ownership (an entry may stay only
while a running originator still uses it), no stray outside sockets, periodic tasks alive, no loop exceptions.
"""
from __future__ import annotations

import itertools
import os
import pickle
import traceback

from ipv8.messaging.anonymization.payload import CreatePayload, DataPayload
from ipv8.messaging.anonymization.tunnel import CIRCUIT_STATE_READY

from .. import core, seams
from . import c04
from ..tunnelworld import BT_PAYLOAD, CONFIG_ROUTES, EXIT_ALL, RELAY, TunnelWorld

LEVEL = "fault_enumeration"

ROLES = {"O": RELAY, "R1": RELAY, "R2": RELAY, "X": EXIT_ALL}
PATHS = {1: ["X"], 2: ["R1", "X"], 3: ["R1", "R2", "X"]}
LEGACY_CURVES = ("very-low", "low", "medium", "high")
CHATTER_PERIOD = 7.0
FAULT_WINDOW = 30.0     # seconds after the trigger during which sent datagrams are fault candidates


def deadline(settings) -> float:  # noqa: ANN001
    return (settings.circuit_timeout + settings.max_time_inactive + 5 + settings.remove_tunnel_delay + 10)


class FaultPlan:
    """faults: dict index -> 'drop' | 'dup' | 'delay' applied to the i-th datagram sent after arming."""

    def __init__(self, world: TunnelWorld, faults: dict[int, str], window: float = FAULT_WINDOW) -> None:
        self.world = world
        self.faults = faults
        self.window = window
        self.armed_at: float | None = None
        self.count = 0
        self.held: list = []
        self.log: list = []
        world.send_hook = self.hook
        world.idle_hook = self.release_all

    def arm(self) -> None:
        self.armed_at = self.world.loop.time()

    def hook(self, dg):  # noqa: ANN001, ANN201
        w = self.world
        if self.armed_at is None or w.loop.time() > self.armed_at + self.window:
            return self._release(dg)
        i = self.count
        self.count += 1
        f = self.faults.get(i)
        self.log.append((i, w.kind(dg), dg.src[0], dg.dst[0], f))
        if f == "drop":
            w.dropped.append(dg)
            return None
        if f == "dup":
            w.wire_log.append(dg)
            w.inflight.append(dg)
            return self._release(dg)
        if f == "delay":
            self.held.append(dg)     # delivered after the next datagram anybody sends (adjacent reordering)
            return None
        return self._release(dg)

    def _release(self, dg):  # noqa: ANN001, ANN201
        if self.held:
            held, self.held = self.held, []
            w = self.world
            w.wire_log.append(dg)
            w.inflight.append(dg)
            for h in held:
                w.wire_log.append(h)
                w.inflight.append(h)
            return None
        return dg

    def release_all(self) -> bool:
        """A delayed datagram is overtaken by everything sent until the network goes quiet, then delivered."""
        if not self.held:
            return False
        held, self.held = self.held, []
        for h in held:
            self.world.wire_log.append(h)
            self.world.inflight.append(h)
        return True


def scenarios() -> list[tuple]:
    out = []
    for h in (1, 2, 3):
        path = PATHS[h]
        n_build = 2 * h + 2 * (h - 1) * 0  # placeholder, phases are expressed in delivered-datagram counts below
        del n_build
        initiators = ["O", *path, "offline"]
        # phases: ("build", k) trigger after k datagrams of the handshake were delivered; "ready"; "transfer"
        build_msgs = {1: 2, 2: 6, 3: 12}[h]
        phases = [("build", k) for k in range(1, build_msgs)] + [("ready", 0), ("transfer", 0), ("first-data", 0)]
        for ini in initiators:
            for ph in phases:
                out.append((h, ini, ph))
        # a node of the path dies (endpoint closed) while the circuit is being built; the originator stays: it retries,
        # gives up within circuit_timeout, and everything the attempt left on the path is reclaimed
        for name in path:
            for ph in phases[:build_msgs - 1]:
                out.append((h, f"dead:{name}", ph))
        # the first hop never answers (dead before the create arrives) while the originator's application asks for more
        # circuits of this length during the removal delay of the given-up circuit, and stops asking 8 s later
        if h >= 2:
            out.append((h, f"dead:{path[0]}+wanting", ("build", 0)))
        # ... and the same with a second candidate (A1) for that position, so that the retry has somebody to turn to:
        # pos 0 = the first hop O picked dies, pos 1 (h = 3) = the second hop O picked from R1's candidates dies
        if h >= 2:
            for ph in [("build", 0)] + phases[:build_msgs - 1]:
                out.append((h, "deadalt:0", ph))
        if h == 3:
            for ph in phases[2:build_msgs - 1]:
                out.append((h, "deadalt:1", ph))
            # ... or the first hop's candidate list names, behind R2, an entry that is not a key at all
            out.append((h, "deadalt:1g", ("build", 3)))
        # the same abandonment, but every relay/exit on the path also *wants* circuits of its own that it cannot
        # build (it knows no exit): its periodic do_circuits() takes the "creation failed" branch before the sweep
        for ph in phases:
            out.append((h, "offline+busy", ph))
        # ... or the only exit candidate it knows has a legacy (non-curve25519) identity key, which cannot take part
        # in the circuit key exchange: one scenario per legacy curve
        for curve, ph in zip(LEGACY_CURVES, [("ready", 0), ("transfer", 0), ("first-data", 0), ("ready", 0)]):
            out.append((h, f"offline+busy-legacy:{curve}", ph))
        # abandoned mid-transfer while the outside host keeps answering: every CHATTER_PERIOD seconds an allowed packet
        # arrives on each open outside socket until the deadline
        for ph in (("transfer", 0), ("first-data", 0)):
            out.append((h, "offline+chatty", ph))
        # the first hop is itself an exit and carries data of the half-built circuit (its exit entry opens its outside
        # sockets) before the circuit is extended through it and it becomes a relay
        if h >= 2:
            for ini in ("O", "offline"):
                out.append((h, f"{ini}+halfdata", ("ready", 0)))
        # a host name that does not resolve: the resolver's failure is reported k loop iterations after the removal delay
        # of the exit entry ran out (k = 0: in the very iteration in which the exit entry is closed)
        if h <= 2:
            for k in range(4):
                out.append((h, f"O+dnsfail:{k}", ("transfer", 0)))
        # hosts without IPv6 (the exit's IPv6 outside socket cannot be created), torn down by the originator / abandoned
        for ini in ("O", "offline"):
            for ph in (("transfer", 0), ("first-data", 0)):
                out.append((h, f"{ini}+noipv6", ph))
    return out


def run_one(scn: tuple, faults: dict[int, str], seed: int):  # noqa: ANN201
    """Returns (violations, n_fault_candidates, observation)."""
    if scn[0] == "hs":
        return run_hs(scn, faults, seed)
    h, ini, (phase, k) = scn
    busy = ini.split("+")[1] if "+" in ini else None
    ini = ini.split("+")[0]
    path = PATHS[h]
    viol = []
    if busy and busy.startswith("busy-legacy"):
        w = TunnelWorld(("c09", seed, scn), {**ROLES, "L": EXIT_ALL}, key_offset=seed,
                        curves={"L": busy.split(":")[1]})
    elif busy == "halfdata":
        w = TunnelWorld(("c09", seed, scn), {**ROLES, "R1": EXIT_ALL}, key_offset=seed)
    elif ini.startswith("deadalt"):
        w = TunnelWorld(("c09", seed, scn), {**ROLES, "A1": RELAY}, key_offset=seed)
    else:
        w = TunnelWorld(("c09", seed, scn), ROLES, key_offset=seed)
    if busy == "noipv6":
        w.loop.fail_datagram_endpoint = "ipv6"       # these hosts have no IPv6: the exit's second outside socket fails
    try:
        plan = FaultPlan(w, {int(i): f for i, f in faults.items() if str(i) != "sched"})
        ov = w.ov
        if "L" in ov:
            # the legacy-key peer becomes known to the path nodes only once the circuit under test exists
            for name in ROLES:
                ov[name].candidates.pop(w.peer_of(name, "L"), None)
        if busy == "wanting":
            w.run_for(2.5)       # the periodic sweeps (every 5 s from t = 0) then fall inside the 5 s removal delay
        if ini.startswith("deadalt"):
            if ini == "deadalt:0":
                w.restrict("O", ["R1", "A1", "X"])
                if h == 3:
                    w.restrict("R1", ["R2"])
                    w.restrict("A1", ["R2"])
            elif ini == "deadalt:1g":
                w.restrict("O", ["R1", "X"])
                w.restrict("R1", ["R2"])
                real_pack = ov["R1"].serializer.pack

                def pack_with_garbage(fmt, item, *a, **kw):  # noqa: ANN001, ANN002, ANN003, ANN202
                    if fmt == "varlenH-list":
                        item = [*item, b"\x01not-a-key"]
                    return real_pack(fmt, item, *a, **kw)
                ov["R1"].serializer.pack = pack_with_garbage
            else:
                w.restrict("O", ["R1", "X"])
                w.restrict("R1", ["R2", "A1"])
            c = w.nodes["O"].run(ov["O"].create_circuit, h, required_exit=w.peer_of("O", "X"))
        else:
            c = w.start_circuit("O", path)
        cid = c.circuit_id
        if busy == "halfdata":
            w.deliver(0)          # create reaches the first hop
            w.deliver(0)          # created reaches the originator (its extend is now in flight)
            assert len(c.hops) == 1, "first hop not confirmed"
            held, w.inflight[:] = list(w.inflight), []
            w.send_out("O", c, ("9.9.9.9", 99), BT_PAYLOAD)      # exits at the first hop: one layer, one hop
            w.flush()
            w.inflight.extend(held)                               # now the extension goes on
        if phase == "build":
            for _ in range(k):
                if not w.inflight:
                    break
                w.deliver(0)
        else:
            w.flush()
            if c.state != CIRCUIT_STATE_READY:
                return [("harness:circuit-not-ready", f"{scn}: circuit did not become ready in the fault-free build")], 0, None
            if phase == "transfer":
                w.send_out("O", c, ("9.9.9.9", 99), BT_PAYLOAD)
                w.flush()
                for t in w.loop.transports:
                    if t.sent:
                        t.inject(BT_PAYLOAD, ("9.9.9.9", 99))
                w.send_out("O", c, ("9.9.9.9", 99), BT_PAYLOAD)   # left in flight
                w.loop.settle()
        if busy:
            for name in path:
                o = ov[name]
                if busy in ("chatty", "noipv6", "wanting", "halfdata") or busy.startswith("dnsfail"):
                    continue
                if busy == "busy":
                    o.candidates.clear()        # knows nobody it could build through ...
                else:
                    o.candidates.clear()        # ... or only an exit whose key cannot do the key exchange ...
                    o.candidates[w.peer_of(name, "L")] = sorted(EXIT_ALL)
                o.circuits_needed[1] = 1        # ... but wants a circuit: create_circuit fails on every do_circuits()
        # who holds what right now (white box): the initiator tears down whatever entry it has for this circuit
        plan.arm()
        w.batch = faults.get("sched") == "batch"     # from the trigger on: back-to-back datagrams share a loop iteration
        t0 = w.loop.time()
        if phase == "first-data":
            # the very first data cell of the circuit is sent just before the teardown (a fault may let the
            # destroy overtake it, so that the exit socket is opened while its removal is already under way)
            w.send_out("O", c, ("9.9.9.9", 99), BT_PAYLOAD)
        if busy and busy.startswith("dnsfail"):
            from ipv8.messaging.interfaces.udp.endpoint import DomainAddress  # noqa: PLC0415
            w.loop.resolver_gate = w.loop.create_future()
            w.send_out("O", c, DomainAddress("no-such-host.invalid", 99), BT_PAYLOAD)
            w.flush()
        did = _teardown(w, ini, cid)
        T = deadline(ov["O"].settings)
        if busy and busy.startswith("dnsfail"):
            gate = w.loop.resolver_gate

            def report(k: int) -> None:
                if k:
                    w.loop.call_soon(report, k - 1)
                elif not gate.done():
                    gate.set_result(None)         # getaddrinfo goes on and raises gaierror: unknown host
            # the destroy reaches the exit at the present virtual instant; its entry is closed remove_tunnel_delay later
            w.loop.call_at(w.loop.time() + ov["X"].settings.remove_tunnel_delay, report, int(busy.split(":")[1]))
        if busy == "wanting":
            w.run_for(11.0)
            ov["O"].circuits_needed[h] = 2
            w.run_for(9.0)
            ov["O"].circuits_needed.clear()
            w.run_for(T - 20.0)
        elif busy == "chatty":
            end = w.loop.time() + T
            while w.loop.time() < end:
                w.run_for(min(CHATTER_PERIOD, end - w.loop.time()))
                for t in w.open_transports():
                    t.inject(BT_PAYLOAD, ("9.9.9.9", 99))
                w.loop.settle()
            w.flush()
        else:
            w.run_for(T)
        sizes = w.table_sizes()
        open_tr = [(t.owner.name if t.owner else None, t.local_addr) for t in w.open_transports()]
        o_circ = ov["O"].circuits.get(cid)
        live = (ini != "O" and w.nodes["O"].endpoint.is_open() and o_circ is not None
                and o_circ.state != "CLOSING")
        trail = f"h={h} faults={faults} action={did}; first datagrams after trigger: {plan.log[:10]}"
        dead = [n for n, o in ov.items() if not (o.is_pending_task_active("do_circuits")
                                                 and o.is_pending_task_active("do_ping"))]
        if dead:
            viol.append((f"sweep-dead|initiator:{ini.split(':')[0]}|phase:{phase}",
                         f"the periodic do_circuits/do_ping task of {dead} has ended: these nodes never again reclaim "
                         f"anything by inactivity, age or traffic; {trail}"))
        if ini == "O" and did == "remove_circuit" and cid in ov["O"].circuits:
            viol.append((f"originator-keeps-circuit|phase:{phase}", f"O still has the circuit it removed; {trail}"))
        if live and o_circ.state == "EXTENDING":
            # circuit_timeout (60 s) bounds the time a circuit may take to be built; the deadline lies 40 s beyond it
            viol.append((f"still-extending-at-deadline|initiator:{ini.split(':')[0]}|phase:{phase}",
                         f"O still holds the circuit in state EXTENDING with {len(o_circ.hops)} of {o_circ.goal_hops} "
                         f"hops {T:.0f}s after the trigger (request cache: "
                         f"{sorted(ov['O'].request_cache._identifiers)}); {trail}"))
        if live:
            # Not reclaimed because it is still in use: the originator never learnt of the teardown (or re-built the
            # circuit by retrying) and keeps it alive with pings. That is a working circuit, not a leak.
            obs = ("survived", o_circ.state, len(o_circ.hops), did, plan.count)
            return viol, plan.count, obs
        for name, sz in sizes.items():
            if sz != (0, 0, 0):
                what = ("circuits", "relay_from_to", "exit_sockets")
                leaked = [what[i] for i in range(3) if sz[i]]
                viol.append((f"leak:{'+'.join(leaked)}|initiator:{ini}|phase:{phase}",
                             f"{name} still holds {dict(zip(what, sz))} {T:.0f}s after teardown by {ini} at phase "
                             f"{phase}/{k}; {trail}"))
        if open_tr:
            viol.append((f"open-socket|initiator:{ini}|phase:{phase}",
                         f"outside sockets still open at deadline: {open_tr}; {trail}"))
        excs = list(w.loop.exceptions)
        if busy == "noipv6":
            # the failure to create the IPv6 socket is reported by the socket-creation task itself: that is the scenario
            excs = [e for e in excs if not (isinstance(e.get("exception"), OSError) and e["exception"].errno == 97)]
        if excs:
            import traceback
            msgs = sorted({"".join(traceback.format_exception(e["exception"]))[-700:] if e.get("exception")
                           else str(e.get("message"))[:200] for e in excs})
            viol.append((f"loop-exception|{str(excs[0].get('exception'))[:50]}", f"{trail}: {msgs[:2]}"))
        obs = (tuple(sorted(sizes.items())), len(open_tr), did, plan.count, round(w.loop.time() - t0))
        return viol, plan.count, obs
    finally:
        w.close()


def _teardown(w: TunnelWorld, ini: str, cid: int) -> str:
    if ini == "offline":
        w.nodes["O"].endpoint.close()
        return "origin-offline"
    if ini.startswith("dead:"):
        w.nodes[ini[5:]].endpoint.close()
        return f"{ini[5:]}-offline"
    if ini.startswith("deadalt:"):
        c = w.ov["O"].circuits.get(cid)
        pos = int(ini[8:9])
        hop = None if c is None else (c.hops[pos] if len(c.hops) > pos else c.unverified_hop)
        if hop is None:
            name = "R2"       # the originator has already given the circuit up (1g on a correct tree)
        else:
            name = next(n for n, node in w.nodes.items()
                        if node.my_peer.public_key.key_to_bin() == hop.peer.public_key.key_to_bin())
        w.nodes[name].endpoint.close()
        return f"{name}-offline(position {pos})"
    ov = w.ov[ini]
    node = w.nodes[ini]
    if ini == "O":
        if cid in ov.circuits:
            node.run(ov.remove_circuit, cid, "teardown", destroy=1)
            return "remove_circuit"
        return "nothing"
    # a relay or exit: it knows the circuit under the id its predecessor used
    for rid, relay in list(ov.relay_from_to.items()):
        node.run(ov.remove_relay, rid, "teardown", destroy=1)
    for eid in list(ov.exit_sockets):
        node.run(ov.remove_exit_socket, eid, "teardown", destroy=1)
    return f"relays={len(ov.relay_from_to)},exits={len(ov.exit_sockets)}"


# ---- hidden services: end-to-end (rendezvous) circuits --------------------------------------------------------------
#
# World (c04.E2EBench, built by the real rendezvous protocol, default timing settings):
#     e2e circuit       D -> N3 -> N2 (rendezvous point) <- S         D: RP_DOWNLOADER (2 hops), S: RP_SEEDER (1 hop)
#     introduction      S -> N1 -> E (introduction point, stub DHT)   S: IP_SEEDER (2 hops)
#     D's data circuit  D -> E                                        (the one it looks peers up with)
#     P, Q              bystanders that later originate the *second* circuits
# Scenario = ("hs", trigger, net).  After the trigger and the fault set, virtual time runs to the deadline (stage 1);
# then P and Q build plain data circuits through the path nodes that are still running (P -> N3 -> N2 -> E and
# Q -> [S] -> [D] -> E), move a packet out and back over each, go offline, and time runs to a second deadline
# (stage 2).
# net "closed": what an exit socket sends to the outside is lost (D cannot reach the introduction point again);
# net "bridged": the outside world delivers packets addressed to the nodes' own addresses / exit ports (as the
# Internet would), so a downloader that stays in the swarm rebuilds its e2e circuit through the same nodes.
#
# Oracle at both deadlines: an entry (node, table, circuit id) that existed at the trigger - or belongs to a second
# circuit - may only still be there if it is *in use*: reachable, hop by hop over running nodes, from a circuit that
# a running originator holds and is not closing (S's introduction circuit while S seeds and runs, D's data circuit
# while D runs, an e2e circuit whose originator never learnt of a teardown).  Entries created after the trigger by the
# nodes themselves (rebuilt e2e circuits, new rendezvous circuits) are not judged: they belong to live originators and
# may be in the middle of their own teardown at the deadline.

HS_TRIGGERS = ("d-offline", "s-offline", "d-leave", "d-traffic", "n2-remove", "n3-remove")
HS_TRIGGERS_THOROUGH = (*HS_TRIGGERS, "s-leave")
HS_NETS = ("closed", "bridged")
HS_MAX_TRAFFIC = 64 * 1024       # D's settings.max_traffic in the trigger "d-traffic" (default: 10 GiB)
HS_PUSH = (24, 1400)             # packets each way, bytes per packet: takes D's e2e circuit over HS_MAX_TRAFFIC
HS_TICK = 2e-6                   # virtual seconds one loop iteration takes (twice the loop's clock resolution)
HS_E2E_TABLES = (("D", "circuits", 0), ("N3", "relay_from_to", 0), ("N3", "relay_from_to", 1),
                 ("N2", "relay_from_to", 1), ("N2", "relay_from_to", 2), ("S", "circuits", 2))
_HS_TABLES = ("circuits", "relay_from_to", "exit_sockets")
HS_ROLES = {**c04.E2E_ROLES, "P": RELAY, "Q": RELAY}


class HSBench(c04.E2EBench):
    """c04's linked hidden-service world plus the bystanders P and Q."""

    def make_world(self) -> TunnelWorld:
        self.dht = c04.StubDHT()
        return TunnelWorld(("c09-hs", self.seed), HS_ROLES, community_cls=c04.RecHidden,
                           key_offset=self.seed % 5, dht_provider=self.dht)


def _hs_entries(w: TunnelWorld) -> set:
    return {(n, tb, cid) for n, o in w.ov.items() for tb in _HS_TABLES for cid in getattr(o, tb)}


def _hs_in_use(w: TunnelWorld) -> set:
    """Entries reachable from a non-closing circuit of a running originator over running nodes."""
    by_addr = {tuple(n.address): name for name, n in w.nodes.items()}
    up = {name for name, n in w.nodes.items() if n.endpoint.is_open()}
    live: set = set()

    def walk(name: str | None, cid: int) -> None:
        while name in up:
            o = w.ov[name]
            if cid in o.exit_sockets:
                live.add((name, "exit_sockets", cid))
            r = o.relay_from_to.get(cid)
            if r is None or (name, "relay_from_to", cid) in live:
                return
            live.add((name, "relay_from_to", cid))
            if r.circuit_id in o.relay_from_to:
                live.add((name, "relay_from_to", r.circuit_id))     # the same hop, other direction
            name, cid = by_addr.get(tuple(r.hop.address)), r.circuit_id
            if name is not None and cid in w.ov[name].circuits:
                return                                              # a rendezvous relay: the far end is an originator

    for name in sorted(up):
        for cid, c in w.ov[name].circuits.items():
            if c.state == "CLOSING" or c.hop is None:
                continue
            live.add((name, "circuits", cid))
            walk(by_addr.get(tuple(c.hop.address)), cid)
    return live


def _hs_send(b, who: str, data: bytes) -> None:  # noqa: ANN001
    w = b.w
    c = b.ce if who == "D" else b.cs
    zero = ("0.0.0.0", 0)
    w.nodes[who].run(w.ov[who].send_data, c.hop.address, c.circuit_id, zero, zero, data)


def _hs_trigger(b, trig: str) -> str:  # noqa: ANN001
    w = b.w
    if trig in ("d-offline", "s-offline"):
        w.nodes[trig[0].upper()].endpoint.close()
        return "offline"
    if trig in ("d-leave", "s-leave"):
        name = trig[0].upper()
        n0 = len(w.ov[name].circuits)
        w.nodes[name].run(w.ov[name].leave_swarm, b.SERVICE)
        w.loop.settle()
        return f"leave_swarm({n0} circuits)"
    if trig == "d-traffic":
        return "sweep"          # nothing to do: D's next do_circuits() finds the circuit over the limit
    name = trig.split("-")[0].upper()
    o = w.ov[name]
    rids = list(o.relay_from_to)
    for rid in rids:
        w.nodes[name].run(o.remove_relay, rid, "teardown", destroy=1)
    return f"remove_relay x{len(rids)}"


def _hs_second(w: TunnelWorld, roles: dict) -> tuple[set, list, str | None]:
    """Bystanders P and Q build, use and abandon plain data circuits through the running path nodes."""
    ov = w.ov
    up = [n for n in ("S", "D") if w.nodes[n].endpoint.is_open()]
    plans = [("P", ["N3", "N2", "E"]), *([("Q", [*up, "E"])] if up else [])]
    saved = {n: dict(o.candidates) for n, o in ov.items()}
    before = _hs_entries(w)
    n_tr = len(w.loop.transports)
    circs = []
    for origin, path in plans:
        for n in [origin, *path[:-1]]:            # everybody on the path knows the others (as after a walk)
            ov[n].candidates.clear()
            for m in path:
                if m != n:
                    ov[n].candidates[w.peer_of(n, m)] = sorted(roles[m])
        circs.append(w.start_circuit(origin, path))
        w.flush()
    for n, o in ov.items():
        o.candidates.clear()
        o.candidates.update(saved[n])
    for (origin, path), c in zip(plans, circs):
        want = [w.nodes[n].my_peer.public_key.key_to_bin() for n in path]
        if c.state != CIRCUIT_STATE_READY or [h.public_key_bin for h in c.hops] != want:
            return set(), plans, f"second circuit {origin} -> {path} did not become ready over that path"
    for (origin, _), c in zip(plans, circs):
        w.send_out(origin, c, ("9.9.9.9", 99), BT_PAYLOAD)
    w.flush()
    exited = [t for t in w.loop.transports[n_tr:] if t.sent]
    for t in exited:
        t.inject(BT_PAYLOAD, ("9.9.9.9", 99))
    w.flush()
    if len(exited) != len(circs):
        return set(), plans, f"{len(exited)} of {len(circs)} second circuits moved a packet out"
    second = _hs_entries(w) - before
    for origin, _ in plans:
        w.nodes[origin].endpoint.close()
    return second, plans, None


class HSPrepared:
    """A hidden-services world at the moment just before the trigger (the same for every fault set of a scenario)."""

    def __init__(self, scn: tuple, seed: int) -> None:
        _, self.trig, self.net = scn
        self.scn = scn
        self.b = b = HSBench("e2e", seed)          # raises c04.HarnessError
        try:
            w = b.w
            d = w.ov["D"]
            if self.trig == "d-traffic":
                d.settings.max_traffic = HS_MAX_TRAFFIC
                for i in range(HS_PUSH[0]):
                    _hs_send(b, "D", bytes([i]) * HS_PUSH[1])
                    _hs_send(b, "S", bytes([i + 100]) * HS_PUSH[1])
                    w.flush()
                others = [c.bytes_up + c.bytes_down for c in d.circuits.values() if c is not b.ce]
                if not (b.ce.bytes_up + b.ce.bytes_down > HS_MAX_TRAFFIC > 4 * max(others)):
                    raise c04.HarnessError(f"e2e circuit at {b.ce.bytes_up + b.ce.bytes_down} bytes, others {others}, "
                                           f"limit {HS_MAX_TRAFFIC}")
            # mid-transfer: one packet each way is in flight when the trigger happens
            _hs_send(b, "D", b"\x01" * 200)
            _hs_send(b, "S", b"\x02" * 200)
            w.loop.settle()
            cid = b.link_cid["A"]
            self.e2e = {(n, tb, cid[k]) for n, tb, k in HS_E2E_TABLES}
            self.at_trigger = _hs_entries(w)
            if not self.e2e <= self.at_trigger:
                raise c04.HarnessError(f"e2e entries missing at the trigger: {sorted(self.e2e - self.at_trigger)}")
        except BaseException:
            b.close()
            raise

    def close(self) -> None:
        self.b.close()


def _hs_tick(loop) -> None:  # noqa: ANN001
    """
    From now on every loop iteration takes HS_TICK seconds of virtual time, as iterations do in reality: timers armed
    in successive iterations for the same delay (the sweep re-arming its 5 s period, then the removal task it started
    beginning its 5 s remove_tunnel_delay) come due in the order in which they were armed.  Without this they fall due
    at the same virtual instant and asyncio's timer heap fires them in an unspecified order.
    """
    inner = loop.iteration

    def iteration() -> None:
        inner()
        seams.CLOCK.advance(HS_TICK)
    loop.iteration = iteration


def _hs_run_for(w: TunnelWorld, dt: float) -> None:
    """World.run_for for a clock that may also move between timers (see _hs_tick)."""
    end = w.loop.time() + dt
    guard = 0
    while True:
        w.flush()
        nt = w.loop.next_timer()
        if nt is None or nt > end:
            break
        seams.CLOCK.set(max(nt, seams.CLOCK.now))
        guard += 1
        if guard > 2_000_000:
            raise RuntimeError("timer storm")
    seams.CLOCK.set(max(end, seams.CLOCK.now))
    w.flush()


def hs_continue(p: HSPrepared, faults: dict):  # noqa: ANN201, C901
    """Trigger + fault set + stage 1 + second circuits + stage 2 on a prepared world (which is used up by this)."""
    b, trig, net, scn, e2e, at_trigger = p.b, p.trig, p.net, p.scn, p.e2e, p.at_trigger
    w = b.w
    ov = w.ov
    viol: list = []
    plan = FaultPlan(w, {int(i): f for i, f in faults.items() if str(i) != "sched"}, window=_HS_WINDOW)
    if net == "bridged":
        def idle() -> bool:
            released = plan.release_all()
            return bool(b._bridge()) or released      # noqa: SLF001
        w.idle_hook = idle
    exc0 = len(w.loop.exceptions)
    plan.arm()
    sched = faults.get("sched", "tick")
    w.batch = sched == "batch"
    if sched != "instant":
        _hs_tick(w.loop)
    did = _hs_trigger(b, trig)
    T = deadline(ov["D"].settings)
    trail = f"trigger={trig} net={net} faults={faults} action={did}; first datagrams after the trigger: "

    def cls(entry: tuple, second: set) -> str:
        return "e2e" if entry in e2e else "second" if entry in second else "other"

    def judge(stage: str, judged: set, second: set) -> tuple:
        present = _hs_entries(w)
        in_use = _hs_in_use(w)
        leaked = sorted((judged & present) - in_use, key=repr)
        since = "the trigger" if stage == "stage 1" else "the second circuits were abandoned"
        for which in ("e2e", "second", "other"):
            items = [i for i in leaked if cls(i, second) == which]
            if items:
                tables = "+".join(t for t in _HS_TABLES if any(i[1] == t for i in items))
                viol.append((f"hs-leak:{tables}|circuit:{which}|trigger:{trig}",
                             f"{stage}: {T:.0f}s after {since} these entries of the {which} circuit(s) are still held "
                             f"and no running originator uses them: {items}; {trail}{plan.log[:12]}"))
        es_ok = set()
        for n, o in ov.items():
            for c, es in o.exit_sockets.items():
                if (n, "exit_sockets", c) in in_use or (n, "exit_sockets", c) not in judged:
                    es_ok.update(id(t) for t in (es.transport_ipv4, es.transport_ipv6) if t is not None)
        stray = [(t.owner.name if t.owner else None, t.local_addr) for t in w.open_transports() if id(t) not in es_ok]
        if stray:
            viol.append((f"hs-open-socket|trigger:{trig}",
                         f"{stage}: outside sockets of exit sockets that are gone or unused are still open: {stray}; "
                         f"{trail}{plan.log[:12]}"))
        dead = [n for n, o in ov.items() if not (o.is_pending_task_active("do_circuits")
                                                 and o.is_pending_task_active("do_ping"))]
        if dead:
            viol.append((f"hs-sweep-dead|trigger:{trig}",
                         f"{stage}: the periodic do_circuits/do_ping task of {dead} has ended: these nodes never again "
                         f"reclaim anything by inactivity, age or traffic; {trail}{plan.log[:12]}"))
        return (tuple(sorted((n, tb, cls((n, tb, c), second)) for n, tb, c in (judged & present))),
                len(present - judged), len(leaked), len(stray), tuple(dead))

    _hs_run_for(w, T)
    obs1 = judge("stage 1", at_trigger, set())
    second, paths, err = _hs_second(w, HS_ROLES)
    if err:
        viol.append(("harness:hs-second-circuit", f"{scn}: {err}; {trail}{plan.log[:12]}"))
        return viol, plan.count, ("second-failed", obs1)
    _hs_run_for(w, T)
    obs2 = judge("stage 2", at_trigger | second, second)
    excs = w.loop.exceptions[exc0:]
    if excs:
        msgs = sorted({"".join(traceback.format_exception(e["exception"]))[-700:] if e.get("exception")
                       else str(e.get("message"))[:200] for e in excs})
        name = type(excs[0]["exception"]).__name__ if excs[0].get("exception") else str(excs[0].get("message"))[:40]
        viol.append((f"hs-loop-exception:{name}|trigger:{trig}", f"{len(excs)} exception(s) reached the loop's "
                     f"exception handler; {trail}{plan.log[:12]}: {msgs[:2]}"))
    seen, out = set(), []
    for k, what in viol:        # one violation per key (stage 1 and stage 2 may both report the same class)
        if k not in seen:
            seen.add(k)
            out.append((k, what))
    return out, plan.count, (obs1, obs2, did, plan.count, len(paths), len(excs))


def run_hs(scn: tuple, faults: dict, seed: int):  # noqa: ANN201
    """One hidden-services execution in a fresh world. Returns (violations, n_fault_candidates, observation)."""
    try:
        p = HSPrepared(scn, seed)
    except c04.HarnessError as e:
        return [("harness:hs-setup", f"{scn}: {e}")], 0, None
    try:
        return hs_continue(p, faults)
    finally:
        p.close()


def in_child(fn, loop=None):  # noqa: ANN001, ANN201
    """fn() in a fork()ed copy of this process (a snapshot of every world in it); its (picklable) result."""
    r, wr = os.pipe()
    pid = os.fork()
    if pid == 0:
        code = 1
        try:
            os.close(r)
            try:
                if loop is not None:
                    # asyncio's at-fork hook forgets the running loop in the child: adopt the world's loop again
                    # (what vloop.new_loop() did in the parent)
                    from asyncio import events  # noqa: PLC0415
                    events._set_running_loop(None)      # noqa: SLF001
                    events._set_running_loop(loop)      # noqa: SLF001
                payload = pickle.dumps(("ok", fn()))
            except BaseException as e:  # noqa: BLE001
                payload = pickle.dumps(("err", "".join(traceback.format_exception(e))))
            with os.fdopen(wr, "wb") as f:
                f.write(payload)
            code = 0
        finally:
            os._exit(code)
    os.close(wr)
    with os.fdopen(r, "rb") as f:
        data = f.read()
    os.waitpid(pid, 0)
    if not data:
        raise RuntimeError("forked execution died without a result")
    kind, val = pickle.loads(data)  # noqa: S301
    if kind == "err":
        raise RuntimeError(f"forked execution failed:\n{val}")
    return val


def hs_scenarios(thorough: bool) -> list[tuple]:
    return [("hs", t, net) for t in (HS_TRIGGERS_THOROUGH if thorough else HS_TRIGGERS) for net in HS_NETS]


def hs_items(thorough: bool) -> list[tuple]:
    """
    Work items: scenario x part of the fault enumeration.
      drops  the fault-free run (normal and 'batch' scheduling) and every set of <= bound dropped datagrams
      dup    every single duplication and adjacent reordering (bound >= 2: and every dup+drop pair on the closed net)
      batch  every single fault in scheduling mode 'batch'
    quick: closed net: drops + dup, bridged net: drops; thorough: everything.
    """
    return [(*scn, part) for scn in hs_scenarios(thorough) for part in ("drops", "dup", "batch")
            if thorough or part == "drops" or (part == "dup" and scn[2] == "closed")]


# ---- worker: DFS over fault sets of one scenario -------------------------------------------------------------------

_HS_WINDOW = 15.0     # seconds after the trigger during which datagrams are fault candidates (hidden services)
_HS_BOUND = 1
_BOUND = 2
_SEED = 0
_SINGLES = True


def explore_hs(item: tuple) -> tuple:
    """
    One part of the fault enumeration of a hidden-services scenario.  The world is prepared once and every fault set
    runs in a fork()ed snapshot of it (a fresh world per execution costs twice as much); the fault-free execution is
    also done in a fresh world the way replay() does it and must give the same observation.
    """
    _, trig, net, part = item
    scn = ("hs", trig, net)
    execs = 0
    outcomes: set = set()
    viols: dict[str, tuple] = {}
    max_n = 0
    fresh = run_hs(scn, {}, _SEED) if part == "drops" else None     # before the snapshot world exists: one clock
    try:
        prep = HSPrepared(scn, _SEED)
    except c04.HarnessError as e:
        return (item, 0, 0, outcomes, {"harness:hs-setup": (f"{scn}: {e}", {"scenario": scn, "faults": {}, "seed": _SEED,
                                                               "hs_window": _HS_WINDOW})})
    try:
        def run(faults: dict) -> int:
            nonlocal execs, max_n
            v, n, obs = in_child(lambda: hs_continue(prep, faults), prep.b.w.loop)
            execs += 1
            max_n = max(max_n, n)
            outcomes.add(repr(obs))
            for key, what in v:
                if key not in viols:
                    viols[key] = (what, {"scenario": scn, "faults": faults, "seed": _SEED, "hs_window": _HS_WINDOW})
            return n

        def dfs(drops: tuple, n: int) -> None:
            if len(drops) >= _HS_BOUND:
                return
            for j in range(drops[-1] + 1 if drops else 0, n):
                d2 = (*drops, j)
                dfs(d2, run({i: "drop" for i in d2}))

        if part == "drops":
            n0 = run({})
            snap = in_child(lambda: hs_continue(prep, {}), prep.b.w.loop)
            if repr(([k for k, _ in fresh[0]], *fresh[1:])) != repr(([k for k, _ in snap[0]], *snap[1:])):
                raise RuntimeError(f"hidden-services {scn}: the execution in a snapshot differs from the one in a fresh "
                                   f"world:\n{fresh!r}\n{snap!r}")
            dfs((), n0)
            run({"sched": "batch"})
            run({"sched": "instant"})
        elif part == "dup":
            n0 = run({})
            for j in range(n0):
                run({j: "dup"})
                run({j: "delay"})
                if _HS_BOUND >= 2 and net == "closed":
                    for i in range(n0 + 2):
                        if i != j:
                            run({j: "dup", i: "drop"} if i > j else {i: "drop", j: "dup"})
        elif part == "batch":
            nb = run({"sched": "batch"})
            for j in range(nb):
                for f in ("drop", "dup", "delay"):
                    run({j: f, "sched": "batch"})
        else:
            raise ValueError(part)
    finally:
        prep.close()
    return (item, execs, max_n, outcomes, viols)


def explore_scenarios(chunk: list) -> list:
    res = []
    for scn in chunk:
        if scn[0] == "hs":
            res.append(explore_hs(scn))
            continue
        execs = 0
        outcomes = set()
        viols: dict[str, tuple] = {}
        max_n = 0

        def run(faults: dict) -> int:
            nonlocal execs, max_n
            v, n, obs = run_one(scn, faults, _SEED)
            execs += 1
            max_n = max(max_n, n)
            outcomes.add(repr(obs))
            for key, what in v:
                if key not in viols:
                    viols[key] = (what, {"scenario": scn, "faults": faults, "seed": _SEED})
            return n

        # quick: chatty and dead-node scenarios get single faults
        bound = 1 if (("chatty" in str(scn[1]) or str(scn[1]).startswith("dead")) and _BOUND <= 2) else _BOUND

        def dfs(drops: tuple, n: int) -> None:
            if len(drops) >= bound:
                return
            start = drops[-1] + 1 if drops else 0
            for j in range(start, n):
                d2 = (*drops, j)
                n2 = run({i: "drop" for i in d2})
                dfs(d2, n2)

        n0 = run({})
        dfs((), n0)
        # scheduling mode "batch": the fault-free run and every single fault once more with all datagrams queued for a
        # node handled in one loop iteration
        nb = run({"sched": "batch"})
        for j in range(nb):
            for f in ("drop", "dup", "delay"):
                run({j: f, "sched": "batch"})
        if _SINGLES:
            for j in range(n0):
                run({j: "dup"})
                run({j: "delay"})
                if bound >= 2:
                    for i in range(n0 + 2):
                        if i != j:
                            run({j: "dup", i: "drop"} if i > j else {i: "drop", j: "dup"})
        res.append((scn, execs, max_n, len(outcomes), viols))
    return res


# ---- join limit and relay_early ------------------------------------------------------------------------------------

def join_limit_checks(seed: int) -> tuple[list, int]:
    """max_joined_circuits = 2; 4 originators' create requests in every order; joined count never exceeds the limit."""
    viol, execs = [], 0
    names = ["A", "B", "C", "D"]
    # "slow-executor": anything the node hands to a worker thread takes 2 loop iterations to come back (the stock inline
    # executor of the virtual loop hides every interleaving between the hand-off and the result)
    for limit, route in [(lim, r) for lim in (1, 2) for r in ("attr-after-load", "slow-executor", *CONFIG_ROUTES)]:
        for order in itertools.permutations(range(4)):
            if route in ("attr-after-load", "slow-executor"):
                w = TunnelWorld(("c09j", seed, limit, order), {**{n: RELAY for n in names}, "X": EXIT_ALL},
                                key_offset=seed)
            else:
                w = TunnelWorld(("c09j", seed, limit, order, route), {**{n: RELAY for n in names}, "X": EXIT_ALL},
                                key_offset=seed, route=route, max_joined_circuits=limit)
            try:
                x = w.ov["X"]
                if route in ("attr-after-load", "slow-executor"):
                    x.settings.max_joined_circuits = limit
                if route == "slow-executor":
                    w.loop.executor_delay = 2
                cs = [w.start_circuit(n, ["X"]) for n in names]
                assert len(w.inflight) == 4
                dgs = list(w.inflight)
                w.inflight.clear()
                peak = 0
                for i in order:
                    # slow executor: the four creates arrive back to back, before any worker thread has answered
                    w.deliver_datagram(dgs[i], settle=route != "slow-executor")
                    peak = max(peak, len(x.relay_from_to) + len(x.exit_sockets))
                w.flush()
                peak = max(peak, len(x.relay_from_to) + len(x.exit_sockets))
                ready = sum(1 for c in cs if c.state == CIRCUIT_STATE_READY)
                execs += 1
                if peak > limit or ready > limit:
                    viol.append((f"join-limit-exceeded:configured-by={route}",
                                 f"limit={limit} (configured by {route}) order={order}: joined peak {peak}, "
                                 f"{ready} circuits became ready", {"kind": "join", "limit": limit, "order": order,
                                                                      "seed": seed, "route": route}))
                if ready < limit:
                    viol.append((f"join-limit-too-strict:configured-by={route}",
                                 f"limit={limit} (configured by {route}) order={order}: only {ready} joined",
                                 {"kind": "join", "limit": limit, "order": order, "seed": seed, "route": route}))
            finally:
                w.close()
    return viol, execs


def relay_early_checks(seed: int) -> tuple[list, int]:
    """A relay forwards at most max_relay_early relay_early-flagged cells per circuit, whatever the originator sets."""
    viol, execs = [], 0
    for h, budget, route in [(h, b, r) for h in (2, 3) for b in (8, 3)
                              for r in ("attr-after-load", "attr-after-traffic", *CONFIG_ROUTES)]:
        if True:
            if route in ("attr-after-load", "attr-after-traffic"):
                w = TunnelWorld(("c09r", seed, h, budget), ROLES, key_offset=seed)
            else:
                w = TunnelWorld(("c09r", seed, h, budget, route), ROLES, key_offset=seed, route=route,
                                max_relay_early=budget)
            try:
                if route == "attr-after-load":
                    for o in w.ov.values():
                        o.settings.max_relay_early = budget
                c = w.build_circuit("O", PATHS[h])
                if c.state != CIRCUIT_STATE_READY:
                    viol.append(("harness:circuit-not-ready", f"h={h} budget={budget} route={route}", None))
                    continue
                if route == "attr-after-traffic":
                    # the operator changes the limit at run time (property setter), after cells have already flowed
                    w.send_out("O", c, ("9.9.9.9", 99), BT_PAYLOAD)
                    w.flush()
                    for o in w.ov.values():
                        o.settings.max_relay_early = budget
                c.relay_early_count = -10 ** 6   # a misbehaving originator: every cell is flagged relay_early
                first = w.nodes[PATHS[h][0]].address
                n0 = len(w.wire_log)
                for _ in range(20):
                    w.send_out("O", c, ("9.9.9.9", 99), BT_PAYLOAD)
                w.flush()
                fwd_early = 0
                for dg in w.wire_log[n0:]:
                    f = w.cell_fields(dg.data)
                    if f and tuple(dg.src) == tuple(first) and tuple(dg.dst) != tuple(w.nodes["O"].address) and f[2]:
                        fwd_early += 1
                execs += 1
                # the RelayRoute starts its count at 1 (the extend that created it), extends while building count too
                if fwd_early > budget:
                    viol.append((f"relay-early-budget:configured-by={route}",
                                 f"h={h} budget={budget} (configured by {route}): first relay forwarded {fwd_early} "
                                 f"relay_early cells after the circuit was ready", {"kind": "relay_early", "h": h,
                                                                                   "budget": budget, "seed": seed}))
            finally:
                w.close()
    return viol, execs


def run(ctx: core.Ctx) -> core.Report:
    global _BOUND, _SEED, _SINGLES, _HS_BOUND, _HS_WINDOW
    _BOUND = 3 if ctx.thorough else 2
    _SEED = ctx.seed % 8
    scns = scenarios()
    if not ctx.thorough:
        # quick: every hop count/initiator, phases thinned to first/last build step, ready, transfer
        keep = []
        for s in scns:
            h, ini, (ph, k) = s
            last = {1: 1, 2: 5, 3: 11}[h]
            if ph != "build" or k in (1, last, (last + 1) // 2) or (str(ini).startswith("deadalt") and k in (0, 3)) \
                    or "wanting" in str(ini):
                keep.append(s)
        scns = keep
    _HS_BOUND = 2 if ctx.thorough else 1
    _HS_WINDOW = FAULT_WINDOW if ctx.thorough else 15.0
    hs_work = hs_items(ctx.thorough)
    # the hidden-services items are the longest ones: hand them out first
    res = core.pmap(explore_scenarios, hs_work + scns, ctx.jobs, chunk=1)
    hs_res = [r for r in res if r[0][0] == "hs"]
    res = [r for r in res if r[0][0] != "hs"]
    execs = sum(r[1] for r in res)
    violations = []
    distinct = 0
    per = []
    hs_per: dict = {}
    for (_, trig, net, part), e, max_n, outs, viols in sorted(hs_res, key=lambda r: repr(r[0])):
        d = hs_per.setdefault((trig, net), {"executions": 0, "fault_candidates": 0, "outcomes": set(), "parts": []})
        d["executions"] += e
        d["fault_candidates"] = max(d["fault_candidates"], max_n)
        d["outcomes"] |= outs
        d["parts"].append(part)
        for key, (what, rp) in viols.items():
            violations.append(core.Violation(key, what, rp))
    hs_execs = sum(d["executions"] for d in hs_per.values())
    hs_distinct = sum(len(d["outcomes"]) for d in hs_per.values())
    hs_cov = {
        "worlds": len(hs_per),
        "triggers": sorted({t for t, _ in hs_per}),
        "nets": sorted({n for _, n in hs_per}),
        "executions": hs_execs,
        "distinct_outcomes": hs_distinct,
        "bound_drops": _HS_BOUND,
        "fault_window_s": _HS_WINDOW,
        "second_circuits": "P->N3->N2->E and Q->[S]->[D]->E (running nodes only), used, then P and Q offline",
        "per_world": [{"trigger": t, "net": n, "executions": d["executions"], "fault_candidates": d["fault_candidates"],
                       "distinct_outcomes": len(d["outcomes"]), "parts": d["parts"]}
                      for (t, n), d in sorted(hs_per.items())],
    }
    for scn, e, max_n, n_out, viols in sorted(res, key=lambda r: repr(r[0])):
        distinct += n_out
        per.append({"scenario": scn, "executions": e, "fault_candidates": max_n, "distinct_outcomes": n_out})
        for key, (what, rp) in viols.items():
            violations.append(core.Violation(key, what, rp))
    jv, je = join_limit_checks(_SEED)
    rv, re_ = relay_early_checks(_SEED)
    for key, what, rp in jv + rv:
        violations.append(core.Violation(key, what, rp))
    cov = {
        "evaluations": execs + je + re_ + hs_execs,
        "distinct_nontrivial": distinct + hs_distinct,
        "rule": "one evaluation = one complete run of real TunnelCommunity nodes (default settings) from circuit build "
                "through teardown to the deadline under one fault set; fault sets = every subset of <= bound dropped "
                f"datagrams among those sent within {FAULT_WINDOW:.0f}s after the trigger (DFS: indices re-read from each "
                "run), every single duplication and adjacent reordering, and dup+drop pairs; the fault-free run and every single fault again in scheduling mode 'batch' (all datagrams queued for one node handled in one loop iteration); distinct_nontrivial = "
                "distinct (table sizes, open sockets, teardown action, datagrams sent, duration) observations summed "
                "over scenarios.  Hidden services (coverage.hidden_services): one evaluation = one run of real "
                "HiddenTunnelCommunity nodes with a linked end-to-end circuit D->N3->N2(rendezvous)<-S, introduction "
                "circuit S->N1->E and D's data circuit D->E, from the trigger (downloader / seeder offline, downloader "
                "leaves the swarm, e2e circuit over max_traffic at D, rendezvous node / N3 removes its relays"
                f"{', seeder leaves the swarm' if ctx.thorough else ''}) under one fault set to the deadline, then second "
                "plain data circuits through the surviving path nodes that are used and abandoned, to a second deadline; "
                f"fault sets = every subset of <= {_HS_BOUND} dropped datagrams among those sent within "
                f"{_HS_WINDOW:.0f}s after the trigger, every single duplication and adjacent reordering"
                f"{', dup+drop pairs (closed net)' if _HS_BOUND >= 2 else ''}, the fault-free run"
                f"{' and every single fault' if ctx.thorough else ''} in scheduling mode 'batch', the fault-free run with "
                "instantaneous loop iterations (everything else: every loop iteration takes 2 us of virtual time, so that "
                "timers come due in the order in which they were armed); on a closed net (what "
                "exits is lost) and on a bridged net (the outside delivers to the nodes' own addresses: the downloader "
                f"rebuilds{'' if ctx.thorough else '; quick: drops and the fault-free runs only'}); "
                "distinct = distinct (remaining judged entries by node/table/circuit class at both deadlines, unjudged "
                "entries, leaks, stray sockets, ended periodic tasks, action, datagrams sent, exceptions) observations "
                "summed over worlds",
        "samples": per[:3] + per[-2:] + hs_cov["per_world"][:2],
        "exhaustive": True,
        "bound_drops": _BOUND,
        "scenarios": len(scns),
        "executions_plain_circuits": execs,
        "hidden_services": hs_cov,
        "join_limit_executions": je,
        "relay_early_executions": re_,
        "deadline_s": deadline(type("S", (), {"circuit_timeout": 60, "max_time_inactive": 20,
                                               "remove_tunnel_delay": 5})),
    }
    return core.Report(LEVEL, cov, violations,
                       ["crypto primitives (ipv8_rust_tunnels) trusted", "plain-circuit family: one circuit in the world "
                        "at a time (C05 covers concurrent circuits)", "PythonCryptoEndpoint only (the Rust endpoint is not "
                        "explored)", "hidden services: one seeder and one downloader, stub DHT, no PEX community (no ipv8 "
                        "service object), teardown only after the e2e circuit is linked; entries the nodes create after the "
                        "trigger (rebuilt e2e circuits) are not judged"])


def replay(ctx: core.Ctx, data) -> list:  # noqa: ANN001
    if data is None:
        return []
    if data.get("kind") == "join":
        v, _ = join_limit_checks(data["seed"])
        return [core.Violation(k, w) for k, w, _ in v]
    if data.get("kind") == "relay_early":
        v, _ = relay_early_checks(data["seed"])
        return [core.Violation(k, w) for k, w, _ in v]
    scn = data["scenario"]
    if scn[0] == "hs":
        global _HS_WINDOW
        _HS_WINDOW = float(data.get("hs_window", _HS_WINDOW))
        faults = {(k if k == "sched" else int(k)): f for k, f in data["faults"].items()}
        v, _, _ = run_hs(tuple(scn[:3]), faults, data["seed"])
        return [core.Violation(k, w) for k, w in v]
    scn = (scn[0], scn[1], tuple(scn[2]))
    v, _, _ = run_one(scn, {(k if k == "sched" else int(k)): f for k, f in data["faults"].items()}, data["seed"])
    return [core.Violation(k, w) for k, w in v]
