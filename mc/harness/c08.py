"""
C08 - Circuit hops are only keyed with the peer the originator chose.

Fault enumeration on real TunnelCommunity nodes over SimNet.  One execution builds one (or two concurrent) circuits
of h in {1,2,3} hops and applies one (quick) or up to two (thorough) manipulations to handshake answers in flight:

* ``link0``  the plaintext ``created`` datagram on the link hop j -> predecessor (network attacker): field flips,
             boundary values, ephemeral-key substitution with auth recomputed from what is visible on the wire,
             man-in-the-middle rewriting of the create, a third node answering the create, source spoofing, drop,
             duplication with every lag, late delivery (after the 10 s retry timer), swaps with a second circuit;
* ``pred``   the ``extended`` payload as produced by the misbehaving predecessor relay (first hop for j = 1, middle
             relay for j = 2) before it is encrypted: the same field manipulations, answering the extend itself,
             sending a plaintext created instead, replaying its own earlier answer, resending, swaps;
* ``enc``    the encrypted ``extended`` cell on the later links (earlier relay / network): ciphertext flips, circuit
             id flips, drop, duplication, late delivery.

Oracle (white box, independent of the code under test; Rust primitives trusted):

L1 hop-list   every hop appended to a circuit of the originator names the peer the originator put in the create
              (destination address) / extend (node_public_key) that was outstanding, in order; a hop appended while
              no create/extend for that position is outstanding is a violation;
L2 holders    the session keys of every hop the originator accepted are held by no participant other than the
              selected peer and by none of the adversary's derivable keys (key-material comparison after every
              delivery, real encrypt/decrypt probe at the end of the execution);
L2h agreement if the accepted answer is the one the selected peer really produced for this attempt (honest
              exchange), that peer holds identical keys;
L3 stability  established hops are the identical objects with identical peer and key material after every delivery;
L4 honest     the unmanipulated run ends READY with the forced path and working data transfer in both directions;
A  acceptance (mechanism level, see notes/C08.md: the static DH term alone already keeps the keys secret, so the
              two mechanisms the property anchors are not observable through L1-L4) an answer is accepted only if its
              identifier equals the identifier of the outstanding attempt and its HMAC verifies under DH(x, Y).
"""
from __future__ import annotations

import itertools
import struct
from collections import Counter

from ipv8.keyvault.crypto import default_eccrypto
from ipv8.messaging.anonymization.payload import (
    CreatedPayload,
    CreatePayload,
    ExtendedPayload,
    ExtendPayload,
)
from ipv8.messaging.anonymization.caches import RetryRequestCache
from ipv8.messaging.anonymization.community import TunnelCommunity
from ipv8.messaging.anonymization.tunnel import CIRCUIT_STATE_READY, FORWARD, PEER_FLAG_EXIT_BT
from ipv8.messaging.interfaces.udp.endpoint import UDPv4Address
from ipv8.peer import Peer
from ipv8_rust_tunnels import crypto_auth, crypto_auth_verify, generate_session_keys

from .. import core, fixtures, seams
from ..simnet import Datagram
from ..tunnelworld import BT_PAYLOAD, EXIT_ALL, EXIT_BT, RELAY, TunnelWorld

LEVEL = "fault_enumeration"

PATHS = {1: ["X"], 2: ["R1", "X"], 3: ["R1", "R2", "X"]}
BASE_ROLES = {"O": RELAY, "R1": RELAY, "R2": RELAY, "X": EXIT_ALL, "A": RELAY}
SPARE_ROLES = {"S": EXIT_BT, "T": RELAY}     # S: alternative first hop, T: alternative middle relay
HORIZON = 26.0                               # virtual seconds after the build: retry timer (10 s) + next attempt + 6
PROBE = b"c08-probe"
OUTSIDE = ("9.9.9.9", 99)
MECHANISM_CHECKS = False                     # oracle A demands more than the statement (see notes/C08.md): off, so that a tree on which the property holds is never flagged


# ---------------------------------------------------------------------------------------------------------------------
# wire formats (transcribed from the payload definitions, not taken from the serializer under test)
# ---------------------------------------------------------------------------------------------------------------------

def parse_answer_body(body: bytes) -> dict | None:
    """identifier(H) key(varlenH) auth(32s) candidates_enc(raw); body excludes msg id and circuit id."""
    if len(body) < 4:
        return None
    ident, klen = struct.unpack_from("!HH", body, 0)
    key = body[4:4 + klen]
    auth = body[4 + klen:36 + klen]
    return {"ident": ident, "key": key, "auth": auth, "cand": body[36 + klen:]}


def build_answer_body(a: dict) -> bytes:
    return struct.pack("!HH", a["ident"] & 0xFFFF, len(a["key"])) + a["key"] + struct.pack("32s", a["auth"]) + a["cand"]


def parse_create_body(body: bytes) -> dict | None:
    """identifier(H) node_public_key(varlenH) key(varlenH)."""
    try:
        ident, plen = struct.unpack_from("!HH", body, 0)
        pk = body[4:4 + plen]
        (klen,) = struct.unpack_from("!H", body, 4 + plen)
        key = body[6 + plen:6 + plen + klen]
    except struct.error:
        return None
    return {"ident": ident, "node_public_key": pk, "key": key}


def build_create_body(c: dict) -> bytes:
    return (struct.pack("!HH", c["ident"], len(c["node_public_key"])) + c["node_public_key"]
            + struct.pack("!H", len(c["key"])) + c["key"])


def cell(prefix: bytes, cid: int, plaintext: bool, early: bool, body: bytes) -> bytes:
    return prefix + b"\x00" + struct.pack("!I??", cid & 0xFFFFFFFF, plaintext, early) + body


def fingerprint(keys) -> tuple | None:  # noqa: ANN001
    if keys is None:
        return None
    return (bytes(keys.key_forward), bytes(keys.key_backward), bytes(keys.salt_forward), bytes(keys.salt_backward))


def crypt_pk_of(public_bin: bytes) -> bytes:
    return default_eccrypto.key_from_public_bin(public_bin).get_crypt_pk()


# ---------------------------------------------------------------------------------------------------------------------
# adversary knowledge
# ---------------------------------------------------------------------------------------------------------------------

class Adversary:
    """Ephemeral keys come from the fixture file (never generated at run time); static identity = node A."""

    def __init__(self, world: TunnelWorld, seed: int) -> None:
        self.world = world
        self.eph = [fixtures.private_key(seed + 7 + i) for i in range(3)]
        self.static = world.nodes["A"].my_peer.key
        self.guesses: list[tuple[str, object]] = []     # (label, SessionKeys)
        self._fps: set = set()

    def learn(self, label: str, secret: bytes) -> object:
        keys = generate_session_keys(secret)
        fp = fingerprint(keys)
        if fp not in self._fps:
            self._fps.add(fp)
            self.guesses.append((label, keys))
        return keys

    def forge(self, xeph: bytes, selected_pub: bytes | None, actor_static=None, e: int = 0) -> tuple:  # noqa: ANN001
        """
        Substitute our own ephemeral key: (Y', auth', best-guess session keys).  The auth tag is keyed with the
        ephemeral-ephemeral secret only, so anybody who saw the originator's X can compute a valid one; the second
        half of the secret needs the selected peer's static private key, which we can only guess at.
        """
        ek = self.eph[e % len(self.eph)]
        y = ek.get_crypt_pk()
        try:
            s1 = ek.diffie_hellman(xeph)
        except ValueError:
            return y, b"\x00" * 32, None
        auth = crypto_auth(s1[:32], y)
        first = None
        halves = [("eph-twice", s1), ("zeros", b"\x00" * 32), ("A-static", self._dh(self.static, xeph)), ("nothing", b"")]
        if actor_static is not None:
            halves.append(("actor-static", self._dh(actor_static, xeph)))
        if selected_pub is not None:
            try:
                halves.append(("eph-x-selected-static", ek.diffie_hellman(crypt_pk_of(selected_pub))))
            except ValueError:
                pass
        for label, s2 in halves:
            if s2 is None:
                continue
            k = self.learn(f"forge:{label}", s1 + s2)
            if label == ("actor-static" if actor_static is not None else "A-static"):
                first = k
        return y, auth, first

    @staticmethod
    def _dh(priv, pub: bytes) -> bytes | None:  # noqa: ANN001
        try:
            return priv.diffie_hellman(pub)
        except ValueError:
            return None


# ---------------------------------------------------------------------------------------------------------------------
# white-box monitor = the oracle
# ---------------------------------------------------------------------------------------------------------------------

class Monitor:
    def __init__(self, world: TunnelWorld, adv: Adversary) -> None:
        self.w = world
        self.adv = adv
        self.viol: list[tuple[str, str]] = []
        self.attempts: dict[int, list[dict]] = {}            # circuit id -> create/extend attempts of O, in order
        self.answers: list[dict] = []                        # every created/extended O's handlers saw
        self.circuits: list = []                             # Circuit objects of O (kept after removal)
        self.snap: dict[int, list[dict]] = {}                # id(circuit) -> per-hop snapshot
        self.accept: dict[tuple[int, int], dict] = {}        # (id(circuit), hop index) -> acceptance record
        self.held: dict[str, dict[tuple, tuple]] = {n: {} for n in world.nodes if n != "O"}   # node -> fp -> (keys, where)
        self.genuine: dict[str, list[dict]] = {n: [] for n in world.nodes if n != "O"}
        self.extends_seen: dict[str, dict[int, dict]] = {n: {} for n in world.nodes if n != "O"}
        self.raw_data: list[bytes] = []
        self.ends: list[dict] = []                           # responder-side location of every honestly established hop
        self.accept_listeners: list = []
        self.notes: Counter = Counter()
        self.pub2name = {n.my_peer.public_key.key_to_bin(): name for name, n in world.nodes.items()}
        self.addr2name = {tuple(n.address): name for name, n in world.nodes.items()}
        self._last_join: dict[str, bytes] = {}
        self._hook_origin()
        for name in self.held:
            self._hook_other(name)
        orig_deliver = world.deliver_datagram

        def deliver_and_check(dg, settle=True):  # noqa: ANN001, ANN202
            orig_deliver(dg, settle)
            if settle:
                self.step()
        world.deliver_datagram = deliver_and_check

    def flag(self, key: str, what: str) -> None:
        self.viol.append((key, what))

    # -- originator ------------------------------------------------------------------------------------------------
    def _hook_origin(self) -> None:
        w = self.w
        ov = w.ov["O"]
        orig_send = ov.send_cell

        def send_cell(target, payload):  # noqa: ANN001, ANN202
            if isinstance(payload, (CreatePayload, ExtendPayload)):
                c = ov.circuits.get(payload.circuit_id)
                uh = c.unverified_hop if c is not None else None
                if isinstance(payload, CreatePayload):
                    ep = w.endpoints.get(tuple(target))
                    selected = ep.node.my_peer.public_key.key_to_bin() if ep is not None else None
                    kind = "create"
                else:
                    selected = bytes(payload.node_public_key)
                    kind = "extend"
                self.attempts.setdefault(payload.circuit_id, []).append({
                    "kind": kind, "ident": payload.identifier, "xeph": bytes(payload.key), "selected": selected,
                    "dh": uh.dh_secret if uh is not None else None, "n_hops": len(c.hops) if c is not None else -1,
                    "t": w.loop.time()})
                if c is not None and all(c is not k for k in self.circuits):
                    self.circuits.append(c)
            return orig_send(target, payload)
        ov.send_cell = send_cell

        for cls in (CreatedPayload, ExtendedPayload):
            orig = ov.decode_map_private[cls.msg_id]

            def spy(source_address, data, circuit_id, _orig=orig, _kind=cls.__name__[:-7].lower()):  # noqa: ANN001, ANN202
                body = bytes(data[27:])
                f = parse_answer_body(body) or {"ident": None, "key": b"", "auth": b"", "cand": b""}
                (cid,) = struct.unpack_from("!I", data, 23)
                c = ov.circuits.get(cid)
                pre = len(c.hops) if c is not None else None
                atts = self.attempts.get(cid) or []
                att = atts[-1] if atts else None
                try:
                    return _orig(source_address, data, circuit_id)
                finally:
                    self._on_answer(_kind, cid, f, c, pre, tuple(source_address), att)
            ov.decode_map_private[cls.msg_id] = spy

        def on_raw_data(circuit, origin, data):  # noqa: ANN001, ANN202
            self.raw_data.append(bytes(data))
        ov.on_raw_data = on_raw_data

        # an attempt stops being outstanding when its RetryRequestCache timed out (the originator gave up on that peer)
        orig_add = ov.request_cache.add

        def add(cache):  # noqa: ANN001, ANN202
            if isinstance(cache, RetryRequestCache):
                orig_timeout = cache.on_timeout
                ident = cache.packet_identifier
                cid = cache.circuit.circuit_id

                def on_timeout():  # noqa: ANN202
                    for att in self.attempts.get(cid) or []:
                        if att["ident"] == ident and "timed_out" not in att:
                            att["timed_out"] = self.w.loop.time()
                    return orig_timeout()
                cache.on_timeout = on_timeout
            return orig_add(cache)
        ov.request_cache.add = add

    def _on_answer(self, kind: str, cid: int, f: dict, c, pre: int | None, src: tuple, att: dict | None) -> None:  # noqa: ANN001
        post = len(c.hops) if c is not None else None
        accepted = c is not None and pre is not None and post > pre
        rec = {"kind": kind, "cid": cid, "ident": f["ident"], "accepted": accepted, "src": src, "index": pre,
               "t": self.w.loop.time()}
        self.answers.append(rec)
        if not accepted:
            return
        hop = c.hops[pre]
        where = f"{kind} for circuit #{self._cno(c)} accepted as hop {pre} at t={self.w.loop.time():.1f}"
        reasons = []
        for cb in self.accept_listeners:
            cb(rec)
        if att is None or att["n_hops"] != pre or "timed_out" in att:
            # literal: a hop without a corresponding create/extend cannot "name the peer the originator selected"
            why = (f"its {att['kind']} to {self.pub2name.get(att['selected'], '?')} had timed out at t={att['timed_out']:.1f}"
                   if att is not None and "timed_out" in att and att["n_hops"] == pre else "none was sent for that position")
            self.flag("hop-list:no-outstanding-attempt", f"{where} although the originator had no create/extend "
                      f"outstanding for hop {pre}: {why} (answer identifier {f['ident']})")
            att = None
        else:
            if att["ident"] != f["ident"]:
                reasons.append("wrong-identifier")
            if not self._auth_ok(att, f):
                reasons.append("invalid-auth")
            if att["kind"] == "create" and pre > 0:
                # the peer was selected as FIRST hop (contacted directly with a create), not for position `pre`
                self.notes["create-answer-accepted-as-later-hop"] += 1
                self.flag("hop-list:first-hop-answer-appended-as-later-hop",
                          f"{where}: {self.pub2name.get(att['selected'], '?')} was contacted directly with a create "
                          f"(selected as first hop) but its answer was appended behind "
                          f"{[self.pub2name.get(h.public_key_bin, '?') for h in c.hops[:pre]]}; no extend was sent for "
                          f"position {pre}")
        if MECHANISM_CHECKS:
            for r in reasons:
                self.flag(f"accept:{r}", f"{where} although: {r} (answer identifier {f['ident']}, outstanding "
                          f"{att['ident'] if att else None})")
        selected = att["selected"] if att is not None else None
        if att is not None and hop.public_key_bin != selected:
            self.flag("hop-list:not-the-selected-peer",
                      f"{where}: hop names {self.pub2name.get(hop.public_key_bin, '?')} but the originator's "
                      f"{att['kind']} selected {self.pub2name.get(selected, '?')}")
        sel_name = self.pub2name.get(selected) if selected is not None else None
        genuine = False
        if att is not None and sel_name in self.genuine:
            for g in self.genuine[sel_name]:
                if g["y"] == f["key"] and g["auth"] == f["auth"] and g["x_used"] == att["xeph"]:
                    genuine = True
                    # the responder's end of this hop lives under the circuit id it answered with
                    prev = self.pub2name.get(c.hops[pre - 1].public_key_bin) if pre >= 1 else None
                    self.ends.append({"c": c, "index": pre, "node": sel_name, "cid": g["cid"], "where": where,
                                      "flagged": False, "prev": prev, "route_flagged": False})
                    break
        self.accept[(id(c), pre)] = {"selected": selected, "genuine": genuine, "reasons": reasons, "where": where}

    @staticmethod
    def _auth_ok(att: dict, f: dict) -> bool:
        try:
            s1 = att["dh"].diffie_hellman(f["key"])
            return bool(crypto_auth_verify(f["auth"], s1[:32], f["key"]))
        except (ValueError, AttributeError):
            return False

    def _cno(self, c) -> int:  # noqa: ANN001
        for i, k in enumerate(self.circuits):
            if k is c:
                return i
        return -1

    # -- everybody else -----------------------------------------------------------------------------------------------
    def _hook_other(self, name: str) -> None:
        ov = self.w.ov[name]
        orig_join = ov.join_circuit

        def join_circuit(create_payload, previous_node_address):  # noqa: ANN001, ANN202
            self._last_join[name] = bytes(create_payload.key)
            return orig_join(create_payload, previous_node_address)
        ov.join_circuit = join_circuit
        orig_send = ov.send_cell

        def send_cell(target, payload):  # noqa: ANN001, ANN202
            if isinstance(payload, CreatedPayload):
                self.genuine[name].append({"y": bytes(payload.key), "auth": bytes(payload.auth),
                                           "cand": bytes(payload.candidates_enc), "cid": payload.circuit_id,
                                           "x_used": self._last_join.get(name)})
            return orig_send(target, payload)
        ov.send_cell = send_cell
        orig_ext = ov.decode_map_private[ExtendPayload.msg_id]

        def on_extend(source_address, data, circuit_id):  # noqa: ANN001, ANN202
            (cid,) = struct.unpack_from("!I", data, 23)
            e = parse_create_body(bytes(data[27:]))    # extend = create fields + address
            if e is not None:
                self.extends_seen[name][cid] = e
            return orig_ext(source_address, data, circuit_id)
        ov.decode_map_private[ExtendPayload.msg_id] = on_extend

    # -- per-delivery checks ----------------------------------------------------------------------------------------
    def step(self) -> None:
        for name, reg in self.held.items():
            ov = self.w.ov[name]
            for cid, es in ov.exit_sockets.items():
                self._see(reg, es.hop.keys, ("exit", cid))
            for cid, r in ov.relay_from_to.items():
                self._see(reg, r.hop.keys, ("relay", cid))
            for cid, c in ov.circuits.items():
                for h in c.hops:
                    self._see(reg, h.keys, ("circuit", cid))
        ovo = self.w.ov["O"]
        for c in ovo.circuits.values():
            if all(c is not k for k in self.circuits):
                self.circuits.append(c)
        # both ends: while the selected peer keeps an entry for the circuit id it answered with, that entry's keys are
        # the keys the originator accepted (at acceptance and after every later datagram)
        for e in self.ends:
            # forwarding: while the previous hop keeps relay routes for this hop, its forward route points at the selected
            # peer's entry (address and circuit id) the accepted answer came from
            if e["prev"] in self.held and not e["route_flagged"]:
                pov = self.w.ov[e["prev"]]
                back = pov.relay_from_to.get(e["cid"])
                fwd = pov.relay_from_to.get(back.circuit_id) if back is not None else None
                if fwd is not None:
                    want = tuple(self.w.nodes[e["node"]].address)
                    if fwd.circuit_id != e["cid"] or tuple(fwd.hop.address) != want:
                        e["route_flagged"] = True
                        to = self.addr2name.get(tuple(fwd.hop.address), "?")
                        self.flag("established-hop:relay-route-changed",
                                  f"{e['prev']} forwards the originator's circuit to {to} (circuit id {fwd.circuit_id}) instead "
                                  f"of the established hop {e['index']} = {e['node']} (circuit id {e['cid']}) at "
                                  f"t={self.w.loop.time():.1f}; {e['where']}")
        for e in self.ends:
            if e["flagged"] or e["index"] >= len(e["c"].hops):
                continue
            mine = fingerprint(e["c"].hops[e["index"]].keys)
            ov = self.w.ov[e["node"]]
            for table, entry in (("exit_sockets", ov.exit_sockets.get(e["cid"])), ("relay_from_to", ov.relay_from_to.get(e["cid"]))):
                if entry is not None and fingerprint(entry.hop.keys) != mine:
                    e["flagged"] = True
                    self.flag("both-ends:responder-keys-differ",
                              f"{e['node']}.{table}[{e['cid']}] holds other session keys than the originator's "
                              f"hop {e['index']} at t={self.w.loop.time():.1f} ({e['where']}; the selected peer's own "
                              f"answer was accepted)")
                    break
        for c in self.circuits:
            snaps = self.snap.setdefault(id(c), [])
            hops = c.hops
            if len({id(h) for h in hops}) < len(hops) and not any(k == "hop-list:same-hop-twice" for k, _ in self.viol):
                names = [self.pub2name.get(h.public_key_bin, "?") for h in hops]
                self.flag("hop-list:same-hop-twice", f"circuit #{self._cno(c)} lists the same hop object more than once: "
                          f"{names} ({c.state}, goal {c.goal_hops} hops)")
            if len(hops) > c.goal_hops and not any(k == "hop-list:more-hops-than-goal" for k, _ in self.viol):
                names = [self.pub2name.get(h.public_key_bin, "?") for h in hops]
                self.flag("hop-list:more-hops-than-goal", f"circuit #{self._cno(c)} has {len(hops)} hops {names} for a goal "
                          f"of {c.goal_hops}")
            if len(hops) < len(snaps):
                self.flag("established-hop:removed", f"circuit #{self._cno(c)} went from {len(snaps)} to {len(hops)} hops")
            for i, s in enumerate(snaps[:len(hops)]):
                h = hops[i]
                now = (id(h), id(h.keys), h.public_key_bin, fingerprint(h.keys))
                if now != s["id"]:
                    what = [n for n, a, b in zip(("hop object", "keys object", "peer", "key material"), now, s["id"])
                            if a != b]
                    self.flag("established-hop:changed", f"hop {i} of circuit #{self._cno(c)} changed after it was "
                              f"established: {what} differ at t={self.w.loop.time():.1f}")
                    s["id"] = now
            for i in range(len(snaps), len(hops)):
                h = hops[i]
                snaps.append({"id": (id(h), id(h.keys), h.public_key_bin, fingerprint(h.keys))})
                if (id(c), i) not in self.accept:
                    self.flag("hop-list:hop-without-handshake", f"hop {i} of circuit #{self._cno(c)} appeared without "
                              f"a created/extended being accepted")

    @staticmethod
    def _see(reg: dict, keys, where: tuple) -> None:  # noqa: ANN001
        if keys is not None:
            fp = fingerprint(keys)
            if fp not in reg:
                reg[fp] = (keys, where)

    # -- end of execution -----------------------------------------------------------------------------------------------
    def final(self) -> None:
        self.step()
        for c in self.circuits:
            for i, h in enumerate(c.hops):
                if h.keys is None:
                    self.flag("hop-list:hop-without-keys", f"hop {i} of circuit #{self._cno(c)} has no session keys")
                    continue
                acc = self.accept.get((id(c), i), {})
                selected = acc.get("selected") or h.public_key_bin
                sel_name = self.pub2name.get(selected, "?")
                fp = fingerprint(h.keys)
                ct = h.keys.encrypt_str(PROBE, FORWARD)       # only now: moves the originator's nonce counter
                holders = set()
                for name, reg in self.held.items():
                    for fp2, (keys, _) in reg.items():
                        if fp2 == fp or self._decrypts(keys, ct):
                            holders.add(name)
                adv = [label for label, keys in self.adv.guesses if fingerprint(keys) == fp or self._decrypts(keys, ct)]
                tag = f"hop {i} ({sel_name}) of circuit #{self._cno(c)}; {acc.get('where', 'no acceptance record')}"
                others = sorted(holders - {sel_name})
                if others:
                    self.flag("leak:other-participant-holds-hop-keys",
                              f"{others} can decrypt what the originator encrypts for {tag}")
                if adv:
                    self.flag("leak:adversary-derived-hop-keys",
                              f"the adversary's keys {adv} decrypt what the originator encrypts for {tag}")
                if acc.get("genuine") and sel_name not in holders:
                    self.flag("honest-exchange:keys-differ",
                              f"the selected peer's own answer was accepted but it holds different keys: {tag}")
                elif getattr(self, "benign", False) and sel_name not in holders:
                    # all participants honest, datagram contents untouched (only lost / repeated / late): every hop
                    # the originator lists is the outcome of honest exchanges, so its two ends must agree
                    self.flag("honest-network:keys-differ",
                              f"every node is honest and the network only lost, repeated or delayed datagrams, yet the "
                              f"selected peer does not hold the keys the originator accepted (holders: "
                              f"{sorted(holders)}): {tag}")
                acc["holders"] = sorted(holders)

    @staticmethod
    def _decrypts(keys, ct: bytes) -> bool:  # noqa: ANN001
        try:
            return keys.decrypt_str(ct, FORWARD) == PROBE
        except (ValueError, RuntimeError):
            return False


# ---------------------------------------------------------------------------------------------------------------------
# manipulations
# ---------------------------------------------------------------------------------------------------------------------

def apply_field_op(a: dict, m: dict) -> None:
    """flip / set on an answer dict {cid, ident, key, auth, cand}."""
    op, field = m["op"], m.get("field")
    if op == "flip":
        if field in ("ident", "cid"):
            a[field] ^= 1 << m["i"]
        else:
            b = bytearray(a[field])
            if b:
                b[m["i"] % len(b)] ^= m["mask"]
            a[field] = bytes(b)
    elif op == "set":
        v = m["v"]
        if field == "ident":
            a["ident"] = {"zero": 0, "max": 0xFFFF, "plus1": (a["ident"] + 1) & 0xFFFF,
                          "minus1": (a["ident"] - 1) & 0xFFFF}[v]
        elif field == "key":
            a["key"] = {"empty": b"", "short": a["key"][:31], "long": a["key"] + b"\x00", "zero": b"\x00" * 32,
                        "one": b"\x01" + b"\x00" * 31, "ff": b"\xff" * 32}[v]
        elif field == "auth":
            a["auth"] = {"zero": b"\x00" * 32, "ff": b"\xff" * 32}[v]
        elif field == "cand":
            a["cand"] = {"empty": b"", "trunc1": a["cand"][:-1], "extend1": a["cand"] + b"\x00"}[v]


SWAP_FIELDS = {"ident": ("ident",), "cid": ("cid",), "ident+cid": ("ident", "cid"), "keyauth": ("key", "auth"),
               "keyauthcand": ("key", "auth", "cand")}


class Interceptor:
    """Applies the plan: rules address the c-th answer of hop j at a site (see module docstring)."""

    def __init__(self, world: TunnelWorld, scn: tuple, plan: list[dict], mon: Monitor, adv: Adversary) -> None:
        self.w, self.mon, self.adv = world, mon, adv
        self.h, self.ncirc, self.spare = scn
        self.path = PATHS[self.h]
        self.plan = plan
        self.prefix = world.ov["O"].get_prefix()
        self.addr2name = {tuple(n.address): name for name, n in world.nodes.items()}
        self.counts: Counter = Counter()
        self.pending: list[dict] = []
        self.applied: list[str] = []
        self.creates_seen: dict[tuple, dict] = {}       # (pred, hop node, circuit id) -> parsed create
        self.swap_wait: dict[int, tuple] = {}
        self.diverted: set = set()
        world.send_hook = self.hook
        world.idle_hook = self.on_idle
        mon.accept_listeners.append(self.on_accept)
        self.pred_counts: Counter = Counter()
        self.pred_wait: dict[int, tuple] = {}
        for k, m in enumerate(plan):
            m["_k"] = k
        for node in {self.path[m["j"] - 1] for m in plan if m["site"] == "pred"}:
            self._hook_pred(node)

    # -- helpers --------------------------------------------------------------------------------------------------
    def node_of(self, j: int) -> str:
        return self.path[j]

    def pred_of(self, j: int) -> str:
        return "O" if j == 0 else self.path[j - 1]

    def emit(self, dg: Datagram) -> None:
        self.w.wire_log.append(dg)
        self.w.inflight.append(dg)

    def clone(self, dg: Datagram, data: bytes | None = None, src: tuple | None = None, note: str = "") -> Datagram:
        self.w.seq += 1
        return Datagram(self.w.seq, src if src is not None else dg.src, dg.dst, data if data is not None else dg.data,
                        dg.sender, note)

    def hold(self, dg: Datagram, cond: tuple) -> None:
        p = {"dg": dg, "cond": cond, "n": cond[1] if cond[0] == "sends" else 0}
        if cond[0] == "t":
            self.w.loop.call_later(cond[1], self._release, p)
        elif cond[0] == "retry":
            self.w.loop.call_later(16.0, self._release, p)      # fallback when the originator never retries
        elif cond[0] == "conv":
            self.w.loop.call_later(24.0, self._release, p)      # fallback when no retried extend ever completes
        self.pending.append(p)

    def on_accept(self, rec: dict) -> None:
        """("conv", dt): release dt seconds after a retried extend completed at the originator (t >= 9.9)."""
        if rec["accepted"] and self.w.loop.time() >= 9.9:
            for p in self.pending:
                if p["cond"][0] == "conv" and not p.get("armed"):
                    p["armed"] = True
                    self.w.loop.call_later(p["cond"][1], self._release, p)

    def _release(self, p: dict) -> None:
        if p in self.pending:
            self.pending.remove(p)
            self.emit(p["dg"])

    def on_idle(self) -> bool:
        due = [p for p in self.pending if p["cond"][0] in ("sends", "idle")]
        for p in due:
            self._release(p)
        return bool(due)

    def tick(self, src: str, kind: str) -> None:
        for p in list(self.pending):
            c = p["cond"]
            if c[0] == "sends":
                p["n"] -= 1
                if p["n"] < 0:
                    self._release(p)
            elif c[0] == "retry" and src == "O" and self.w.loop.time() >= 9.9 and kind in ("cell:create", "cell:enc"):
                if c[1] == "fixid":
                    self._fix_ident(p)
                self._release(p)

    def _fix_ident(self, p: dict) -> None:
        """A late answer whose identifier is rewritten to the one of the attempt now outstanding (visible on the wire
        for a create; a misbehaving relay reads it from the extend)."""
        dg = p["dg"]
        f = self.w.cell_fields(dg.data)
        if f is None or not f[1]:
            return
        a = parse_answer_body(f[3][1:])
        atts = self.mon.attempts.get(f[0]) or []
        if a is None or not atts:
            return
        a["ident"] = atts[-1]["ident"]
        p["dg"] = self.clone(dg, cell(self.prefix, f[0], True, f[2], b"\x03" + build_answer_body(a)), note="late+fixid")

    # -- wire level -------------------------------------------------------------------------------------------------
    def hook(self, dg: Datagram):  # noqa: ANN201
        w = self.w
        src = dg.sender.name if dg.sender is not None else self.addr2name.get(tuple(dg.src), "?")
        dst = self.addr2name.get(tuple(dg.dst), "?")
        kind = w.kind(dg)
        n = self.counts[(kind, src, dst)]
        self.counts[(kind, src, dst)] += 1
        out: list[Datagram] | None = [dg]
        if kind == "cell:create":
            f = w.cell_fields(dg.data)
            cr = parse_create_body(f[3][1:])
            if cr is not None:
                self.creates_seen[(src, dst, f[0])] = cr
            for m in self.plan:
                if m["site"] == "link0" and m["op"] in ("mitm", "answer_by") and src == self.pred_of(m["j"]) \
                        and dst == self.node_of(m["j"]) and n == m["c"] and cr is not None:
                    out = self._on_create(dg, f, cr, m)
                elif m["site"] == "req0" and src == self.pred_of(m["j"]) and dst == self.node_of(m["j"]) \
                        and n == m["c"] and out:
                    out = self._net_op(out, m)         # the REQUEST itself is duplicated / replayed by the network
        elif kind == "cell:created":
            for m in self.plan:
                if m["site"] == "link0" and src == self.node_of(m["j"]) and dst == self.pred_of(m["j"]) \
                        and (n == m["c"] or (m["op"] == "swap" and n == m["c"] + 1)) and out:
                    out = self._on_created(out, m, n)
        elif kind == "cell:enc":
            for m in self.plan:
                if m["site"] == "link0" and m["op"] == "abandoned" and out and src == "O" and dst == self.path[0] \
                        and n == (m["j"] - 1) * self.ncirc + m["c"] and m["req_delay"] > 0:
                    self.applied.append("link0:abandoned:extend-delayed")
                    self.hold(out[0], ("t", m["req_delay"]))     # network latency on the extend: the relay starts later
                    out = out[1:]
                    continue
                if m["site"] == "reqenc" and out:
                    # the encrypted extend for hop j on forward link l: O -> path[0] (l = 0) or path[l-1] -> path[l]
                    lk = m["link"]
                    if src == ("O" if lk == 0 else self.path[lk - 1]) and dst == self.path[lk] \
                            and n == (m["j"] - (lk + 1)) * self.ncirc + m["c"]:
                        out = self._net_op(out, m)
                    continue
                if m["site"] != "enc":
                    continue
                i = m["link"]                    # link from path[i] towards the originator
                if src == self.path[i] and dst == self.pred_of(i) and n == (m["j"] - (i + 1)) * self.ncirc + m["c"] and out:
                    out = self._on_enc(out, m)
        for d in out or []:
            self.emit(d)
        self.tick(src, kind)
        return None

    def _net_op(self, out: list[Datagram], m: dict) -> list[Datagram] | None:
        """drop / dup / delay / late on the (possibly already rewritten) datagram out[0]."""
        op = m["op"]
        dg = out[0]
        self.applied.append(f"{m['site']}:{op}")
        if op == "drop":
            self.w.dropped.append(dg)
            return out[1:]
        if op == "dup":
            self.hold(self.clone(dg, note="dup"), tuple(m["when"]))
            return out
        if op == "delay":
            self.hold(dg, tuple(m["when"]))
            return out[1:]
        if op == "late":
            self.hold(dg, tuple(m["when"]))
            return out[1:]
        return out

    def _on_created(self, out: list[Datagram], m: dict, n: int) -> list[Datagram] | None:
        dg = out[0]
        op = m["op"]
        if op in ("drop", "dup", "delay", "late"):
            return self._net_op(out, m)
        if op == "abandoned":
            self.applied.append("link0:abandoned:created-held")
            self.hold(dg, ("conv", m["offset"]))
            return out[1:]
        if op in ("mitm", "answer_by"):
            return self._created_after_create_rule(out, m)
        f = self.w.cell_fields(dg.data)
        a = parse_answer_body(f[3][1:])
        if a is None:
            return out
        a["cid"] = f[0]
        src = None
        if op == "swap":
            if n == m["c"]:
                self.swap_wait[m["_k"]] = (dg, a, f)
                return out[1:]
            first = self.swap_wait.pop(m["_k"], None)
            if first is None:
                return out
            dg0, a0, f0 = first
            for fld in SWAP_FIELDS[m["fields"]]:
                a0[fld], a[fld] = a[fld], a0[fld]
            self.applied.append(f"link0:swap:{m['fields']}")
            return [self.clone(dg0, cell(self.prefix, a0["cid"], True, f0[2], b"\x03" + build_answer_body(a0)), note="swap"),
                    self.clone(dg, cell(self.prefix, a["cid"], True, f[2], b"\x03" + build_answer_body(a)), note="swap"),
                    *out[1:]]
        if op == "flipdup":
            # one copy with a corrupted field and one genuine copy of the same answer, in either order
            bad = dict(a)
            apply_field_op(bad, dict(m, op="flip"))
            bad_dg = self.clone(dg, cell(self.prefix, bad["cid"], True, f[2], b"\x03" + build_answer_body(bad)),
                                note="flipdup")
            first, second = (bad_dg, dg) if m["order"] == "corrupt-first" else (dg, bad_dg)
            self.applied.append(f"link0:flipdup:{m['order']}")
            self.hold(second, tuple(m["when"]))
            return [first, *out[1:]]
        if op in ("flip", "set"):
            apply_field_op(a, m)
        elif op == "subst":
            cr = self.creates_seen.get((self.pred_of(m["j"]), self.node_of(m["j"]), f[0]))
            if cr is None:
                return out
            sel = self.w.nodes[self.node_of(m["j"])].my_peer.public_key.key_to_bin()
            y, auth, guess = self.adv.forge(cr["key"], sel, e=m.get("e", 0))
            a["key"], a["auth"] = y, auth
            if m.get("cand") == "reenc" and guess is not None:
                a["cand"] = guess.encrypt_str(self._cand_bin(), FORWARD)
        elif op == "spoof":
            src = tuple(self.w.nodes["A"].address)
        else:
            return out
        self.applied.append(f"link0:{op}:{m.get('field', m.get('cand', ''))}")
        return [self.clone(dg, cell(self.prefix, a["cid"], True, f[2], b"\x03" + build_answer_body(a)), src=src,
                           note=op), *out[1:]]

    def _cand_bin(self) -> bytes:
        """A candidate list naming the adversary's own node (varlenH-list of public keys)."""
        k = self.w.nodes["A"].my_peer.public_key.key_to_bin()
        return struct.pack("!BH", 1, len(k)) + k

    def _on_create(self, dg: Datagram, f: tuple, cr: dict, m: dict) -> list[Datagram] | None:
        j = m["j"]
        sel = self.w.nodes[self.node_of(j)].my_peer.public_key.key_to_bin()
        if m["op"] == "mitm":
            # hop j receives the adversary's ephemeral key instead of the originator's
            ek = self.adv.eph[1]
            self.diverted.add((m["_k"], f[0]))
            self.applied.append("link0:mitm:create")
            cr2 = dict(cr, key=ek.get_crypt_pk())
            return [self.clone(dg, cell(self.prefix, f[0], True, f[2], b"\x02" + build_create_body(cr2)), note="mitm")]
        # answer_by: the create never reaches hop j; node A answers it with its own static key
        self.applied.append(f"link0:answer_by:{m['src']}")
        y, auth, guess = self.adv.forge(cr["key"], sel, e=0)
        cand = guess.encrypt_str(self._cand_bin(), FORWARD) if guess is not None else b""
        a = {"ident": cr["ident"], "key": y, "auth": auth, "cand": cand}
        src = tuple(self.w.nodes["A"].address) if m["src"] == "A" else tuple(dg.dst)
        self.w.dropped.append(dg)
        self.w.seq += 1
        return [Datagram(self.w.seq, src, dg.src, cell(self.prefix, f[0], True, False, b"\x03" + build_answer_body(a)),
                         None, "answer_by")]

    def _created_after_create_rule(self, out: list[Datagram], m: dict) -> list[Datagram] | None:
        if m["op"] != "mitm":
            return out
        dg = out[0]
        f = self.w.cell_fields(dg.data)
        a = parse_answer_body(f[3][1:])
        if a is None or (m["_k"], f[0]) not in self.diverted:
            return out
        j = m["j"]
        sel = self.w.nodes[self.node_of(j)].my_peer.public_key.key_to_bin()
        ek = self.adv.eph[1]
        # what the man in the middle shares with hop j
        try:
            self.adv.learn("mitm:shared-with-hop", ek.diffie_hellman(a["key"]) + ek.diffie_hellman(crypt_pk_of(sel)))
        except ValueError:
            pass
        if m["back"] == "pass":
            self.applied.append("link0:mitm:pass")
            return out
        cr = self.creates_seen.get((self.pred_of(j), self.node_of(j), f[0]))
        y, auth, _ = self.adv.forge(cr["key"], sel, e=2)   # creates_seen holds the originator's real X (seen first)
        a["key"], a["auth"] = y, auth
        self.applied.append("link0:mitm:subst")
        return [self.clone(dg, cell(self.prefix, f[0], True, f[2], b"\x03" + build_answer_body(a)), note="mitm"), *out[1:]]

    def _on_enc(self, out: list[Datagram], m: dict) -> list[Datagram] | None:
        op = m["op"]
        if op in ("drop", "dup", "delay", "late"):
            return self._net_op(out, m)
        dg = out[0]
        b = bytearray(dg.data)
        if op == "flipbody":
            pos = {"first": 29, "mid": 29 + (len(b) - 29) // 2, "last": len(b) - 1}[m["pos"]]
            b[pos] ^= 0x01
        elif op == "flipcid":
            b[23 + m["i"] // 8] ^= 1 << (m["i"] % 8)
        elif op == "plainflag":
            b[27] ^= 0x01
        else:
            return out
        self.applied.append(f"enc:{op}")
        return [self.clone(dg, bytes(b), note=op), *out[1:]]

    # -- the misbehaving predecessor relay -------------------------------------------------------------------------
    def _hook_pred(self, node: str) -> None:
        ov = self.w.ov[node]
        orig_send = ov.send_cell
        rules = [m for m in self.plan if m["site"] == "pred" and self.path[m["j"] - 1] == node]

        def send_cell(target, payload):  # noqa: ANN001, ANN202
            if not isinstance(payload, ExtendedPayload):
                return orig_send(target, payload)
            n = self.pred_counts[node]
            self.pred_counts[node] += 1
            a = {"cid": payload.circuit_id, "ident": payload.identifier, "key": bytes(payload.key),
                 "auth": bytes(payload.auth), "cand": bytes(payload.candidates_enc)}
            sends = [("extended", a)]
            for m in rules:
                if not (n == m["c"] or (m["op"] == "swap" and n == m["c"] + 1)) or not sends:
                    continue
                sends = self._pred_op(node, m, n, sends, target)
            for form, x in sends:
                cls = ExtendedPayload if form == "extended" else CreatedPayload
                orig_send(x.get("_target", target), cls(x["cid"], x["ident"], x["key"], x["auth"], x["cand"]))
            return None
        ov.send_cell = send_cell

        if any(m["op"] == "self_answer" for m in rules):
            seen = Counter()

            def on_extend(source_address, data, circuit_id):  # noqa: ANN001, ANN202
                (cid,) = struct.unpack_from("!I", data, 23)
                e = parse_create_body(bytes(data[27:]))
                k = seen[node]
                seen[node] += 1
                for m in rules:
                    if m["op"] == "self_answer" and m["c"] == k and e is not None:
                        y, auth, guess = self.adv.forge(e["key"], e["node_public_key"],
                                                        actor_static=self.w.nodes[node].my_peer.key, e=0)
                        cand = guess.encrypt_str(self._cand_bin(), FORWARD) if guess is not None else b""
                        self.applied.append("pred:self_answer")
                        return orig_send(source_address, ExtendedPayload(cid, e["ident"], y, auth, cand))
                return orig(source_address, data, circuit_id)
            orig = ov.decode_map_private[ExtendPayload.msg_id]
            ov.decode_map_private[ExtendPayload.msg_id] = on_extend

    def _pred_op(self, node: str, m: dict, n: int, sends: list, target) -> list:  # noqa: ANN001
        op = m["op"]
        form, a = sends[0]
        if op == "swap":
            if n == m["c"]:
                self.pred_wait[m["_k"]] = (a, target)
                return sends[1:]
            first = self.pred_wait.pop(m["_k"], None)
            if first is None:
                return sends
            a0, t0 = first
            for fld in SWAP_FIELDS[m["fields"]]:
                a0[fld], a[fld] = a[fld], a0[fld]
            a0["_target"] = t0
            self.applied.append(f"pred:swap:{m['fields']}")
            return [("extended", a0), (form, a), *sends[1:]]
        if op == "flipdup":
            bad = dict(a)
            apply_field_op(bad, dict(m, op="flip"))
            self.applied.append(f"pred:flipdup:{m['order']}")
            form2 = m.get("form2", form)     # "created": the second copy goes out as a plaintext created cell, which
            #                                  the originator's onion layer (already one hop longer) cannot filter out
            pair = [(form, bad), (form2, a)] if m["order"] == "corrupt-first" else [(form, a), (form2, bad)]
            return [*pair, *sends[1:]]
        if op in ("flip", "set"):
            apply_field_op(a, m)
        elif op == "subst":
            e = self.mon.extends_seen[node].get(a["cid"])
            if e is None:
                return sends
            y, auth, guess = self.adv.forge(e["key"], e["node_public_key"],
                                            actor_static=self.w.nodes[node].my_peer.key, e=m.get("e", 0))
            a["key"], a["auth"] = y, auth
            if m.get("cand") == "reenc" and guess is not None:
                a["cand"] = guess.encrypt_str(self._cand_bin(), FORWARD)
        elif op == "as_created":
            sends[0] = ("created", a)
        elif op == "resend":
            self.applied.append("pred:resend")
            return [sends[0], (form, dict(a)), *sends[1:]]
        elif op == "drop":
            self.applied.append("pred:drop")
            return sends[1:]
        elif op == "replay_prev":
            g = self.mon.genuine[node]
            if not g:
                return sends
            old = {"cid": a["cid"], "ident": a["ident"], "key": g[0]["y"], "auth": g[0]["auth"], "cand": g[0]["cand"]}
            self.applied.append(f"pred:replay_prev:{m['form']}:{m['order']}")
            extra = (m["form"], old)
            return [extra, *sends] if m["order"] == "before" else ([extra, *sends[1:]] if m["order"] == "instead"
                                                                    else [sends[0], extra, *sends[1:]])
        else:
            return sends
        self.applied.append(f"pred:{op}:{m.get('field', m.get('cand', ''))}")
        return sends


# ---------------------------------------------------------------------------------------------------------------------
# one execution
# ---------------------------------------------------------------------------------------------------------------------

LEGACY_CURVES = ("very-low", "low", "medium", "high")


def _benign(m: dict) -> bool:
    """The network only loses, repeats or delays datagrams (contents untouched) and every participant is honest."""
    if m["site"] in ("sched", "app", "history"):
        return True
    if m["site"] in ("link0", "enc", "req0", "reqenc") and m["op"] in ("drop", "dup", "delay", "late", "abandoned"):
        when = tuple(m.get("when", ()))
        return not (len(when) > 1 and when[1] == "fixid")     # a rewritten identifier is a content change
    return False


def _restrict(w: TunnelWorld, h: int, spare: bool, free_exit: bool = False) -> None:
    """free_exit (spare worlds, h >= 2): the last relay offers two exits [X, S]; the originator has no required exit."""
    first = [PATHS[h][0]] if h > 1 else []
    w.restrict("O", [*first, "X", *(["S"] if spare and h > 1 else [])])
    if free_exit:
        w.restrict(PATHS[h][-2], ["X", "S"])
        if h == 3:
            w.restrict("R1", ["R2"])
        return
    if h == 3:
        w.restrict("R1", ["R2", *(["T"] if spare else [])])
        w.restrict("R2", ["X"])
        if spare:
            w.restrict("S", ["R2", "T"])
            w.restrict("T", ["X"])
    elif h == 2:
        w.restrict("R1", ["X"])
        if spare:
            w.restrict("S", ["X"])


def apply_history(w: TunnelWorld, hist: dict, seed: int) -> None:
    """
    "Peer moved": all nodes honest.  The exit X the originator is going to select was known to everybody on address a1.
    Optionally it is churned out of every other node's Network (removal "own": with the Network's own Peer object,
    "foreign": with an equal but distinct object, as another overlay sharing the Network does), one sweep period passes,
    (everywhere, or - "relays" - everywhere but at the originator), X comes back on a new address a2 and re-introduces itself (signed introduction request) to everybody or - when the
    others forgot it, so that they depend on the address the originator supplies - to the originator only.
    Another honest exit node Z now lives on a1 and, like every tunnel node, answers any create.
    """
    w.run_for(6.0)                                   # warm caches: every node ran do_circuits/do_remove/get_peers twice
    x = w.nodes["X"]
    old = tuple(x.address)
    key = x.my_peer.public_key.key_to_bin()
    others = [n for n in w.nodes if n != "X"]
    if hist["removal"] != "none":
        for n in (others if hist.get("where", "all") == "all" else [n for n in others if n != "O"]):
            net = w.nodes[n].network
            own = net.get_verified_by_public_key_bin(key)
            if own is not None:
                net.remove_peer(own if hist["removal"] == "own" else Peer(key, own.address))
        w.run_for(6.0)                               # one do_remove sweep on every node
    new = UDPv4Address("9.9.8.8", 1099)
    del w.endpoints[old]
    x.address = new
    x.endpoint.address = new
    w.endpoints[tuple(new)] = x.endpoint
    x.my_peer.address = new
    for o in x.overlays:
        o.my_estimated_wan = o.my_estimated_lan = new
    z = w.add_node("Z", seed + 10, address=UDPv4Address(*old))
    st = TunnelCommunity.settings_class()
    st.peer_flags = set(EXIT_ALL)
    st.min_circuits = st.max_circuits = 0
    w.ov["Z"] = z.add_overlay(TunnelCommunity, st)
    # "relays": everybody but the originator hears from X again - the originator still believes the old address
    for n in (others if hist["reintro"] == "all" else [m for m in others if m != "O"] if hist["reintro"] == "relays"
              else ["O"]):
        x.run(w.ov["X"].walk_to, w.nodes[n].address)
    w.flush()
    w.run_for(6.0)                                   # another sweep: candidates are pruned / refreshed


def run_one(scn: tuple, plan: list[dict], seed: int):  # noqa: ANN201
    """-> (violations [(key, what)], observation, info)"""
    h, ncirc, spare = scn
    plan = [dict(m) for m in plan]
    roles = dict(BASE_ROLES)
    if spare:
        roles.update(SPARE_ROLES)
    crowd = next((m for m in plan if m["site"] == "app" and m["op"] == "crowd"), None)
    if crowd is not None:
        # a populated overlay (all honest): `relays` relay-only members and `exits` further exit nodes, all of them
        # candidates of every path node (the candidate lists of the handshake are capped at 4 + 4 entries)
        roles.update({f"M{i + 1}": RELAY for i in range(crowd["relays"])})
        roles.update({f"E{i + 1}": EXIT_BT for i in range(crowd["exits"])})
    legacy = next((m for m in plan if m["site"] == "world"), None)
    # world "legacy-exit": the required exit X has an identity key on a legacy curve (it can sign, it cannot take part in
    # the key exchange): whoever answers in its place must not end up sharing keys with the originator
    w = TunnelWorld(("c08", seed, h, ncirc, spare, repr(crowd)), roles, key_offset=seed,
                    curves={"X": legacy["curve"]} if legacy else None)
    try:
        hist = next((m for m in plan if m["site"] == "history"), None)
        if hist is not None:
            apply_history(w, hist, seed)
        t0 = w.loop.time()
        adv = Adversary(w, seed)
        mon = Monitor(w, adv)
        mon.benign = all(_benign(m) for m in plan)
        icp = Interceptor(w, scn, plan, mon, adv)
        if legacy is not None:
            icp.applied.append(f"world:legacy-exit:{legacy['curve']}")
        if any(m["site"] == "sched" for m in plan):
            _batch_delivery(w, icp)
        ov = w.ov["O"]
        exit_peer = w.peer_of("O", "X")
        app = next((m for m in plan if m["site"] == "app"), None)
        free_exit = bool(app and app.get("free_exit"))
        if crowd is None:
            _restrict(w, h, spare, free_exit)
        else:
            # the originator is held to the forced path; the other path nodes know the whole population
            population = [n for n in w.nodes if n[0] in "ME"]
            w.restrict("O", [PATHS[h][0], "X"])
            for j, n in enumerate(PATHS[h][:-1]):
                w.restrict(n, [PATHS[h][j + 1], *population])
        circuits = []
        for _ in range(ncirc):
            if free_exit:
                c = w.nodes["O"].run(ov.create_circuit, h)
            elif hist is not None:
                # let the originator pick the exit from its own candidate table (only X qualifies after _restrict)
                c = w.nodes["O"].run(ov.create_circuit, h, exit_flags=[PEER_FLAG_EXIT_BT])
            else:
                c = w.nodes["O"].run(ov.create_circuit, h, required_exit=exit_peer)
            if c is None:
                return [("honest:create_circuit-refused" if hist is not None else "harness:create_circuit-refused", f"{scn} plan={_show(plan)}: the originator could not start the circuit")], None, {}
            circuits.append(c)
        if app is not None and app["op"] == "waiter":
            _start_waiter(w, mon, icp, circuits[0], app)
        elif app is not None:
            icp.applied.append(f"app:{app['op']}")
        w.flush()
        honest = all(m["site"] in ("sched", "history", "app") for m in plan)
        if honest:
            _honest_checks(w, mon, circuits, h, "after build")
        gaps = [p for p in icp.pending if p["cond"][0] == "gap"]
        if gaps:
            # deliver the held-back answer in the k-th loop iteration at the RetryRequestCache deadline
            p = gaps[0]
            sent = max((a[-1]["t"] for a in mon.attempts.values() if a), default=0.0)
            deadline = sent + ov.settings.next_hop_timeout     # attempt times are absolute loop times
            if deadline - 0.001 > w.loop.time():
                w.run_for(deadline - 0.001 - w.loop.time())
            seams.CLOCK.set(deadline)
            for _ in range(p["cond"][1]):
                w.loop.iteration()
            icp.pending.remove(p)
            w.wire_log.append(p["dg"])
            w.deliver_datagram(p["dg"], False)
            w.loop.iteration()
            mon.step()
        w.run_for(HORIZON - (w.loop.time() - t0) if gaps else HORIZON)
        if honest:
            _honest_checks(w, mon, circuits, h, f"after {HORIZON:.0f}s")
        mon.final()
        names = mon.pub2name
        obs = (
            tuple((c.state, tuple(names.get(x.public_key_bin, "?") for x in c.hops)) for c in mon.circuits),
            tuple((a["kind"], a["accepted"], a["index"]) for a in mon.answers),
            tuple(sorted(tuple(v.get("holders", ())) for v in mon.accept.values())),
            tuple(sorted(icp.applied)),
            tuple(sorted(mon.notes.items())),
        )
        info = {"applied": list(icp.applied), "notes": dict(mon.notes),
                "fired": len(icp.applied) > 0, "answers": len(mon.answers)}
        viol = []
        seen = set()
        for key, what in mon.viol:
            if key not in seen:
                seen.add(key)
                viol.append((key, f"h={h} circuits={ncirc} spare={spare} plan={_show(plan)}: {what}"))
        return viol, obs, info
    finally:
        w.close()


def _start_waiter(w: TunnelWorld, mon: Monitor, icp: Interceptor, c, app: dict) -> None:  # noqa: ANN001
    """
    The application dimension: a coroutine awaits `circuit.ready` (as REST /circuits/test, create_introduction_point,
    asyncio.wait_for(circuit.ready, t) ... do) and is cancelled / times out after `cancel_after` hops were added, i.e.
    before the next answer arrives.  Cancelling the awaiting task cancels the awaited future - plain asyncio semantics.
    """
    import asyncio

    async def wait() -> None:
        await c.ready

    task = w.nodes["O"].run(asyncio.ensure_future, wait(), loop=w.loop)
    w.loop.settle()
    k = app["cancel_after"]

    def cancel() -> None:
        if not task.done():
            task.cancel()
            icp.applied.append(f"app:waiter-cancelled-after-{k}")

    if k == 0:
        cancel()
        w.loop.settle()
    else:
        def on_accept(rec: dict) -> None:
            if rec["accepted"] and rec["index"] == k - 1:
                cancel()
        mon.accept_listeners.append(on_accept)


def _batch_delivery(w: TunnelWorld, icp: Interceptor) -> None:
    """
    Scheduling mode "batch": datagrams queued back-to-back for the same node are handed to it in ONE loop iteration
    (no ready-queue drain between them).  That is what endpoints do that post every datagram with call_soon(_threadsafe)
    - ipv8_rust_tunnels' RustEndpoint (the production tunnel endpoint), the test suite's MockEndpoint - or that read
    several datagrams per poll (uvloop); the stock selector UDP transport reads one datagram per iteration.
    """
    plain = w.deliver_datagram          # the monitor's wrapper: runs the oracle after a settled delivery

    def deliver(idx: int = 0, settle: bool = True):  # noqa: ANN202
        dg = w.inflight.pop(idx)
        group = [dg]
        while idx == 0 and w.inflight and tuple(w.inflight[0].dst) == tuple(dg.dst):
            group.append(w.inflight.pop(0))
        for g in group[:-1]:
            plain(g, False)
        plain(group[-1], settle)
        if len(group) > 1 and "sched:batch" not in icp.applied:
            icp.applied.append("sched:batch")
        return dg
    w.deliver = deliver


def _honest_checks(w: TunnelWorld, mon: Monitor, circuits: list, h: int, when: str) -> None:
    names = mon.pub2name
    for n, c in enumerate(circuits):
        got = [names.get(x.public_key_bin, "?") for x in c.hops]
        if c.state != CIRCUIT_STATE_READY or got != PATHS[h]:
            mon.flag("honest:not-ready", f"unmanipulated build {when}: circuit #{n} is {c.state} with hops {got}, "
                     f"expected READY {PATHS[h]}")
            continue
        for i in range(len(c.hops)):
            acc = mon.accept.get((id(c), i))
            if acc is None or not acc["genuine"]:
                mon.flag("honest:answer-not-genuine", f"unmanipulated build {when}: hop {i} of circuit #{n} was not "
                         f"accepted from the selected peer's own answer")
        before = {id(t): len(t.sent) for t in w.loop.transports}
        before_in = len(mon.raw_data)
        w.send_out("O", c, OUTSIDE, BT_PAYLOAD)
        w.flush()
        sent = [t for t in w.loop.transports if t.owner is w.nodes["X"] and len(t.sent) == before.get(id(t), 0) + 1
                and t.sent[-1] == (BT_PAYLOAD, OUTSIDE)]
        if len(sent) != 1 or sum(len(t.sent) for t in w.loop.transports) != sum(before.values()) + 1:
            mon.flag("honest:no-data-out", f"unmanipulated build {when}: data sent into circuit #{n} did not leave the exit")
            continue
        sent[-1].inject(BT_PAYLOAD, OUTSIDE)
        w.flush()
        if mon.raw_data[before_in:] != [BT_PAYLOAD]:
            mon.flag("honest:no-data-back", f"unmanipulated build {when}: the reply did not come back through circuit #{n}")


def _show(plan: list[dict]) -> str:
    return "[" + ", ".join("{" + ", ".join(f"{k}={v}" for k, v in m.items() if not k.startswith("_")) + "}"
                           for m in plan) + "]"


def op_class(m: dict) -> str:
    extra = m.get("field") or m.get("fields") or m.get("back") or m.get("src") or m.get("form") or ""
    if m["op"] in ("dup", "delay", "late"):
        extra = m["when"][0] if m["when"][0] != "retry" else f"retry-{m['when'][1]}"
    return f"{m['site']}:{m['op']}" + (f":{extra}" if extra else "")


# ---------------------------------------------------------------------------------------------------------------------
# the alphabet
# ---------------------------------------------------------------------------------------------------------------------

def answer_sites(h: int) -> list[tuple[str, int]]:
    out = []
    for j in range(h):
        out.append(("link0", j))
        if j >= 1:
            out.append(("pred", j))
    return out


def field_ops(site: str, j: int, c: int, h: int, cand_len: int, thorough: bool, reduced: bool) -> list[dict]:
    """Content manipulations of one answer (link0: plaintext created; pred: extended before encryption)."""
    base = {"site": site, "j": j, "c": c}
    final_hop = j == h - 1
    ops: list[dict] = []
    if reduced:
        ops += [dict(base, op="flip", field="ident", i=0), dict(base, op="flip", field="ident", i=15),
                dict(base, op="flip", field="key", i=0, mask=1), dict(base, op="flip", field="key", i=31, mask=0x80),
                dict(base, op="flip", field="auth", i=0, mask=1), dict(base, op="flip", field="auth", i=31, mask=0x80),
                dict(base, op="flip", field="cand", i=0, mask=1), dict(base, op="flip", field="cand", i=-1, mask=0x80),
                dict(base, op="set", field="key", v="zero"), dict(base, op="set", field="cand", v="empty"),
                dict(base, op="subst", e=0, cand="keep"), dict(base, op="subst", e=0, cand="reenc")]
        if site == "link0":
            ops += [dict(base, op="flip", field="cid", i=0)]
        return ops
    ops += [dict(base, op="flip", field="ident", i=i) for i in range(16)]
    if site == "link0":
        ops += [dict(base, op="flip", field="cid", i=i) for i in (range(32) if thorough else (0, 8, 16, 31))]
    masks = [1 << b for b in range(8)] if thorough else [0x01]
    for fld in ("key", "auth"):
        ops += [dict(base, op="flip", field=fld, i=i, mask=mk) for i in range(32) for mk in masks]
    if final_hop and not thorough:
        cpos = sorted({0, 7, 8, cand_len // 2, cand_len - 17, cand_len - 1})
    elif thorough:
        cpos = range(cand_len)
    else:
        cpos = sorted({*range(0, cand_len, 6), 7, 8, cand_len - 17, cand_len - 16, cand_len - 1})
    ops += [dict(base, op="flip", field="cand", i=i, mask=mk) for i in cpos if 0 <= i < cand_len
            for mk in ((0x01, 0x80) if thorough else (0x01,))]
    ops += [dict(base, op="set", field="ident", v=v) for v in ("zero", "max", "plus1", "minus1")]
    ops += [dict(base, op="set", field="key", v=v) for v in ("empty", "short", "long", "zero", "one", "ff")]
    ops += [dict(base, op="set", field="auth", v=v) for v in ("zero", "ff")]
    ops += [dict(base, op="set", field="cand", v=v) for v in ("empty", "trunc1", "extend1")]
    ops += [dict(base, op="subst", e=e, cand=cd) for e in ((0, 1, 2) if thorough else (0,)) for cd in ("keep", "reenc")]
    return ops


LAGS = [("sends", n) for n in range(0, 9)] + [("idle", 0), ("t", 10.5), ("t", 16.0)]
LATE = [("retry", "asis"), ("retry", "fixid"), ("t", 10.5), ("t", 16.0)]


def net_ops(site: str, j: int, c: int, reduced: bool, **extra) -> list[dict]:  # noqa: ANN003
    base = dict({"site": site, "j": j, "c": c}, **extra)
    if reduced:
        return [dict(base, op="drop"), dict(base, op="dup", when=("sends", 0)), dict(base, op="dup", when=("sends", 3)),
                dict(base, op="dup", when=("idle", 0)), dict(base, op="late", when=("retry", "asis")),
                dict(base, op="late", when=("retry", "fixid")), dict(base, op="late", when=("t", 10.5))]
    ops = [dict(base, op="drop")]
    ops += [dict(base, op="dup", when=wh) for wh in LAGS]
    ops += [dict(base, op="late", when=wh) for wh in LATE]
    return ops


def request_ops(h: int, c: int, reduced: bool) -> list[dict]:
    """Network duplication / late replay of the REQUESTS: each plaintext create and each encrypted extend cell."""
    lags = [("sends", 0), ("t", 10.5)] if reduced else LAGS
    ops = []
    for j in range(h):
        ops += [dict(site="req0", j=j, c=c, op="dup", when=wh) for wh in lags]
        for link in range(j):
            ops += [dict(site="reqenc", j=j, c=c, link=link, op="dup", when=wh) for wh in lags]
    return ops


def timing_ops(h: int, c: int, spare: bool) -> list[dict]:
    """Answers around the retry timer: in the k-th loop iteration at the RetryRequestCache deadline (answer held on the
    last link to the originator), and - with a spare peer to retry with - the created of the abandoned attempt reaching
    the relay dt seconds after the retried extend completed (the extend itself reached the relay req_delay s late)."""
    ops = []
    for j in range(h):
        for k in range(6):
            if j == 0:
                ops.append(dict(site="link0", j=0, c=c, op="late", when=("gap", k)))
            else:
                ops.append(dict(site="enc", j=j, c=c, link=0, op="late", when=("gap", k)))
    if spare and h == 3:
        ops += [dict(site="link0", j=1, c=c, op="abandoned", req_delay=d, offset=dt)
                for d in (0.0, 6.0) for dt in (0.0, 2.5, 4.9, 5.1, 10.0)]
    return ops


def flipdup_ops(h: int, c: int) -> list[dict]:
    """A copy with corrupted candidates_enc plus the genuine copy of the same answer (a pair, but a tiny family)."""
    ops = []
    for site, j in answer_sites(h):
        for order in ("corrupt-first", "genuine-first"):
            for i in (0, -1):
                if site == "link0":
                    ops += [dict(site=site, j=j, c=c, op="flipdup", field="cand", i=i, mask=1, order=order, when=wh)
                            for wh in (("sends", 0), ("sends", 2), ("idle", 0))]
                else:
                    ops += [dict(site=site, j=j, c=c, op="flipdup", field="cand", i=i, mask=1, order=order, form2=f2)
                            for f2 in ("extended", "created")]
    return ops


def site_ops(h: int, ncirc: int, cand_lens: dict, thorough: bool, reduced: bool = False, spare: bool = False) -> list[dict]:
    """Every single manipulation of a scenario."""
    ops: list[dict] = []
    for c in range(ncirc if not reduced else 1):
        ops += request_ops(h, c, reduced)
        if not reduced:
            ops += flipdup_ops(h, c)
            if c == 0:
                ops += timing_ops(h, c, spare)
    for c in range(ncirc if not reduced else 1):
        for site, j in answer_sites(h):
            ops += field_ops(site, j, c, h, cand_lens.get(j, 40), thorough, reduced)
            if site == "link0":
                ops += net_ops(site, j, c, reduced)
                ops += [dict(site=site, j=j, c=c, op="spoof")]
                ops += [dict(site=site, j=j, c=c, op="mitm", back=b) for b in ("pass", "subst")]
                ops += [dict(site=site, j=j, c=c, op="answer_by", src=s) for s in ("A", "hop")]
            else:
                ops += [dict(site=site, j=j, c=c, op="as_created"), dict(site=site, j=j, c=c, op="self_answer"),
                        dict(site=site, j=j, c=c, op="resend"), dict(site=site, j=j, c=c, op="drop")]
                forms = [("extended", "before"), ("created", "before"), ("extended", "instead"), ("created", "instead"),
                         ("extended", "after"), ("created", "after")]
                if reduced:
                    forms = forms[2:4]
                if j == 1:     # the first hop has an earlier answer of its own to replay
                    ops += [dict(site=site, j=j, c=c, op="replay_prev", form=f, order=o) for f, o in forms]
        # encrypted links towards the originator
        for j in range(1, h):
            for link in range(j):
                base = {"site": "enc", "j": j, "c": c, "link": link}
                if reduced:
                    ops += [dict(base, op="flipbody", pos="mid"), dict(base, op="drop"),
                            dict(base, op="dup", when=("sends", 0)), dict(base, op="late", when=("retry", "asis"))]
                    continue
                ops += [dict(base, op="flipbody", pos=p) for p in ("first", "mid", "last")]
                ops += [dict(base, op="flipcid", i=i) for i in (range(32) if thorough else (0, 31))]
                ops += [dict(base, op="plainflag")]
                ops += [m for m in net_ops("enc", j, c, False, link=link) if m.get("when") != ("retry", "fixid")]
    if ncirc == 2 and not reduced:
        for site, j in answer_sites(h):
            flds = ("ident", "cid", "ident+cid", "keyauth", "keyauthcand")
            ops += [dict(site=site, j=j, c=0, op="swap", fields=f) for f in flds]
            if site == "link0":
                ops += [dict(site=site, j=j, c=0, op="delay", when=("sends", n)) for n in range(1, 6)]
                ops += [dict(site=site, j=j, c=0, op="delay", when=("idle", 0))]
    return ops


def compatible(a: dict, b: dict) -> bool:
    """Two rules on the same answer combine only if they change different things."""
    same = (a["site"], a["j"], a["c"], a.get("link")) == (b["site"], b["j"], b["c"], b.get("link"))
    if not same:
        return True
    content = {"flip", "set", "subst"}
    if a["op"] in content and b["op"] in content:
        return "subst" not in (a["op"], b["op"]) and a.get("field") != b.get("field")
    if (a["op"] in content) != (b["op"] in content):
        other = b["op"] if a["op"] in content else a["op"]
        return other in ("dup", "late")
    return False


# ---------------------------------------------------------------------------------------------------------------------
# driver
# ---------------------------------------------------------------------------------------------------------------------

_SEED = 0


def _work(chunk: list) -> list:
    out = []
    for scn, plan in chunk:
        try:
            viol, obs, info = run_one(scn, plan, _SEED)
        except Exception as e:  # noqa: BLE001
            import traceback
            viol, obs, info = [(f"harness:crash:{type(e).__name__}", traceback.format_exc()[-900:])], None, {}
        out.append((scn, plan, viol, core.digest(obs).hex() if obs is not None else "", info))
    return out


def baseline_cand_lens(scn: tuple, seed: int) -> dict:
    """Length of candidates_enc of hop j's answer in the unmanipulated run (bounds the flip positions)."""
    h, ncirc, spare = scn
    roles = dict(BASE_ROLES)
    if spare:
        roles.update(SPARE_ROLES)
    w = TunnelWorld(("c08", seed, h, ncirc, spare), roles, key_offset=seed)
    try:
        _restrict(w, h, spare)
        c = w.nodes["O"].run(w.ov["O"].create_circuit, h, required_exit=w.peer_of("O", "X"))
        assert c is not None
        w.flush()
        lens = {}
        for dg in w.wire_log:
            if w.kind(dg) == "cell:created":
                for j, n in enumerate(PATHS[h]):
                    if tuple(dg.src) == tuple(w.nodes[n].address):
                        a = parse_answer_body(w.cell_fields(dg.data)[3][1:])
                        lens.setdefault(j, len(a["cand"]))
        return lens
    finally:
        w.close()


def build_jobs(thorough: bool, seed: int) -> tuple[list, dict]:
    jobs: list[tuple] = []
    stats: dict = {"scenarios": [], "singles": 0, "pairs": 0}
    scns = [(h, ncirc, spare) for h in (1, 2, 3) for ncirc, spare in ((1, False), (1, True), (2, False))
            if not (spare and h == 1)]      # a 1-hop circuit to a required exit has no alternative peer
    for scn in scns:
        h, ncirc, spare = scn
        lens = baseline_cand_lens(scn, seed)
        jobs.append((scn, []))
        singles = site_ops(h, ncirc, lens, thorough, spare=spare)
        if spare:
            # with spares only what differs matters: the retry goes to an alternative peer
            singles = [m for m in singles if m["op"] in ("drop", "late", "dup", "flipdup", "abandoned", "self_answer", "answer_by", "mitm",
                                                          "subst")
                       or (m["op"] in ("flip", "set") and (m.get("field") == "cand" or m.get("i") in (0, 15)))]
        if ncirc == 2 and not thorough:
            singles = [m for m in singles if m["op"] in ("swap", "delay") or (m["c"] == 1 and m["op"] in ("subst", "drop"))
                       or (m["site"] in ("req0", "reqenc") and m["c"] == 1 and tuple(m["when"]) in (("sends", 0), ("t", 10.5)))
                       or (m["op"] == "flip" and m.get("i") == 0 and m["c"] == 1)]
        jobs += [(scn, [m]) for m in singles]
        # scheduling mode "batch" (see _batch_delivery): the honest build, and every immediate duplicate of a request or
        # of an answer, with back-to-back datagrams for one node handled in a single loop iteration
        sched = {"site": "sched", "op": "batch"}
        batch = [m for m in singles if m["c"] == 0 and (
            (m["op"] == "dup" and tuple(m["when"]) == ("sends", 0)) or m["op"] == "resend"
            or (m["op"] == "flipdup" and tuple(m.get("when", ("sends", 0))) == ("sends", 0) and m["i"] == 0))]
        jobs.append((scn, [sched]))
        jobs += [(scn, [m, sched]) for m in batch]
        n_batch = len(batch) + 1
        n_app = 0
        if ncirc == 1:
            # application waiter on circuit.ready, cancelled before each answer; alone, and with every duplicate of every
            # answer (settled delivery; the immediate duplicates also in batch mode)
            waiters = [{"site": "app", "op": "waiter", "cancel_after": k} for k in range(h)]
            if spare:
                waiters = [dict(m, free_exit=True) for m in waiters]
            dups = [] if spare else [m for m in singles if m["op"] == "dup" and m["site"] in ("link0", "enc")]
            for wt in waiters:
                jobs.append((scn, [wt]))
                jobs.append((scn, [wt, sched]))
                n_app += 2
                for m in dups:
                    jobs.append((scn, [m, wt]))
                    n_app += 1
                    if tuple(m["when"]) == ("sends", 0):
                        jobs.append((scn, [m, wt, sched]))
                        n_app += 1
        if ncirc == 1 and not spare and h >= 2:
            # populated overlays: 0..6 relay-only members x 0..3 further exits next to the forced path (the candidate
            # lists of the handshake hold at most 4 relays + 4 exits: below, at and above the cap)
            for nr in ((0, 3, 4, 5, 6) if not thorough else range(7)):
                for ne in ((0, 3) if not thorough else range(4)):
                    if nr + ne + 5 <= 12 and (nr or ne):
                        jobs.append((scn, [{"site": "app", "op": "crowd", "relays": nr, "exits": ne}]))
                        n_app += 1
        if ncirc == 1 and spare:
            # no required exit: the last relay offers two exits [X, S], so a retry for the LAST position goes to the other
            # candidate; every lost, late or duplicated datagram of the build (the late answer of the first candidate
            # arrives while the second one is being asked)
            free = {"site": "app", "op": "free", "free_exit": True}
            jobs.append((scn, [free]))
            n_app += 1
            for m in singles:
                if m["op"] in ("drop", "late", "dup"):
                    jobs.append((scn, [m, free]))
                    n_app += 1
        n_hist = 0
        if ncirc == 1 and not spare:
            for removal, reintro, where in (("none", "all", "all"), ("foreign", "all", "all"), ("foreign", "O", "all"),
                                            ("own", "all", "all"), ("own", "O", "all"), ("foreign", "O", "relays"),
                                            ("own", "O", "relays"), ("none", "relays", "all")):
                if h == 1 and (reintro in ("O", "relays") or where == "relays"):
                    continue                      # with one hop the originator is the only node that looks X up
                jobs.append((scn, [{"site": "history", "op": "moved", "removal": removal, "reintro": reintro,
                                    "where": where}]))
                n_hist += 1
        if ncirc == 1 and not spare:
            for curve in (LEGACY_CURVES if thorough else LEGACY_CURVES[1::2]):
                world = {"site": "world", "op": "legacy-exit", "curve": curve}
                jobs.append((scn, [world]))
                n_app += 1
                for m in singles:
                    if m["j"] == h - 1 and m["c"] == 0 and (
                            (m["site"] == "pred" and m["op"] == "self_answer")
                            or (m["site"] == "link0" and m["op"] in ("answer_by", "mitm"))):
                        jobs.append((scn, [m, world]))
                        n_app += 1
        n_pairs = 0
        if thorough and ncirc == 1:
            red = site_ops(h, ncirc, lens, thorough, reduced=True)
            for a, b in itertools.combinations(red, 2):
                if compatible(a, b):
                    jobs.append((scn, [a, b]))
                    n_pairs += 1
        stats["batch"] = stats.get("batch", 0) + n_batch
        stats["scenarios"].append({"h": h, "circuits": ncirc, "spares": spare, "single_manipulations": len(singles),
                                   "batch_mode_plans": n_batch, "peer_moved_histories": n_hist, "app_waiter_plans": n_app,
                                   "pairs": n_pairs, "candidates_enc_len": lens})
        stats["singles"] += len(singles)
        stats["pairs"] += n_pairs
    return jobs, stats


def run(ctx: core.Ctx) -> core.Report:
    global _SEED
    _SEED = ctx.seed % 12
    jobs, stats = build_jobs(ctx.thorough, _SEED)
    res = core.pmap(_work, jobs, ctx.jobs, chunk=24)
    res.sort(key=lambda r: (r[0], len(r[1]), repr(r[1])))
    outcomes = set()
    fired = 0
    notes: Counter = Counter()
    per_class: Counter = Counter()
    single_hits: dict[str, set] = {}
    raw: list[tuple] = []
    for scn, plan, viol, dg, info in res:
        outcomes.add((scn, dg))
        if info.get("fired") or not plan:
            fired += 1
        for k, n in (info.get("notes") or {}).items():
            notes[k] += n
        for m in plan:
            per_class[op_class(m)] += 1
        for key, what in viol:
            raw.append((key, what, scn, plan))
            if len(plan) == 1:
                single_hits.setdefault(key, set()).add(repr(_strip(plan[0])))
    violations = []
    for key, what, scn, plan in raw:
        if len(plan) >= 2 and any(repr(_strip(m)) in single_hits.get(key, ()) for m in plan):
            continue        # already reported by the single manipulation it contains
        cls = "+".join(sorted({m["site"] for m in plan})) or "honest"      # coarse: one defect -> one key per site
        violations.append(core.Violation(f"{key}|{cls}", what, {"scenario": list(scn), "plan": [_strip(m) for m in plan],
                                                                 "seed": _SEED}))
    samples = [{"scenario": list(r[0]), "plan": [_strip(m) for m in r[1]]} for r in (res[0], res[len(res) // 3],
                                                                                   res[2 * len(res) // 3], res[-1])]
    cov = {
        "evaluations": len(res),
        "distinct_nontrivial": len(outcomes),
        "rule": "one evaluation = one complete run of 5-7 real TunnelCommunity nodes (default settings): forced-path "
                "circuit build by the originator under one plan of <= bound manipulations of handshake answers, then "
                f"{HORIZON:.0f}s of virtual time (retry timers, pings), with the oracle run after every delivered datagram "
                "and a decrypt probe at the end; distinct_nontrivial = distinct (scenario, final circuit states and hop "
                "names, accepted/rejected answer sequence, key-holder sets, manipulations that fired, notes) observations",
        "samples": samples,
        "exhaustive": True,
        "bound_manipulations": 2 if ctx.thorough else 1,
        "hop_counts": [1, 2, 3],
        "single_manipulations": stats["singles"],
        "pairs": stats["pairs"],
        "batch_mode_plans": stats.get("batch", 0),
        "plans_in_which_a_manipulation_fired": fired,
        "scenarios": stats["scenarios"],
        "per_manipulation_class": dict(sorted(per_class.items())),
        "non_property_observations": dict(notes),
        "mechanism_level_acceptance_checks": MECHANISM_CHECKS,
    }
    return core.Report(LEVEL, cov, violations, [
        "crypto primitives (ipv8_rust_tunnels, OpenSSL X25519) trusted; adversary guesses are the secrets it can "
        "compute from what it sees, not a cryptanalytic search",
        "PythonCryptoEndpoint only; data circuits only (no hidden-service e2e handshakes)",
        "byte flips use one mask per byte in quick, all 8 single-bit masks in thorough; pairs (thorough) are drawn "
        "from a reduced per-site alphabet",
        "accept:* keys are mechanism-level checks (identifier and HMAC must match for acceptance); the literal "
        "statement is covered by hop-list:*, leak:*, established-hop:*, honest*:*",
    ])


def _strip(m: dict) -> dict:
    return {k: (list(v) if isinstance(v, tuple) else v) for k, v in m.items() if not k.startswith("_")}


def replay(ctx: core.Ctx, data) -> list:  # noqa: ANN001
    if not data:
        return []
    scn = tuple(data["scenario"])
    plan = [dict(m) for m in data["plan"]]
    viol, _, _ = run_one((scn[0], scn[1], bool(scn[2])), plan, data["seed"])
    return [core.Violation(k, w) for k, w in viol]
