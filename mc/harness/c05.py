"""
C05 - Circuits are isolated from each other and from third parties.

Stateless depth-bounded DFS (DESIGN 2.3(b)) on real TunnelCommunity nodes over SimNet: two originators, two shared
relays, two exits and one adversary node.  After a setup that builds k concurrent circuits whose ids are *forced*
(``random.getrandbits(32)`` inside ipv8.messaging.anonymization.community is answered from a planned queue, so the
same small id values are in use at several nodes at once for different circuits) and passes one packet in each
direction over every circuit, every event sequence of length <= depth from the alphabet below is executed on the
real code and compared, after every single injected datagram, with a boring reference: the planned routing entries
(node, table, id, hop peer), a live/dying flag per circuit and the place where each uniquely marked packet may
surface.

Because live worlds hold Rust key material and asyncio tasks they cannot be copied; the DFS branches by ``os.fork``
(each tree node = one forked child that applies one event to its copy-on-write copy of the world), so every history
is executed on the real code without rebuilding the common prefix.  Replays (and the self-check of the first/last
history and of every violation) rebuild the world from scratch in a single process.
"""
from __future__ import annotations

import gc
import hashlib
import os
import pickle
import random as _real_random
import struct
import sys
import warnings

import ipv8.messaging.anonymization.community as _com
from ipv8.messaging.anonymization.community import TunnelCommunity
from ipv8.messaging.anonymization.hidden_services import HiddenTunnelCommunity
from ipv8.messaging.anonymization.payload import (
    CellPayload,
    CreatedPayload,
    CreatePayload,
    DataPayload,
    DestroyPayload,
    EstablishRendezvousPayload,
    LinkE2EPayload,
)
from ipv8.messaging.anonymization.tunnel import CIRCUIT_STATE_READY, CIRCUIT_TYPE_DATA, Circuit
from ipv8.messaging.payload_headers import BinMemberAuthenticationPayload

from .. import core
from ..tunnelworld import EXIT_BT, RELAY, TunnelWorld

LEVEL = "model_checking"

# worlds are thrown away with tasks still scheduled (that is the point of a bounded history); do not let the
# interpreter report each never-started coroutine on stderr
warnings.filterwarnings("ignore", category=RuntimeWarning, message="coroutine .* was never awaited")


# ---------------------------------------------------------------------------------------------------------------------
# seam: circuit ids are enumerated choices, not random numbers
# ---------------------------------------------------------------------------------------------------------------------

class _IdProxy:
    """Stands in for the ``random`` module inside anonymization/community.py; only getrandbits(32) is redirected."""

    def __init__(self) -> None:
        self.queue: list[int] = []
        self.fallbacks = 0

    def __getattr__(self, name: str):  # noqa: ANN204
        return getattr(_real_random, name)

    def getrandbits(self, k: int) -> int:
        if k == 32:
            if self.queue:
                return self.queue.pop(0)
            self.fallbacks += 1
        return _real_random.getrandbits(k)


ID_PROXY = _IdProxy()
_com.random = ID_PROXY


class C05Community(TunnelCommunity):
    """The real community; the application callback for data arriving out of a circuit is recorded."""

    def __init__(self, settings) -> None:  # noqa: ANN001
        self.c05_log: list[tuple] = []
        super().__init__(settings)

    def on_raw_data(self, circuit, origin, data) -> None:  # noqa: ANN001
        self.c05_log.append((circuit.circuit_id, tuple(origin), bytes(data)))


class C05HiddenCommunity(HiddenTunnelCommunity):
    """The real hidden-services community (rendezvous / introduction points) with the same recording callback."""

    def __init__(self, settings) -> None:  # noqa: ANN001
        self.c05_log: list[tuple] = []
        super().__init__(settings)

    def on_raw_data(self, circuit, origin, data) -> None:  # noqa: ANN001
        self.c05_log.append((circuit.circuit_id, tuple(origin), bytes(data)))


# ---------------------------------------------------------------------------------------------------------------------
# reference: the plan (who routes what under which id) - written from the protocol description, not from the code
# ---------------------------------------------------------------------------------------------------------------------

ROLES = {"O1": RELAY, "O2": RELAY, "R1": RELAY, "R2": RELAY, "X1": EXIT_BT, "X2": EXIT_BT, "ADV": RELAY}
CIRCUITS = [
    ("O1", ["R1", "X1"]),
    ("O2", ["R1", "X2"]),          # shares relay R1 with circuit 0
    ("O1", ["R2", "X2"]),          # shares originator O1 with 0 and exit X2 with 1
    ("O2", ["R2", "X1"]),          # shares R2 with 2, X1 with 0, O2 with 1
    ("O1", ["R1", "R2", "X1"]),    # three hops through both relays
    ("O2", ["X2"]),                # one hop
]
OUTSIDE = ("9.9.9.9", 99)
UNKNOWN_ID = 0x7777AAAA
MARK = b"c05MRK"                   # genuine application data
FORGED = b"c05FRG"                 # data planted by the adversary


class CircuitPlan:
    def __init__(self, index: int, origin: str, path: list[str], ids: list[int]) -> None:
        self.index = index
        self.origin = origin
        self.path = path
        self.nodes = [origin, *path]
        self.ids = ids                        # ids[l] names the link nodes[l] - nodes[l+1]
        self.exit = path[-1]
        n = self.nodes
        # routing entries (node, table, id) -> name of the hop peer stored there
        self.entries: dict[tuple, str] = {(origin, "circuits", ids[0]): n[1]}
        for p in range(1, len(n) - 1):
            self.entries[(n[p], "relay_from_to", ids[p - 1])] = n[p + 1]     # cells named ids[p-1] go on to n[p+1]
            self.entries[(n[p], "relay_from_to", ids[p])] = n[p - 1]         # cells named ids[p] go back to n[p-1]
        self.entries[(self.exit, "exit_sockets", ids[-1])] = n[-2]
        # spots: (node, id, the neighbour that legitimately uses this id towards node, role)
        self.spots: list[tuple] = [(origin, ids[0], n[1], "origin")]
        for p in range(1, len(n) - 1):
            self.spots.append((n[p], ids[p - 1], n[p - 1], "relay-in"))
            self.spots.append((n[p], ids[p], n[p + 1], "relay-out"))
        self.spots.append((self.exit, ids[-1], n[-2], "exit"))


def make_plan(k: int, indices: list[int] | None = None) -> tuple[list[CircuitPlan], dict[str, set]]:
    """Greedy id assignment: every link gets the smallest id not yet in use at either end (maximal reuse)."""
    used: dict[str, set] = {n: set() for n in ROLES}
    plans = []
    for idx, which in enumerate(indices if indices is not None else range(k)):
        origin, path = CIRCUITS[which]
        nodes = [origin, *path]
        ids = []
        for u, v in zip(nodes, nodes[1:]):
            cid = 1
            while cid in used[u] or cid in used[v]:
                cid += 1
            used[u].add(cid)
            used[v].add(cid)
            ids.append(cid)
        plans.append(CircuitPlan(idx, origin, path, ids))
    return plans, used


def bt(marker: bytes) -> bytes:
    """A bencoded dict (passes the exit's BitTorrent shape test) carrying the marker."""
    return b"d1:m%d:%se" % (len(marker), marker)


def marker_of(data: bytes) -> bytes | None:
    for tag in (MARK, FORGED):
        i = data.find(tag)
        if i >= 0:
            return data[i:].rstrip(b"e")
    return None


# ---------------------------------------------------------------------------------------------------------------------
# the world: real nodes + reference bookkeeping + oracle
# ---------------------------------------------------------------------------------------------------------------------

class HarnessError(Exception):
    pass


class World5:
    def __init__(self, k: int, seed: int, indices: list[int] | None = None, remove_delay: float = 0,
                 hold_last: bool = False, no_traffic: bool = False, custom: list[tuple] | None = None,
                 defer: tuple = (), hidden: bool = False) -> None:
        """
        indices: which of CIRCUITS to use (default the first k); hold_last: the last one is planned but not built
        (see _start/adopt_last); remove_delay: settings.remove_tunnel_delay for every node; no_traffic: the setup
        sends nothing (exit sockets stay unopened); custom: explicit [(origin, path, link ids)] instead of CIRCUITS;
        defer: positions of planned circuits that are built later (build_late); hidden: HiddenTunnelCommunity nodes.
        """
        self.k = k
        self.seed = seed
        if custom is not None:
            self.plans = [CircuitPlan(i, o, list(path), list(ids)) for i, (o, path, ids) in enumerate(custom)]
            self.used = {n: {cid for q in self.plans for l, cid in enumerate(q.ids) if n in q.nodes[l:l + 2]}
                         for n in ROLES}
        else:
            self.plans, self.used = make_plan(k, indices)
        ID_PROXY.queue = []
        ID_PROXY.fallbacks = 0
        self.w = TunnelWorld(("c05", seed, k, indices, custom), ROLES,
                             community_cls=C05HiddenCommunity if hidden else C05Community, key_offset=seed % 5,
                             remove_tunnel_delay=remove_delay)
        w = self.w
        self.addr = {n: node.address for n, node in w.nodes.items()}     # UDPv4Address, as a real endpoint reports
        self.prefix = w.ov["ADV"].get_prefix()
        self.live = [True] * k
        self.sent = [0] * k            # forward packets delivered outside, per circuit
        self.replied = [0] * k         # reply packets delivered to the originator, per circuit
        self.seq = 0
        self.lapses = 0                # number of 61 s waits so far
        self.injections = 0
        self.trace: list[bytes] = []
        self._p_out = 0
        self._p_wire = 0
        self._p_app = {n: 0 for n in w.ov}
        self.circ_obj: list = [None] * len(self.plans)
        self.exit_tr: list = [None] * k
        self.snap: dict[tuple, tuple] = {}
        self.extras: set = set()       # entries adopted after a reported violation (so that it is reported once)
        self.setup_violations: list[tuple] = []
        if hold_last:
            defer = (*defer, len(self.plans) - 1)
        built = [p for p in self.plans if p.index not in defer]
        self._saved_candidates: dict | None = None
        for i in defer:
            self.live[i] = False
        for p in built:
            self.circ_obj[p.index] = self._build(p)
        self._take_snapshot()
        missing = [e for p in built for e in p.entries if e not in self.snap]
        surplus = [e for e in self.snap if not any(e in p.entries for p in built)]
        if missing or surplus or ID_PROXY.fallbacks or any(self.circ_obj[p.index].state != CIRCUIT_STATE_READY for p in built):
            raise HarnessError(f"setup did not produce the planned tables: missing={missing} surplus={surplus} "
                               f"fallbacks={ID_PROXY.fallbacks} tables={w.tables()}")
        # one packet out and one reply on every circuit: opens every exit socket, records cells on every link
        if no_traffic:
            built = []
        for p in built:
            self.setup_violations += self._send(p.index, "setup")
            sock = w.ov[p.exit].exit_sockets.get(p.ids[-1])
            self.exit_tr[p.index] = sock.transport_ipv4 if sock is not None else None
        self.broken = any(self.exit_tr[p.index] is None for p in built)     # no packet left: nothing to explore
        if not self.broken:
            for p in built:
                self.setup_violations += self._reply(p.index, "setup")
        self.trace.append(self.digest())

    # -- construction ---------------------------------------------------------------------------------------------
    def _start(self, p: CircuitPlan) -> Circuit:
        """Force the path and send the first create (nothing delivered yet); candidates stay restricted."""
        w = self.w
        self._saved_candidates = {n: dict(o.candidates) for n, o in w.ov.items()}
        for i in range(len(p.path) - 2):
            w.restrict(p.path[i], [p.path[i + 1]])
        ov = w.ov[p.origin]
        ID_PROXY.queue = list(p.ids)

        def start() -> Circuit:
            cid = ov._generate_circuit_id()
            circuit = Circuit(cid, len(p.path), CIRCUIT_TYPE_DATA, w.peer_of(p.origin, p.exit), None)
            ov.circuits[cid] = circuit
            ov.send_initial_create(circuit, [w.peer_of(p.origin, p.path[0])],
                                   ov.settings.circuit_timeout // ov.settings.next_hop_timeout)
            return circuit
        return w.nodes[p.origin].run(start)

    def _restore_candidates(self) -> None:
        if self._saved_candidates is not None:
            for n, o in self.w.ov.items():
                o.candidates.clear()
                o.candidates.update(self._saved_candidates[n])
            self._saved_candidates = None

    def _build(self, p: CircuitPlan) -> Circuit:
        try:
            c = self._start(p)
            self.w.flush()
            if ID_PROXY.queue:
                raise HarnessError(f"circuit {p.index}: planned ids not consumed: {ID_PROXY.queue}")
            return c
        finally:
            self._restore_candidates()

    def table_view(self) -> dict:
        """(node, table, id) -> identity tuple of everything currently routed anywhere."""
        return {(n, t, key): self._ident(obj) for n, t, table in self._tables() for key, obj in table.items()}

    @staticmethod
    def table_diff(before: dict, after: dict) -> list[tuple]:
        out = []
        for e, now in after.items():
            ref = before.get(e)
            if ref is None:
                out.append((f"table-added:{e[1]}", f"{e[0]}.{e[1]}[{e[2]}] appeared"))
            elif any(a is not b for a, b in zip(now[:4], ref[:4])) or now[4] != ref[4]:
                out.append((f"entry-replaced:{e[1]}", f"{e[0]}.{e[1]}[{e[2]}] was replaced"))
        for e in before:
            if e not in after:
                out.append((f"entry-removed:{e[1]}", f"{e[0]}.{e[1]}[{e[2]}] vanished"))
        return out

    def holds(self, node: str, cid: int) -> bool:
        ov = self.w.ov[node]
        return cid in ov.circuits or cid in ov.relay_from_to or cid in ov.exit_sockets

    def forged_create(self, node: str, cid: int, neigh: str, variant: str) -> None:
        """ADV asks `node` to open a circuit under cid (own key, or the neighbour's key and address); flushes."""
        adv = self.w.ov["ADV"]
        _, dh = adv.crypto.generate_diffie_secret()
        who = "ADV" if variant == "adversary-key" else neigh
        key = self.w.nodes[who].my_peer.public_key.key_to_bin()
        self.w.inject(self.addr[who], self.addr[node], self._cell(cid, self._msg(CreatePayload(cid, 7, key, dh)), True))
        self.w.flush()
        self.injections += 1

    def adopt_last(self, c: Circuit) -> list[tuple]:
        """The held circuit finished building: make it an ordinary live circuit of the reference."""
        p = self.plans[-1]
        self._restore_candidates()
        self.circ_obj[p.index] = c
        self._take_snapshot()
        self.extras = set()
        out = [("build-incomplete", f"{e[0]}.{e[1]}[{e[2]}] of the new circuit is missing") for e in p.entries
               if e not in self.snap]
        for e, ident in self.snap.items():
            owner = [q for q in self.plans if e in q.entries]
            if not owner:
                out.append((f"table-added:{e[1]}", f"{e[0]}.{e[1]}[{e[2]}] exists but no circuit was planned there "
                                                   f"(hop peer {self._who(ident[2])})"))
            elif self._who(ident[2]) != owner[0].entries[e]:
                out.append((f"entry-replaced:{e[1]}", f"{e[0]}.{e[1]}[{e[2]}] has hop peer {self._who(ident[2])}, "
                                                      f"planned {owner[0].entries[e]}"))
        self.live[-1] = not out
        return out

    def build_late(self, i: int) -> list[tuple] | None:
        """
        Build deferred circuit i now.  None = it did not become READY (e.g. the id was refused); otherwise the list of
        discrepancies between its planned entries and the tables ([] = it is now a live circuit of the reference).
        """
        p = self.plans[i]
        c = self._build(p)
        self.injections += 1
        if c.state != CIRCUIT_STATE_READY:
            ID_PROXY.queue = []
            return None
        self.circ_obj[i] = c
        view = self.table_view()
        out = []
        for e, hop in p.entries.items():
            if e not in view:
                out.append(("build-incomplete", f"{e[0]}.{e[1]}[{e[2]}] of the new circuit is missing"))
            elif self._who(view[e][2]) != hop:
                out.append((f"entry-replaced:{e[1]}", f"{e[0]}.{e[1]}[{e[2]}] has hop peer {self._who(view[e][2])}, "
                                                      f"planned {hop}"))
            else:
                self.snap[e] = view[e]
        self.live[i] = not out
        return out

    def _tables(self):  # noqa: ANN202
        for n, ov in self.w.ov.items():
            yield n, "circuits", ov.circuits
            yield n, "relay_from_to", ov.relay_from_to
            yield n, "exit_sockets", ov.exit_sockets

    @staticmethod
    def _ident(obj) -> tuple:  # noqa: ANN001
        """(entry object, its Hop, the hop's Peer, the session keys) by identity + the peer's current address."""
        hop = obj.hop
        peer = hop.peer
        return (obj, hop, peer, hop.keys, tuple(peer.address))

    def _take_snapshot(self) -> None:
        self.snap = {}
        for n, t, table in self._tables():
            for key, obj in table.items():
                self.snap[(n, t, key)] = self._ident(obj)

    # -- oracle ---------------------------------------------------------------------------------------------------
    def check(self) -> list[tuple]:
        """Compare the real nodes with the reference; returns [(oracle, detail)]. Called after every injection."""
        w = self.w
        out: list[tuple] = []
        present = set()
        for n, t, table in self._tables():
            for key, obj in list(table.items()):
                e = (n, t, key)
                present.add(e)
                ref = self.snap.get(e)
                if ref is None:
                    if e not in self.extras:
                        self.extras.add(e)
                        out.append((f"table-added:{t}", f"{n}.{t}[{key}] appeared (hop peer at "
                                                        f"{self._who(obj.hop.peer)})"))
                    continue
                hop = obj.hop
                if (obj is ref[0] and hop is ref[1] and hop.peer is ref[2] and hop.keys is ref[3]
                        and tuple(hop.peer.address) == ref[4]):
                    continue
                now = self._ident(obj)
                what = (f"{n}.{t}[{key}] was replaced: hop peer {self._who(ref[2])}@{ref[4]} -> "
                        f"{self._who(now[2])}@{now[4]}, same object: {now[0] is ref[0]}, "
                        f"same session keys: {now[3] is ref[3]}")
                self.snap[e] = now
                self._taint(e)
                out.append((f"entry-replaced:{t}", what))
        for p in self.plans:
            if not self.live[p.index]:
                continue
            for e in p.entries:
                if e not in present:
                    self.live[p.index] = False
                    out.append((f"entry-removed:{e[1]}", f"{e[0]}.{e[1]}[{e[2]}] of live circuit {p.index} vanished"))
            c = self.circ_obj[p.index]
            if self.live[p.index] and c.state != CIRCUIT_STATE_READY:
                self.live[p.index] = False
                out.append(("circuit-closing", f"live circuit {p.index} at {p.origin} went to state {c.state}"))
        # everything that left an exit socket since the last check
        log = w.loop.outside_log
        for tr, data, dest in log[self._p_out:]:
            out += self._judge_outside(tr, data, dest)
        self._p_out = len(log)
        # everything handed to an application since the last check
        for n, ov in w.ov.items():
            for cid, origin, data in ov.c05_log[self._p_app[n]:]:
                out += self._judge_app(n, cid, origin, data)
            self._p_app[n] = len(ov.c05_log)
        # nothing genuine may be on the wire in the clear
        adv_ep = w.nodes["ADV"].endpoint
        for dg in w.wire_log[self._p_wire:]:
            if dg.sender is not adv_ep and MARK in dg.data:
                out.append(("cleartext-on-wire", f"{self._name(dg.src)}->{self._name(dg.dst)} carries "
                                                 f"{marker_of(dg.data)!r} unencrypted"))
        self._p_wire = len(w.wire_log)
        return out

    def _taint(self, e: tuple) -> None:
        for p in self.plans:
            if e in p.entries:
                self.live[p.index] = False

    def _judge_outside(self, tr, data: bytes, dest) -> list[tuple]:  # noqa: ANN001
        m = marker_of(data)
        owner = tr.owner.name if tr.owner is not None else "?"
        if m is None or not m.startswith(MARK + b"/F/"):
            return [("forged-data-exited", f"{owner} sent {m or data[:40]!r} to {tuple(dest)} from an exit socket")]
        i = int(m.split(b"/")[2])
        p = self.plans[i]
        expected = self.exit_tr[i]
        if expected is None:      # setup: the socket is opened by this very packet
            sock = self.w.ov[p.exit].exit_sockets.get(p.ids[-1])
            expected = sock.transport_ipv4 if sock is not None else None
        if tr is not expected:
            return [("misrouted-exit", f"{m!r} (sent into circuit {i}, exit {p.exit}) left through a socket of "
                                       f"{owner} that is not circuit {i}'s exit socket")]
        if tuple(dest) != OUTSIDE:
            return [("misrouted-exit", f"{m!r} left for {tuple(dest)} instead of {OUTSIDE}")]
        self.sent[i] += 1
        return []

    def _judge_app(self, n: str, cid: int, origin: tuple, data: bytes) -> list[tuple]:
        m = marker_of(data)
        if m is not None and m.startswith(MARK + b"/F/"):
            i = int(m.split(b"/")[2])
            return [("misrouted-data", f"{m!r} (sent into circuit {i} by {self.plans[i].origin}) was handed to the "
                                       f"application at {n} labelled circuit id {cid}")]
        if m is None or not m.startswith(MARK + b"/B/"):
            return [("forged-data-delivered", f"{n} handed {m or data[:40]!r} (circuit id {cid}, origin {origin}) "
                                              "to the application")]
        i = int(m.split(b"/")[2])
        p = self.plans[i]
        if n != p.origin or cid != p.ids[0] or origin != OUTSIDE:
            return [("misrouted-reply", f"{m!r} (reply on circuit {i}: originator {p.origin}, id {p.ids[0]}) was "
                                        f"delivered at {n} labelled circuit id {cid}, origin {origin}")]
        self.replied[i] += 1
        return []

    def _name(self, addr) -> str:  # noqa: ANN001
        for n, a in self.addr.items():
            if tuple(a) == tuple(addr):
                return n
        return str(tuple(addr))

    def _who(self, peer) -> str:  # noqa: ANN001
        return self._who_bin(peer.public_key.key_to_bin())

    def _who_bin(self, key_bin: bytes) -> str:
        for n, node in self.w.nodes.items():
            if node.my_peer.public_key.key_to_bin() == key_bin:
                return n
        return key_bin[-4:].hex()

    def digest(self) -> bytes:
        """Abstract state: key sets per node (+ originator circuit state), live flags, delivery counts, waits."""
        tabs = tuple((n, t, tuple(sorted((k, getattr(o, "state", "")) for k, o in table.items())))
                     for n, t, table in self._tables())
        closed = tuple(tr is None or tr.closed for tr in self.exit_tr)
        return core.digest((tabs, tuple(self.live), tuple(self.sent), tuple(self.replied), closed, self.lapses,
                            len(self.w.loop.exceptions)))

    # -- genuine traffic -------------------------------------------------------------------------------------------
    def _send(self, i: int, label: str) -> list[tuple]:
        p = self.plans[i]
        w = self.w
        self.seq += 1
        m = MARK + b"/F/%d/%d" % (i, self.seq)
        before = self.sent[i]
        was_live = self.live[i]
        w.send_out(p.origin, self.circ_obj[i], OUTSIDE, bt(m))
        w.flush()
        self.injections += 1
        out = [(o, d, label) for o, d in self.check()]
        if was_live and self.live[i] and self.sent[i] != before + 1:
            out.append(("delivery-lost", f"{m!r} sent by {p.origin} into live circuit {i} left its exit "
                                         f"{self.sent[i] - before} times", label))
        return out

    def _reply(self, i: int, label: str) -> list[tuple]:
        p = self.plans[i]
        self.seq += 1
        m = MARK + b"/B/%d/%d" % (i, self.seq)
        before = self.replied[i]
        was_live = self.live[i]
        self.exit_tr[i].inject(bt(m), OUTSIDE)
        self.w.flush()
        self.injections += 1
        out = [(o, d, label) for o, d in self.check()]
        if was_live and self.live[i] and self.replied[i] != before + 1:
            out.append(("delivery-lost", f"reply {m!r} arriving at the exit socket of live circuit {i} reached "
                                         f"{p.origin} {self.replied[i] - before} times", label))
        return out

    # -- forging helpers -------------------------------------------------------------------------------------------
    def _cell(self, cid: int, message: bytes, plaintext: bool) -> bytes:
        return CellPayload(cid, message, plaintext, False).to_bin(self.prefix)

    def _msg(self, payload) -> bytes:  # noqa: ANN001
        ser = self.w.ov["ADV"].serializer
        return bytes([payload.msg_id]) + ser.pack_serializable(payload)[4:]

    def _garbage(self, n: int, salt: object) -> bytes:
        out = b""
        c = 0
        while len(out) < n:
            out += hashlib.sha256(repr((salt, c)).encode()).digest()
            c += 1
        return out[:n]

    def _signed_destroy(self, signer: str, cid: int, claim: str | None = None) -> bytes:
        ov = self.w.ov[signer]
        if claim is None:
            return ov.ezr_pack(DestroyPayload.msg_id, DestroyPayload(cid, 1))
        # the authentication header names `claim`'s key, the signature is made with `signer`'s key
        from ipv8.keyvault.crypto import default_eccrypto
        auth = BinMemberAuthenticationPayload(self.w.nodes[claim].my_peer.public_key.key_to_bin())
        packet = self.prefix + bytes([DestroyPayload.msg_id]) + ov.serializer.pack_serializable_list(
            [auth, DestroyPayload(cid, 1)])
        return packet + default_eccrypto.create_signature(ov.my_peer.key, packet)

    def _inject(self, src: str | tuple, dst: str, data: bytes) -> list[tuple]:
        s = self.addr[src] if isinstance(src, str) else src
        self.w.inject(s, self.addr[dst], data)
        self.w.flush()
        self.injections += 1
        return self.check()

    def _offpath(self, p: CircuitPlan, cid: int) -> str:
        cands = [n for n in ROLES if n != "ADV" and n not in p.nodes]
        cands.sort(key=lambda n: (cid not in self.used[n], n))
        return cands[0]

    def _recorded(self, p: CircuitPlan) -> list[tuple]:
        """The latest genuine encrypted cell on every directed link of circuit p: [(description, bytes)]."""
        out = []
        for l, cid in enumerate(p.ids):
            u, v = p.nodes[l], p.nodes[l + 1]
            for a, b in ((u, v), (v, u)):
                for dg in reversed(self.w.wire_log):
                    if tuple(dg.src) == tuple(self.addr[a]) and tuple(dg.dst) == tuple(self.addr[b]):
                        f = self.w.cell_fields(dg.data)
                        if f and f[0] == cid and not f[1]:
                            out.append((f"{a}->{b}", dg.data))
                            break
        return out

    # -- events ------------------------------------------------------------------------------------------------------
    def alphabet(self) -> list[list]:
        k = self.k
        ev: list[list] = []
        for i in range(k):
            ev += [["S", i], ["P", i]]
        ev.append(["U"])
        for i in range(k):
            ev += [["W", i], ["L", i], ["DF", i], ["C", i]]
        for i in range(k):
            ev += [["DV", i, "origin-api"], ["DV", i, "exit-api"]]
        ev += [["DV", 0, "hop-signs-to-origin"], ["DV", 0, "hop-signs-to-exit"]]
        ev.append(["T"])
        return ev

    def enabled(self, ev: list) -> bool:
        kind = ev[0]
        if kind in ("T", "U"):
            return True
        i = ev[1]
        if kind == "S":
            p = self.plans[i]
            c = self.w.ov[p.origin].circuits.get(p.ids[0])
            return c is self.circ_obj[i] and c.state == CIRCUIT_STATE_READY
        if kind == "P":
            return not self.exit_tr[i].closed
        if kind == "L" and self.k < 2:
            return False
        return self.live[i]

    def steps(self, ev: list):  # noqa: ANN201
        """The single injections an event consists of: yields (label, thunk -> [(oracle, detail)])."""
        kind = ev[0]
        if kind == "S":
            yield "S", lambda: [(o, d) for o, d, _ in self._send(ev[1], "S")]
        elif kind == "P":
            yield "P", lambda: [(o, d) for o, d, _ in self._reply(ev[1], "P")]
        elif kind == "T":
            yield "T", self._wait
        elif kind == "U":
            yield from self._steps_unknown()
        elif kind == "W":
            yield from self._steps_wrong_keys(self.plans[ev[1]])
        elif kind == "L":
            yield from self._steps_relabel(self.plans[ev[1]])
        elif kind == "DF":
            yield from self._steps_forged_destroy(self.plans[ev[1]])
        elif kind == "C":
            yield from self._steps_create(self.plans[ev[1]])
        elif kind == "DV":
            yield f"DV/{ev[2]}", lambda: self._valid_destroy(self.plans[ev[1]], ev[2])
        else:
            raise HarnessError(f"unknown event {ev}")

    def _wait(self) -> list[tuple]:
        self.w.run_for(61.0)
        self.lapses += 1
        self.injections += 1
        return self.check()

    def _data_msgs(self, cid: int, tag: str) -> list[tuple]:
        """Forged payloads for circuit id cid: (variant, message, plaintext flag)."""
        m = FORGED + b"/" + tag.encode()
        to_exit = self._msg(DataPayload(cid, OUTSIDE, ("0.0.0.0", 0), bt(m + b"/x")))
        to_orig = self._msg(DataPayload(cid, ("0.0.0.0", 0), ("6.6.6.6", 66), bt(m + b"/o")))
        created = self._msg(CreatedPayload(cid, 0, self._garbage(32, "k"), self._garbage(32, "a"), b""))
        return [("garbage", self._garbage(96, (cid, tag)), False),
                ("plaintext-data-out", to_exit, True), ("plaintext-data-in", to_orig, True),
                ("unencrypted-data-out", to_exit, False), ("unencrypted-data-in", to_orig, False),
                ("plaintext-created", created, True)]

    def _steps_unknown(self):  # noqa: ANN202
        for node, role in (("O1", "origin"), ("R1", "relay"), ("X1", "exit")):
            for variant, msg, plain in self._data_msgs(UNKNOWN_ID, "U"):
                yield (f"U/{role}/{variant}",
                       lambda node=node, msg=msg, plain=plain: self._inject("ADV", node,
                                                                            self._cell(UNKNOWN_ID, msg, plain)))
            yield (f"U/{role}/destroy-adv",
                   lambda node=node: self._inject("ADV", node, self._signed_destroy("ADV", UNKNOWN_ID)))
            yield (f"U/{role}/destroy-honest",
                   lambda node=node: self._inject("O2", node, self._signed_destroy("O2", UNKNOWN_ID)))

    def _steps_wrong_keys(self, p: CircuitPlan):  # noqa: ANN202
        for node, cid, neigh, role in p.spots:
            for variant, msg, plain in self._data_msgs(cid, f"W{p.index}"):
                yield (f"W/{role}/{variant}",
                       lambda node=node, cid=cid, msg=msg, plain=plain: self._inject("ADV", node,
                                                                                     self._cell(cid, msg, plain)))
            variant, msg, plain = self._data_msgs(cid, f"W{p.index}s")[0]
            yield (f"W/{role}/garbage-spoofed-src",
                   lambda node=node, cid=cid, msg=msg, neigh=neigh: self._inject(neigh, node,
                                                                                 self._cell(cid, msg, False)))

    def _steps_relabel(self, p: CircuitPlan):  # noqa: ANN202
        for q in self.plans:
            if q.index == p.index:
                continue
            for desc, data in self._recorded(q):
                for node, cid, neigh, role in p.spots:
                    relabelled = data[:23] + struct.pack("!I", cid) + data[27:]
                    yield (f"L/{role}",
                           lambda node=node, relabelled=relabelled: self._inject("ADV", node, relabelled))
                    yield (f"L/{role}/spoofed-src",
                           lambda node=node, relabelled=relabelled, neigh=neigh: self._inject(neigh, node,
                                                                                              relabelled))

    def _steps_forged_destroy(self, p: CircuitPlan):  # noqa: ANN202
        for node, cid, neigh, role in p.spots:
            off = self._offpath(p, cid)

            def bad_sig(node=node, cid=cid, neigh=neigh) -> list[tuple]:  # noqa: ANN001
                pkt = self._signed_destroy(neigh, cid)
                return self._inject(neigh, node, pkt[:-1] + bytes([pkt[-1] ^ 1]))

            def re_id(node=node, cid=cid, neigh=neigh) -> list[tuple]:  # noqa: ANN001
                pkt = self._signed_destroy(neigh, UNKNOWN_ID)
                assert pkt[-70:-66] == struct.pack("!I", UNKNOWN_ID)
                return self._inject(neigh, node, pkt[:-70] + struct.pack("!I", cid) + pkt[-66:])

            def adv_bad(node=node, cid=cid) -> list[tuple]:  # noqa: ANN001
                pkt = self._signed_destroy("ADV", cid)
                return self._inject("ADV", node, pkt[:-1] + bytes([pkt[-1] ^ 1]))

            yield (f"DF/{role}/offpath-honest-valid-signature",
                   lambda node=node, cid=cid, off=off: self._inject(off, node, self._signed_destroy(off, cid)))
            yield (f"DF/{role}/adversary-valid-signature",
                   lambda node=node, cid=cid: self._inject("ADV", node, self._signed_destroy("ADV", cid)))
            yield (f"DF/{role}/adversary-valid-signature-spoofed-src",
                   lambda node=node, cid=cid, neigh=neigh: self._inject(neigh, node,
                                                                        self._signed_destroy("ADV", cid)))
            yield f"DF/{role}/adjacent-bad-signature", bad_sig
            yield f"DF/{role}/adjacent-id-altered-after-signing", re_id
            yield f"DF/{role}/adversary-bad-signature", adv_bad
            yield (f"DF/{role}/adjacent-key-claimed-adversary-signature",
                   lambda node=node, cid=cid, neigh=neigh: self._inject(neigh, node,
                                                                        self._signed_destroy("ADV", cid, neigh)))

    def _steps_create(self, p: CircuitPlan):  # noqa: ANN202
        adv = self.w.ov["ADV"]
        tag = "@lapsed" if self.lapses else "@fresh"
        for node, cid, neigh, role in p.spots:
            def own(node=node, cid=cid) -> list[tuple]:  # noqa: ANN001
                _, dh = adv.crypto.generate_diffie_secret()
                msg = self._msg(CreatePayload(cid, 7, adv.my_peer.public_key.key_to_bin(), dh))
                return self._inject("ADV", node, self._cell(cid, msg, True))

            def spoof(node=node, cid=cid, neigh=neigh) -> list[tuple]:  # noqa: ANN001
                _, dh = adv.crypto.generate_diffie_secret()
                key = self.w.nodes[neigh].my_peer.public_key.key_to_bin()
                return self._inject(neigh, node, self._cell(cid, self._msg(CreatePayload(cid, 7, key, dh)), True))

            yield f"C/{role}{tag}/adversary-key", own
            yield f"C/{role}{tag}/neighbour-key-and-address-spoofed", spoof

    def _valid_destroy(self, p: CircuitPlan, how: str) -> list[tuple]:
        w = self.w
        self.live[p.index] = False     # from here on the circuit's entries may go (destroy, or inactivity later)
        if how == "origin-api":
            ov = w.ov[p.origin]
            w.nodes[p.origin].run(ov.remove_circuit, p.ids[0], "c05", destroy=1)
            w.flush()
            self.injections += 1
            return self.check()
        if how == "exit-api":
            ov = w.ov[p.exit]
            w.nodes[p.exit].run(ov.remove_exit_socket, p.ids[-1], "c05", destroy=1)
            w.flush()
            self.injections += 1
            return self.check()
        if how == "hop-signs-to-origin":
            return self._inject(p.nodes[1], p.origin, self._signed_destroy(p.nodes[1], p.ids[0]))
        if how == "hop-signs-to-exit":
            return self._inject(p.nodes[-2], p.exit, self._signed_destroy(p.nodes[-2], p.ids[-1]))
        raise HarnessError(how)

    def apply(self, ev: list) -> tuple[list[tuple], int]:
        """Apply one event; returns ([(key, what, sub_index)], number of injections)."""
        only = ev[-1].get("only") if isinstance(ev[-1], dict) else None
        viol = []
        n = 0
        for idx, (label, thunk) in enumerate(self.steps(ev)):
            if only is not None and idx != only:
                continue
            n += 1
            for oracle, detail in thunk():
                group = "/".join(label.split("/")[:2])
                viol.append((f"{oracle}|{group}", f"[{label}] {detail}", idx))
        self.trace.append(self.digest())
        return viol, n

    def close(self) -> None:
        self.w.close()


def run_history(k: int, seed: int, history: list) -> tuple[list[tuple], bytes]:
    """From scratch, single process: returns ([(key, what, event index, sub index)], digest of the abstract trace)."""
    world = World5(k, seed)
    try:
        viol = [(f"{o}|{l}", f"[{l}] {d}", -1, 0) for o, d, l in world.setup_violations]
        for n, ev in enumerate([] if world.broken else history):
            if not world.enabled(ev):
                raise HarnessError(f"event {ev} is not enabled at step {n} of {history}")
            v, _ = world.apply(ev)
            viol += [(key, what, n, sub) for key, what, sub in v]
            if v:
                break
        return viol, core.digest(world.trace)
    finally:
        world.close()


# ---------------------------------------------------------------------------------------------------------------------
# the explorer: stateless DFS, branching by fork
# ---------------------------------------------------------------------------------------------------------------------

class Acc:
    def __init__(self) -> None:
        self.states: set[bytes] = set()
        self.transitions = 0           # events applied (tree edges)
        self.injections = 0            # single datagrams / API calls / waits applied, each followed by the oracle
        self.executions = 0            # maximal histories (leaves)
        self.viol: dict[str, tuple] = {}
        self.first: tuple | None = None
        self.last: tuple | None = None
        self.varied: tuple | None = None   # a maximal history with the most distinct event kinds (for the samples)
        self.by_kind: dict[str, int] = {}
        self.pruned_violating = 0

    def leaf(self, hist: tuple, trace: list) -> None:
        self.executions += 1
        item = (_hkey(hist), list(hist), core.digest(trace))
        if self.first is None or item[0] < self.first[0]:
            self.first = item
        if self.last is None or item[0] > self.last[0]:
            self.last = item
        self._vary((len({e[0] for e in hist}), len(hist), item[0], item[1]))

    def _vary(self, cand: tuple | None) -> None:
        if cand is not None and (self.varied is None or cand[:3] > self.varied[:3]):
            self.varied = cand

    def add_viol(self, key: str, what: str, hist: list) -> None:
        cur = self.viol.get(key)
        cand = (len(hist), _hkey(hist), what, hist)
        if cur is None or cand[:2] < cur[:2]:
            self.viol[key] = cand

    def merge(self, o: "Acc") -> None:
        self.states |= o.states
        self.transitions += o.transitions
        self.injections += o.injections
        self.executions += o.executions
        self.pruned_violating += o.pruned_violating
        for k, v in o.by_kind.items():
            self.by_kind[k] = self.by_kind.get(k, 0) + v
        self._vary(o.varied)
        for key, cand in o.viol.items():
            cur = self.viol.get(key)
            if cur is None or cand[:2] < cur[:2]:
                self.viol[key] = cand
        for item in (o.first, o.last):
            if item is not None:
                if self.first is None or item[0] < self.first[0]:
                    self.first = item
                if self.last is None or item[0] > self.last[0]:
                    self.last = item


def _hkey(hist) -> str:  # noqa: ANN001
    return repr([list(e) for e in hist])


def _step(world: World5, hist: tuple, ev: list, depth_left: int, acc: Acc) -> None:
    """Apply ev in *this* process (the world is consumed) and explore below it."""
    v, n = world.apply(ev)
    acc.transitions += 1
    acc.injections += n
    acc.by_kind[ev[0]] = acc.by_kind.get(ev[0], 0) + 1
    acc.states.add(world.trace[-1])
    h2 = (*hist, ev)
    if v:
        for key, what, sub in v:
            acc.add_viol(key, what, [*hist, [*ev, {"only": sub}]])
        acc.pruned_violating += 1
        acc.leaf(h2, world.trace)
        return
    _explore(world, h2, depth_left - 1, acc)


def _explore(world: World5, hist: tuple, depth_left: int, acc: Acc) -> None:
    events = [ev for ev in world.alphabet() if world.enabled(ev)] if depth_left > 0 else []
    if not events:
        acc.leaf(hist, world.trace)
        return
    for ev in events:
        r, wfd = os.pipe()
        pid = os.fork()
        if pid == 0:
            code = 0
            try:
                os.close(r)
                sub = Acc()
                _step(world, hist, ev, depth_left, sub)
                with os.fdopen(wfd, "wb") as f:
                    pickle.dump(sub, f, protocol=pickle.HIGHEST_PROTOCOL)
            except BaseException:  # noqa: BLE001
                import traceback
                try:
                    with os.fdopen(wfd, "wb") as f:
                        pickle.dump(("error", f"{hist} + {ev}: {traceback.format_exc()[-1500:]}"), f)
                except Exception:  # noqa: BLE001
                    code = 3
            finally:
                os._exit(code)
        os.close(wfd)
        with os.fdopen(r, "rb") as f:
            blob = f.read()
        _, status = os.waitpid(pid, 0)
        if status != 0 or not blob:
            raise HarnessError(f"explorer child died (status {status}) at {hist} + {ev}")
        res = pickle.loads(blob)  # noqa: S301
        if isinstance(res, tuple) and res and res[0] == "error":
            raise HarnessError(res[1])
        acc.merge(res)


def _work(chunk: list) -> list:
    """One item = (k, seed, depth, prefix): rebuild, replay the prefix, explore everything below it."""
    out = []
    for k, seed, depth, prefix, stage in chunk:
        acc = Acc()
        world = World5(k, seed)
        gc.collect()
        gc.freeze()
        try:
            if stage == 0:
                # root: report setup, the root state and the first level
                for o, d, l in world.setup_violations:
                    acc.add_viol(f"{o}|{l}", f"[{l}] {d}", [])
                acc.states.add(world.trace[-1])
                acc.transitions += world.injections       # the setup's own packets (one out, one back per circuit)
                acc.injections += world.injections
                acc.by_kind["setup"] = world.injections
                en = [] if world.broken else [ev for ev in world.alphabet() if world.enabled(ev)]
                if not en:
                    acc.leaf((), world.trace)
                out.append((acc, en, len(world.alphabet()), prefix))
                continue
            hist = ()
            ok = True
            for ev in prefix[:-1]:
                v, _ = world.apply(ev)           # already counted and judged by the stage that produced this item
                hist = (*hist, ev)
                ok = ok and not v
            if not ok:
                raise HarnessError(f"prefix {prefix} violates although its parent stage said it does not")
            if stage == 1:
                # apply the last event of the prefix here, judge it, and only list what is enabled below
                v, n = world.apply(prefix[-1])
                acc.transitions += 1
                acc.injections += n
                acc.by_kind[prefix[-1][0]] = acc.by_kind.get(prefix[-1][0], 0) + 1
                acc.states.add(world.trace[-1])
                if v:
                    for key, what, sub in v:
                        acc.add_viol(key, what, [*hist, [*prefix[-1], {"only": sub}]])
                    acc.pruned_violating += 1
                    acc.leaf((*hist, prefix[-1]), world.trace)
                    out.append((acc, [], None, prefix))
                else:
                    en = [ev for ev in world.alphabet() if world.enabled(ev)] if depth > len(prefix) else []
                    if not en:
                        acc.leaf((*hist, prefix[-1]), world.trace)
                    out.append((acc, en, None, prefix))
                continue
            _step(world, hist, prefix[-1], depth - len(hist), acc)
            out.append((acc, [], None, prefix))
        finally:
            gc.unfreeze()
            world.close()
    return out


def explore(k: int, seed: int, depth: int, jobs: int) -> tuple[Acc, int]:
    """Levels 1 and 2 are expanded by rebuilding (they become the work items), the rest by fork-DFS inside workers."""
    total = Acc()
    (acc0, level1, alpha, _), = _work([(k, seed, depth, [], 0)])
    total.merge(acc0)
    if depth < 1 or not level1:
        return total, alpha
    if depth == 1:
        items = [(k, seed, depth, [ev], 2) for ev in level1]
    else:
        items = []
        for acc1, en, _, prefix in core.pmap(_work, [(k, seed, depth, [ev], 1) for ev in level1], jobs, chunk=1):
            total.merge(acc1)
            items += [(k, seed, depth, [*prefix, ev2], 2) for ev2 in en]
        items.sort(key=repr)
    for acc2, _, _, _ in core.pmap(_work, items, jobs, chunk=1):
        total.merge(acc2)
    return total, alpha


# ---------------------------------------------------------------------------------------------------------------------
# scenario families (each execution from scratch): first, create(id in use) against circuits that are not READY
# ---------------------------------------------------------------------------------------------------------------------

VARIANTS = ["adversary-key", "neighbour-key-and-address-spoofed"]
HANDSHAKE = {1: 2, 2: 6, 3: 12}            # datagrams of a complete h-hop build
HB_BASES = [[], [1, 2]]                    # READY circuits already present (indices into CIRCUITS)
HB_NEW = [5, 0, 4]                         # the circuit under construction: 1, 2 and 3 hops
CL_WORLDS = [([0, 1, 2], 0), ([0, 4], 1), ([0, 5], 1)]     # (circuits, position of the one being closed)


def family_cases(thorough: bool = False) -> list[tuple]:
    cases: list[tuple] = _hidden_cases(thorough)
    for base in HB_BASES:
        for new in HB_NEW:
            h = len(CIRCUITS[new][1])
            for j in range(HANDSHAKE[h]):
                for t in range(2 * h):
                    for v in range(len(VARIANTS)):
                        cases.append(("halfbuilt", tuple(base), new, j, t, v))
    for indices, victim in CL_WORLDS:
        h = len(CIRCUITS[indices[victim]][1])
        for init in ("origin-api", "exit-api"):
            for lapsed in (0, 1):
                for dt in (0.0, 2.5):
                    for t in range(2 * h):
                        for v in range(len(VARIANTS)):
                            cases.append(("closing", tuple(indices), victim, init, lapsed, dt, t, v))
    import itertools
    for indices in SIM_WORLDS:
        for order in itertools.permutations(range(len(indices))):
            for gap in SIM_GAPS:
                cases.append(("simfirst", tuple(indices), tuple(order), gap))
                cases.append(("simfirst", tuple(indices), tuple(order), gap, "host"))
    for carrier in range(len(NEST_INDICES)):
        cases.append(("nested", carrier))
    cases.append(("nested", 0, 1))
    cases.append(("nested", 0, 2))
    for which_id in range(len(FC_IDS)):
        for sender in range(len(FC_SENDERS)):
            cases.append(("forged-created", which_id, sender))
    for ncook in (1, 2):
        for link in range(ncook):
            for linker in ("ADV", "O1"):
                cases.append(("hidden-extended", ncook, link, linker))
    for how in ("dup-destroy", "sweep"):
        for gap in (1.0, 2.5, 4.0):
            cases.append(("double-removal", gap, how))
    for shape in range(len(REUSE_SHAPES)):
        for hold in ("create", "created"):
            # (seconds between destroy and re-use, seconds the old owner's extend was delayed): with a prompt extend
            # X1's CreateRequestCache (10 s) is long gone when the CreatedRequestCache (60 s) frees the id; an extend
            # that arrives 55 s late turns that around
            for t_reuse, t_ext in ((0.0, 0.0), (30.0, 0.0), (61.0, 0.0), (0.0, 55.0), (6.0, 55.0)):
                cases.append(("reuse", shape, hold, t_reuse, t_ext))
    return cases


def run_family_case(seed: int, case: tuple) -> tuple[list[tuple], str, bytes, int]:
    """One execution from scratch. Returns ([(key, what)], status, abstract digest, injections)."""
    fn = {"halfbuilt": _run_halfbuilt, "closing": _run_closing, "simfirst": _run_simfirst, "nested": _run_nested,
          "reuse": _run_reuse, "hidden": _run_hidden, "forged-created": _run_forged_created,
          "hidden-extended": _run_hidden_extended, "double-removal": _run_double_removal}[case[0]]
    return fn(seed, *case[1:])


def _labelled(found: list[tuple], label: str) -> list[tuple]:
    return [(f"{o}|{label}", f"[{label}] {d}") for o, d in found]


def _traffic(world: World5, label: str) -> list[tuple]:
    out = []
    for p in world.plans:
        if world.live[p.index]:
            out += [(f"{o}|{l}", f"[{l}] {d}") for o, d, l in world._send(p.index, label)]
            if world.exit_tr[p.index] is None:
                sock = world.w.ov[p.exit].exit_sockets.get(p.ids[-1])
                world.exit_tr[p.index] = sock.transport_ipv4 if sock is not None else None
            if world.exit_tr[p.index] is not None:
                out += [(f"{o}|{l}", f"[{l}] {d}") for o, d, l in world._reply(p.index, label)]
    return out


def _run_halfbuilt(seed: int, base: tuple, new: int, j: int, t: int, v: int) -> tuple[list[tuple], str, bytes, int]:
    indices = [*base, new]
    world = World5(len(indices), seed, indices, hold_last=True)
    try:
        w = world.w
        viol = [(f"{o}|{l}", f"[{l}] {d}") for o, d, l in world.setup_violations]
        if world.broken:
            return viol, "broken", world.digest(), world.injections
        p = world.plans[-1]
        c = world._start(p)
        w.loop.settle()
        for _ in range(j):
            if not w.inflight:
                return viol, "n/a", world.digest(), world.injections
            w.deliver(0)
        node, cid, neigh, role = p.spots[t]
        if not world.holds(node, cid):
            return viol, "n/a", world.digest(), world.injections      # this node does not route the id (yet)
        held = list(w.inflight)
        w.inflight.clear()
        state = c.state
        before = world.table_view()
        world.forged_create(node, cid, neigh, VARIANTS[v])
        label = f"HB/{role}"
        where = (f"{VARIANTS[v]} create({cid}) sent to {node} after {j} of {HANDSHAKE[len(p.path)]} handshake datagrams "
                 f"of {p.origin}->{'->'.join(p.path)} (originator circuit {state})")
        found = [(o, f"{d}: {where}") for o, d in World5.table_diff(before, world.table_view())]
        viol += _labelled(found, label)
        if found:
            return viol, "violated", world.digest(), world.injections
        w.inflight[:0] = held
        w.flush()
        if c.state != CIRCUIT_STATE_READY or ID_PROXY.queue:
            viol += _labelled([("build-blocked", f"the honest circuit ended in state {c.state} with "
                                                 f"{len(c.hops)}/{len(p.path)} hops: {where}")], label)
            return viol, "violated", world.digest(), world.injections
        found = [(o, f"{d}: {where}") for o, d in world.adopt_last(c)]
        viol += _labelled(found, label)
        if not found:
            viol += _traffic(world, label)
        return viol, "ran", world.digest(), world.injections
    finally:
        world.close()


def _run_closing(seed: int, indices: tuple, victim: int, init: str, lapsed: int, dt: float, t: int,
                 v: int) -> tuple[list[tuple], str, bytes, int]:
    world = World5(len(indices), seed, list(indices), remove_delay=5)
    try:
        w = world.w
        viol = [(f"{o}|{l}", f"[{l}] {d}") for o, d, l in world.setup_violations]
        if world.broken:
            return viol, "broken", world.digest(), world.injections
        p = world.plans[victim]
        if lapsed:
            viol += _labelled(world._wait(), "CL/wait")
        viol += _labelled(world._valid_destroy(p, init), "CL/teardown")
        if dt:
            w.run_for(dt)
            viol += _labelled(world.check(), "CL/teardown")
        node, cid, neigh, role = p.spots[t]
        if viol or not world.holds(node, cid):
            return viol, "violated" if viol else "n/a", world.digest(), world.injections
        state = world.circ_obj[victim].state
        before = world.table_view()
        world.forged_create(node, cid, neigh, VARIANTS[v])
        label = f"CL/{role}"
        where = (f"{VARIANTS[v]} create({cid}) sent to {node} {dt}s after {init} teardown of "
                 f"{p.origin}->{'->'.join(p.path)} (originator circuit {state}, remove_tunnel_delay 5, "
                 f"{'61 s' if lapsed else '0 s'} after the build)")
        found = [(o, f"{d}: {where}") for o, d in World5.table_diff(before, world.table_view())]
        viol += _labelled(found, label)
        if found:
            return viol, "violated", world.digest(), world.injections
        w.run_for(6.0)
        viol += _labelled([(o, f"{d}: {where}") for o, d in world.check()], label)
        if not viol:
            viol += _traffic(world, label)
        return viol, "ran", world.digest(), world.injections
    finally:
        world.close()


# -- third family: first packets of several circuits reach one exit while its sockets are still opening ---------------

SIM_WORLDS = [[0, 3, 4], [1, 2, 5]]        # three circuits ending at X1 / at X2 (2+2+3 hops / 2+2+1 hops)
SIM_GAPS = [0, 1, 2, 3]                    # loop iterations between two arrivals at the exit


def _run_simfirst(seed: int, indices: tuple, order: tuple, gap: int,
                  dest: str = "ip") -> tuple[list[tuple], str, bytes, int]:
    """dest "host": every first packet names the outside host by name, so each exit socket also runs a name lookup."""
    world = World5(len(indices), seed, list(indices), no_traffic=True)
    try:
        w = world.w
        exit_addr = tuple(world.addr[world.plans[0].exit])
        target = OUTSIDE
        if dest == "host":
            w.loop.resolver["outside.example"] = [OUTSIDE[0]]
            target = ("outside.example", OUTSIDE[1])
        for p in world.plans:
            world.seq += 1
            w.send_out(p.origin, world.circ_obj[p.index], target, bt(MARK + b"/F/%d/%d" % (p.index, world.seq)))
        w.loop.settle()
        for _ in range(100):                                  # move every cell up to the last link
            rest = [dg for dg in w.inflight if tuple(dg.dst) != exit_addr]
            if not rest:
                break
            w.inflight.remove(rest[0])
            w.deliver_datagram(rest[0])
        for i in order:                                       # arrivals at the exit, `gap` iterations apart
            p = world.plans[i]
            dg = next(d for d in w.inflight if (w.cell_fields(d.data) or [None])[0] == p.ids[-1])
            w.inflight.remove(dg)
            w.deliver_datagram(dg, settle=False)
            for _ in range(gap):
                w.loop.iteration()
        w.flush()
        world.injections += len(order)
        label = "SIM"
        where = (f"first packets of circuits {list(order)} reached {world.plans[0].exit} {gap} loop iterations apart"
                 + (", destination given as a host name" if dest == "host" else ""))
        viol = _labelled([(o, f"{d}: {where}") for o, d in world.check()], label)
        for p in world.plans:
            sock = w.ov[p.exit].exit_sockets.get(p.ids[-1])
            world.exit_tr[p.index] = sock.transport_ipv4 if sock is not None else None
            if world.sent[p.index] != 1 and not viol:
                viol += _labelled([("delivery-lost", f"the first packet of circuit {p.index} left its exit "
                                                     f"{world.sent[p.index]} times: {where}")], label)
        if not viol:
            viol += _traffic(world, label)
        return viol, "ran", world.digest(), world.injections
    finally:
        world.close()


# -- fourth family: an outside datagram that is itself a tunnel DATA message naming another circuit -------------------

NEST_INDICES = [0, 4, 2, 1]                # O1: two circuits through R1 and one through R2; O2: one through R1


# the carrying circuit's originator X1 is at the same time the exit of O1's and the last relay's successor of O2's circuit
HUB_PLANS = [("X1", ("X2",), (31,)), ("O1", ("X1",), (1,)), ("O2", ("R1", "X1"), (51, 52))]
ZERO_ID_PLANS = [("O1", ("R1", "X1"), (0, 31)), ("O1", ("R2", "X2"), (41, 42)), ("O2", ("R1", "X2"), (51, 52))]


def _run_nested(seed: int, carrier: int, zero: int = 0) -> tuple[list[tuple], str, bytes, int]:
    """zero: the carrying circuit's id at its originator is 0 (a legal 32-bit circuit id like any other)."""
    world = (World5(len(HUB_PLANS), seed, custom=HUB_PLANS) if zero == 2
             else World5(len(ZERO_ID_PLANS), seed, custom=ZERO_ID_PLANS) if zero
             else World5(len(NEST_INDICES), seed, NEST_INDICES))
    try:
        w = world.w
        viol = [(f"{o}|{l}", f"[{l}] {d}") for o, d, l in world.setup_violations]
        a = world.plans[carrier]
        ser = w.ov["ADV"].serializer
        for b in world.plans:
            hop = world.addr[b.nodes[1]]
            for kind, src in (("first-hop-ip-other-port", (hop[0], 7777)), ("first-hop-exact-address", tuple(hop)),
                              ("unrelated-address", ("8.8.8.8", 8))):
                for dest in (("0.0.0.0", 0), OUTSIDE):
                    world.seq += 1
                    # the data really travels through circuit a: the reference expects it at a's originator, labelled a
                    inner = bt(MARK + b"/B/%d/%d" % (a.index, world.seq))
                    msg = world.prefix + b"\x01" + ser.pack_serializable(DataPayload(b.ids[0], dest, OUTSIDE, inner))
                    world.exit_tr[a.index].inject(msg, src)
                    w.flush()
                    world.injections += 1
                    where = (f"datagram from {src} to the exit socket of circuit {a.index} ({a.origin}, id {a.ids[0]}) "
                             f"whose payload is a tunnel DATA message naming circuit id {b.ids[0]} "
                             f"(circuit {b.index} of {b.origin}), inner destination {dest}")
                    viol += _labelled([(o, f"{d}: {where}") for o, d in world.check()], f"N/{kind}")
        # the same route for the circuit-control messages: an outside datagram that is a tunnel create / created / extend /
        # extended / ping / pong naming circuit b (whose keys the sender does not have) reaches node a.origin as "data" of
        # circuit a.  Nothing about any circuit may change, and nothing may be sent on b's behalf.
        from ipv8.messaging.anonymization.payload import (  # noqa: PLC0415
            CreatedPayload, CreatePayload, ExtendedPayload, ExtendPayload, PingPayload, PongPayload)
        adv = w.nodes["ADV"]
        adv_key = adv.my_peer.public_key.key_to_bin()
        g32 = world._garbage(32, "nk")
        for b in world.plans:
            for target_id, which in ((b.ids[0], "originator-side id"), (b.ids[-1], "exit-side id")):
                forged = [
                    ("extend", ExtendPayload(target_id, 7, adv_key, g32, adv.address)),
                    ("create", CreatePayload(target_id, 7, adv_key, g32)),
                    ("created", CreatedPayload(target_id, 7, g32, world._garbage(32, "na"), b"")),
                    ("extended", ExtendedPayload(target_id, 7, g32, world._garbage(32, "na"), b"")),
                    ("ping", PingPayload(target_id, 7)),
                    ("pong", PongPayload(target_id, 7)),
                ]
                for name, payload in forged:
                    if name == "create" and not world.holds(a.origin, target_id):
                        continue        # anybody may ask a node to join a NEW circuit: nothing existing is touched
                    world.seq += 1
                    n_wire = len(w.wire_log)
                    msg = world.prefix + bytes([payload.msg_id]) + ser.pack_serializable(payload)
                    world.exit_tr[a.index].inject(msg, ("8.8.8.8", 8))
                    w.flush()
                    world.injections += 1
                    where = (f"datagram from 8.8.8.8:8 to the exit socket of circuit {a.index} ({a.origin}, id {a.ids[0]}) "
                             f"that is a tunnel {name} message naming circuit id {target_id} ({which} of circuit "
                             f"{b.index} of {b.origin})")
                    found = world.check()
                    to_adv = [dg for dg in w.wire_log[n_wire:] if tuple(dg.dst) == tuple(adv.address)
                              and dg.sender is not adv.endpoint]
                    if to_adv:
                        found.append(("control-message-from-outside-acted-on",
                                      f"{world._name(to_adv[0].src)} sent {w.kind(to_adv[0])} to the adversary's node"))
                    viol += _labelled([(o, f"{d}: {where}") for o, d in found], f"N/outside-{name}")
        if not viol:
            viol += _traffic(world, "N")
        return viol, "ran", world.digest(), world.injections
    finally:
        world.close()


# -- fifth family: a circuit id is re-used at a node that still waits for the CREATED of the old owner's extend --------

REUSE_SHAPES = [("O2", ("X1",), (1,)), ("O2", ("X1", "X2"), (1, 3))]    # the new owner's circuit; id 1 is re-used


def _run_reuse(seed: int, shape: int, hold: str, t_reuse: float,
               t_ext: float = 0.0) -> tuple[list[tuple], str, bytes, int]:
    """
    O1 -1-> X1 -2-> X2 is being built; X1 waits for X2's CREATED (held back); O1 destroys; O2 re-uses id 1 at X1.
    t_ext: O1's extend is delayed in the network by that many seconds (O1 is patient: next_hop_timeout 100 s).
    """
    origin, path, ids = REUSE_SHAPES[shape]
    world = World5(1, seed, custom=[(origin, path, ids)], hold_last=True)
    try:
        w = world.w
        old = CircuitPlan(99, "O1", ["X1", "X2"], [1, 2])
        if t_ext:
            w.ov["O1"].settings.next_hop_timeout = 100
        world._start(old)
        w.loop.settle()
        if t_ext:
            w.deliver(0)                                    # create
            w.deliver(0)                                    # created; O1 answers with its extend
            if len(w.inflight) != 1 or w.kind(w.inflight[0]) != "cell:enc":
                raise HarnessError("reuse: expected exactly the extend in flight")
            late = w.inflight.pop(0)
            w.run_for(t_ext)                                # pings keep the half-built circuit alive meanwhile
            w.inflight.append(late)
        want = ("cell:create", "X1", "X2") if hold == "create" else ("cell:created", "X2", "X1")
        held = None
        for _ in range(20):
            if not w.inflight:
                break
            dg = w.inflight[0]
            if (w.kind(dg), world._name(dg.src), world._name(dg.dst)) == want:
                held = w.inflight.pop(0)
                break
            w.deliver(0)
        if held is None or w.inflight:
            raise HarnessError(f"reuse: could not hold back {want}")
        world._restore_candidates()
        w.nodes["O1"].run(w.ov["O1"].remove_circuit, 1, "c05", destroy=1)       # correctly signed destroy to X1
        w.flush()
        if world.holds("X1", 1) or world.holds("O1", 1):
            raise HarnessError(f"reuse: the old circuit was not torn down: {w.tables()}")
        if t_reuse:
            w.run_for(t_reuse)
        world.extras = {("X2", "exit_sockets", 2)}      # X2 may have joined the old circuit (removed for inactivity later)
        p = world.plans[0]
        c = world._start(p)                             # O2 asks X1 for a circuit under id 1
        w.flush()
        accepted = c.state == CIRCUIT_STATE_READY
        w.inflight.append(held)                         # the late create/created of the old circuit's extend arrives
        w.flush()
        world.injections += 3
        label = f"R/{'late' if t_ext else 'prompt'}-extend"
        where = (f"O1 built 1->X1->X2 ({f'its extend arrived {t_ext:.0f} s late, ' if t_ext else ''}up to X1's {hold} "
                 f"for X2, held back), destroyed it, {t_reuse:.0f} s later "
                 f"{origin}->{'->'.join(path)} asked X1 for id 1 ({'accepted' if accepted else 'refused'}), then the "
                 f"held {hold} was delivered")
        viol: list[tuple] = []
        if accepted:
            found = world.adopt_last(c)
            found = [(o, d) for o, d in found if "X2.exit_sockets[2]" not in d]
            world.live[0] = not found
            viol += _labelled([(o, f"{d}: {where}") for o, d in found], label)
            if not found:
                world.extras = {("X2", "exit_sockets", 2)}
                viol += _traffic(world, label)
        else:
            ID_PROXY.queue = []
            world._restore_candidates()
            view = [e for e in world.table_view() if e != ("X2", "exit_sockets", 2) and e[1] != "circuits"]
            viol += _labelled([(f"table-added:{e[1]}", f"{e[0]}.{e[1]}[{e[2]}] exists although the request was "
                                                       f"refused: {where}") for e in view], label)
        return viol, "accepted" if accepted else "refused", world.digest(), world.injections
    finally:
        world.close()


# -- family "forged created": a third party answers a relay's pending create --------------------------------------------

FC_IDS = ["unknown", "bystander", "own-from"]      # the circuit id the forged CREATED names
FC_SENDERS = ["ADV", "spoof-next"]                 # from the adversary's address / spoofed from the node that was asked


def _run_forged_created(seed: int, which_id: int, sender: int) -> tuple[list[tuple], str, bytes, int]:
    """
    O1 -1-> X1 is extended to X2 (X1's create for X2 is held back, so X1 waits for a CREATED); K = O2 -5-> X1 is a
    bystander.  A third party sends X1 a plaintext CREATED that carries the identifier X1 is waiting for (the adversary
    cannot read it off the wire - it is a 16-bit number and can be hit by trying) but names a circuit id X1 never put in
    its create: an unknown id, the bystander's id, or the id of the asking circuit itself.  "Cells naming an unknown
    circuit id ... change nothing about existing circuits": X1's tables stay as they are, and when the held create is
    released the build completes with X2.
    """
    world = World5(1, seed, custom=[("O2", ("X1",), (5,))])
    try:
        w = world.w
        old = CircuitPlan(99, "O1", ["X1", "X2"], [1, 2])
        c = world._start(old)
        w.loop.settle()
        held = None
        for _ in range(20):
            if not w.inflight:
                break
            dg = w.inflight[0]
            if (w.kind(dg), world._name(dg.src), world._name(dg.dst)) == ("cell:create", "X1", "X2"):
                held = w.inflight.pop(0)
                break
            w.deliver(0)
        if held is None or w.inflight:
            raise HarnessError("forged-created: could not hold back X1's create for X2")
        from ipv8.messaging.anonymization.caches import CreateRequestCache
        x1 = w.ov["X1"]
        pending = [cache for cache in x1.request_cache._identifiers.values() if isinstance(cache, CreateRequestCache)]  # noqa: SLF001
        if len(pending) != 1:
            raise HarnessError(f"forged-created: X1 has {len(pending)} pending creates")
        ident = pending[0].number
        cid = {"unknown": UNKNOWN_ID, "bystander": 5, "own-from": 1}[FC_IDS[which_id]]
        before = world.table_view()
        forged = world._msg(CreatedPayload(cid, ident, world._garbage(32, "fk"), world._garbage(32, "fa"), b""))
        src = "ADV" if FC_SENDERS[sender] == "ADV" else "X2"
        w.inject(world.addr[src], world.addr["X1"], world._cell(cid, forged, True))
        w.flush()
        world.injections += 1
        label = f"FC/{FC_IDS[which_id]}/{FC_SENDERS[sender]}"
        where = (f"O1 -1-> X1 asked X1 to extend to X2, X1's create (id 2) is still under way; a plaintext CREATED with "
                 f"X1's pending identifier but naming circuit id {cid} ({FC_IDS[which_id]}) arrives from {src}'s address")
        viol = _labelled([(o, f"{d}: {where}") for o, d in world.table_diff(before, world.table_view())], label)
        w.inflight.append(held)
        w.flush()
        if not viol:
            names = [world._who_bin(h.public_key_bin) for h in c.hops]
            if c.state != CIRCUIT_STATE_READY or names != ["X1", "X2"]:
                viol += _labelled([("build-derailed", f"after the forged CREATED the genuine exchange was released, but the "
                                                      f"circuit is {c.state} with hops {names}: {where}")], label)
        return viol, "ran", world.digest(), world.injections
    finally:
        world.close()


# -- sixth family: hidden services - rendezvous cookies that outlive their circuit ------------------------------------

HS_REMOVALS = ["origin-destroy", "exit-remove", "inactivity"]


def _hidden_cases(thorough: bool) -> list[tuple]:
    cases = []
    for ncook in ((1, 2, 3) if thorough else (1, 2)):
        for link in range(ncook):
            for linker in ("ADV", "O1"):
                for w_before in (0, 1):
                    cases.append(("hidden", ncook, link, "live", linker, w_before, 0))      # control: a real link
                    # ... after which the bystander circuit K sends link-e2e with the cookie that was just used
                    cases.append(("hidden", ncook, link, "live", linker, w_before, 2))
                    for removal in HS_REMOVALS:
                        for reuse in (0, 1):
                            cases.append(("hidden", ncook, link, removal, linker, w_before, reuse))
    return cases


def _run_hidden(seed: int, ncook: int, link: int, removal: str, linker: str, w_before: int,
                reuse: int) -> tuple[list[tuple], str, bytes, int]:
    """
    X = O1 -1-> X1 registers ncook rendezvous cookies at X1; K = O2 -5-> R2 -6-> X1 is a bystander; X is removed;
    (reuse) 61 s later Z = O2 -1-> X1 takes the same id; W = <linker> -7-> X1 sends link-e2e(cookie[link]).
    """
    plans = [("O1", ("X1",), (1,)), ("O2", ("R2", "X1"), (5, 6)), ("O2", ("X1",), (1,)), (linker, ("X1",), (7,))]
    # (relink cases run with the library's default removal delay of 5 s: the second link-e2e arrives inside it)
    world = World5(4, seed, custom=plans, defer=(2, 3), hidden=True, no_traffic=True,
                   **({"remove_delay": 5} if reuse == 2 else {}))
    try:
        w = world.w
        x, z, wp = world.plans[0], world.plans[2], world.plans[3]
        rendezvous = w.ov["X1"]
        cookies = [bytes([0x41 + i]) * 20 for i in range(ncook)]
        label = "HS/control" if removal == "live" else "HS"
        viol: list[tuple] = []
        for i, cookie in enumerate(cookies):
            w.nodes["O1"].run(w.ov["O1"].send_cell, world.circ_obj[0].hop.address,
                              EstablishRendezvousPayload(1, 100 + i, cookie))
            w.flush()
            world.injections += 1
        viol += _labelled(world.check(), "HS/register")
        if set(rendezvous.rendezvous_point_for) != set(cookies):
            raise HarnessError(f"hidden: X1 registered {len(rendezvous.rendezvous_point_for)} of {ncook} cookies")
        if w_before and world.build_late(3) != []:
            raise HarnessError("hidden: the linker's circuit could not be built")
        if removal == "origin-destroy":
            viol += _labelled(world._valid_destroy(x, "origin-api"), label)
        elif removal == "exit-remove":
            viol += _labelled(world._valid_destroy(x, "exit-api"), label)
        elif removal == "inactivity":
            world.live[0] = False
            w.nodes["O1"].run(w.ov["O1"].remove_circuit, 1, "c05")          # silently: no destroy is sent
            w.run_for(30.0)
            viol += _labelled(world.check(), label)
        if removal != "live" and world.holds("X1", 1):
            raise HarnessError(f"hidden: X1 still routes id 1 after {removal}")
        status = "stale-link"
        if reuse == 1:
            viol += _labelled(world._wait(), label)
            built = world.build_late(2)
            if built is None:
                status = "reuse-refused"
            else:
                status = "stale-link-after-reuse"
                viol += _labelled(built, label)
        if not w_before and world.build_late(3) != []:
            raise HarnessError("hidden: the linker's circuit could not be built")
        if viol:
            return viol, "violated", world.digest(), world.injections
        if removal == "live":
            # both parties asked for it: X and W may be joined, nothing else may change
            world.live[0] = world.live[3] = False
            world.extras |= {("X1", "relay_from_to", 1), ("X1", "relay_from_to", 7)}
        before = world.table_view()
        w.nodes[linker].run(w.ov[linker].send_cell, world.circ_obj[3].hop.address, LinkE2EPayload(7, 200, cookies[link]))
        w.flush()
        world.injections += 1
        where = (f"{linker} sent link-e2e(cookie {link + 1} of {ncook}) over its circuit 7 to X1 "
                 f"(the cookies were registered on O1's circuit 1, {removal}"
                 f"{', id 1 given to O2 61 s later' if status == 'stale-link-after-reuse' else ''}; "
                 f"linker's circuit built {'before' if w_before else 'after'})")
        found = world.check()
        if removal == "live":
            after = world.table_view()
            if ("X1", "relay_from_to", 1) in after and ("X1", "relay_from_to", 7) in after:
                status = "linked"
            else:
                status = "link-refused"
                found += World5.table_diff(before, after)
            if reuse == 2 and status == "linked" and not found:
                # the cookie has been used: a second link-e2e naming it, from another circuit through X1, changes nothing
                w.nodes["O2"].run(w.ov["O2"].send_cell, world.circ_obj[1].hop.address,
                                  LinkE2EPayload(5, 201, cookies[link]))
                w.flush()
                world.injections += 1
                status = "linked+relink"
                found += [(f"relink:{o}", f"after the link, O2 sent link-e2e with the same cookie over its circuit 5-6 "
                                          f"through X1: {d}") for o, d in World5.table_diff(after, world.table_view())]
        viol += _labelled([(o, f"{d}: {where}") for o, d in found], label)
        if not viol:
            viol += [(k, f"{what}: {where}") for k, what in _traffic(world, label)]
        return viol, status, world.digest(), world.injections
    finally:
        world.close()


def _run_hidden_extended(seed: int, ncook: int, link: int, linker: str) -> tuple[list[tuple], str, bytes, int]:
    """
    X = O1 -1-> X1 -2-> X2: after its first hop X registers ncook rendezvous cookies at X1 (X1 holds an exit entry for
    it then), and only afterwards extends to X2 (X1's exit entry becomes a relay pair).  O1 destroys X; 61 s later
    Z = O2 -1-> X1 takes id 1; W = <linker> -7-> X1 sends link-e2e(cookie[link]): nothing of Z may change.
    """
    plans = [("O1", ("X1", "X2"), (1, 2)), ("O2", ("R2", "X1"), (5, 6)), ("O2", ("X1",), (1,)), (linker, ("X1",), (7,))]
    world = World5(4, seed, custom=plans, defer=(0, 2, 3), hidden=True, no_traffic=True)
    try:
        w = world.w
        x = world.plans[0]
        rendezvous = w.ov["X1"]
        cookies = [bytes([0x61 + i]) * 20 for i in range(ncook)]
        label = "HS/extended"
        c = world._start(x)
        w.loop.settle()
        w.deliver(0)                    # create  O1 -> X1
        w.deliver(0)                    # created X1 -> O1; O1 answers with its extend
        if len(w.inflight) != 1 or len(c.hops) != 1:
            raise HarnessError("hidden-extended: expected exactly the extend in flight")
        extend = w.inflight.pop(0)
        world.circ_obj[0] = c
        for i, cookie in enumerate(cookies):
            w.nodes["O1"].run(w.ov["O1"].send_cell, c.hop.address, EstablishRendezvousPayload(1, 100 + i, cookie))
            w.flush()
            world.injections += 1
        if set(rendezvous.rendezvous_point_for) != set(cookies):
            raise HarnessError(f"hidden-extended: X1 registered {len(rendezvous.rendezvous_point_for)} of {ncook} cookies")
        w.inflight.append(extend)
        w.flush()
        world._restore_candidates()
        if c.state != CIRCUIT_STATE_READY or len(c.hops) != 2:
            raise HarnessError(f"hidden-extended: X is {c.state} with {len(c.hops)} hops")
        world._take_snapshot()
        w.nodes["O1"].run(w.ov["O1"].remove_circuit, 1, "c05", destroy=1)
        w.flush()
        w.run_for(61.0)
        if world.holds("X1", 1) or world.holds("O1", 1):
            raise HarnessError(f"hidden-extended: X was not torn down: {w.tables()}")
        world._take_snapshot()
        viol: list[tuple] = []
        built = world.build_late(2)
        status = "reuse-refused" if built is None else "stale-link-after-reuse"
        if built:
            viol += _labelled(built, label)
        if world.build_late(3) != []:
            raise HarnessError("hidden-extended: the linker's circuit could not be built")
        if viol:
            return viol, "violated", world.digest(), world.injections
        w.nodes[linker].run(w.ov[linker].send_cell, world.circ_obj[3].hop.address, LinkE2EPayload(7, 200, cookies[link]))
        w.flush()
        world.injections += 1
        where = (f"{linker} sent link-e2e(cookie {link + 1} of {ncook}) over its circuit 7 to X1; the cookies were "
                 f"registered on O1's circuit 1 while X1 was its exit, the circuit was then extended through X1 to X2, "
                 f"destroyed, and id 1 given to O2 61 s later")
        viol += _labelled([(o, f"{d}: {where}") for o, d in world.check()], label)
        if not viol:
            viol += [(k, f"{what}: {where}") for k, what in _traffic(world, label)]
        return viol, status, world.digest(), world.injections
    finally:
        world.close()


def _run_double_removal(seed: int, gap: float, how: str) -> tuple[list[tuple], str, bytes, int]:
    """
    X = O1 -1-> X1, older than a minute, default remove_tunnel_delay (5 s).  X1 is asked twice, `gap` seconds apart, to
    remove it (how = "dup-destroy": the network delivers O1's signed destroy twice; "sweep": X1's own removal is
    requested twice, as its 5 s inactivity sweep does while the first removal sleeps).  When the first removal has
    happened the id is free: Z = O2 -1-> X1 takes it.  The second removal then fires: Z's entry may only go by a destroy
    signed by Z's neighbour.
    """
    plans = [("O1", ("X1",), (1,)), ("O2", ("X1",), (1,))]
    world = World5(2, seed, custom=plans, defer=(1,), remove_delay=5.0, no_traffic=True)
    try:
        w = world.w
        x = world.plans[0]
        w.run_for(61.0)
        if not world.holds("X1", 1):
            raise HarnessError("double-removal: the old circuit did not survive its first minute")
        world.live[0] = False
        label = f"DR/{how}"
        if how == "dup-destroy":
            n0 = len(w.wire_log)
            w.nodes["O1"].run(w.ov["O1"].remove_circuit, 1, "c05", destroy=1)
            w.flush()
            sent = [dg for dg in w.wire_log[n0:] if world._name(dg.dst) == "X1"]
            if not sent:
                raise HarnessError("double-removal: no destroy on the wire")
            w.run_for(gap)
            w.inject(sent[-1].src, sent[-1].dst, sent[-1].data, "duplicate")
            w.flush()
        else:
            w.nodes["O1"].run(w.ov["O1"].remove_circuit, 1, "c05", remove_now=True)     # O1 just forgets it
            w.nodes["X1"].run(w.ov["X1"].remove_exit_socket, 1, "no activity")
            w.run_for(gap)
            w.nodes["X1"].run(w.ov["X1"].remove_exit_socket, 1, "no activity")
        world.injections += 2
        w.run_for(5.0 - gap + 0.25)                     # the first removal has happened, the second has not
        if world.holds("X1", 1):
            raise HarnessError("double-removal: the first removal did not happen")
        world._take_snapshot()
        built = world.build_late(1)
        if built is None:
            return [], "reuse-refused", world.digest(), world.injections
        viol = _labelled(built, label)
        w.run_for(gap + 1.0)                            # the second removal of the OLD circuit fires
        where = (f"X1 was asked twice ({how}, {gap:.1f} s apart) to remove O1's old circuit 1; after the first removal "
                 f"O2 took id 1; then the second removal fired")
        viol += _labelled([(o, f"{d}: {where}") for o, d in world.check()], label)
        if not viol:
            viol += [(k, f"{what}: {where}") for k, what in _traffic(world, label)]
        return viol, "ran", world.digest(), world.injections
    finally:
        world.close()


_FAMILY_SEED = 0


def _family_work(chunk: list) -> list:
    return [(case, *run_family_case(_FAMILY_SEED, case)) for case in chunk]


def explore_family(seed: int, jobs: int, thorough: bool = False) -> dict:
    global _FAMILY_SEED
    _FAMILY_SEED = seed
    cases = family_cases(thorough)
    res = core.pmap(_family_work, cases, jobs, chunk=4)
    out = {"cases": len(cases), "status": {}, "states": set(), "injections": 0, "viol": {}, "samples": []}
    for case, viol, status, dg, inj in sorted(res, key=lambda r: repr(r[0])):
        key = f"{case[0]}:{status}"
        out["status"][key] = out["status"].get(key, 0) + 1
        out["states"].add(dg)
        out["injections"] += inj
        for k, what in viol:
            if k not in out["viol"]:
                out["viol"][k] = (what, list(case))
    ran = [list(r[0]) for r in sorted(res, key=lambda r: repr(r[0])) if r[2] == "ran"]
    out["samples"] = ran[:1] + ran[-1:]
    return out


# ---------------------------------------------------------------------------------------------------------------------
# harness interface
# ---------------------------------------------------------------------------------------------------------------------

def bounds(ctx: core.Ctx) -> list[tuple[int, int]]:
    """(number of circuits, depth) pairs explored by this tier."""
    if os.environ.get("C05_BOUNDS"):      # for experiments: "3:2,4:1"
        return [tuple(int(x) for x in part.split(":")) for part in os.environ["C05_BOUNDS"].split(",")]
    if ctx.thorough:
        return [(1, 4), (2, 4), (3, 3), (4, 3), (6, 2)]
    return [(1, 3), (2, 3), (3, 3)]


def run(ctx: core.Ctx) -> core.Report:
    try:
        return _run(ctx)
    except HarnessError as e:
        core.eprint(f"C05: the harness could not do its job (not a verdict about the property): {e}")
        sys.exit(2)


def _run(ctx: core.Ctx) -> core.Report:
    seed = ctx.seed
    violations: dict[str, core.Violation] = {}
    per_world = []
    states: set[bytes] = set()
    transitions = injections = executions = 0
    samples = []
    for k, depth in bounds(ctx):
        acc, alpha = explore(k, seed, depth, ctx.jobs)
        # self-check: the first and the last history, and every reported violation, are re-run from scratch in this
        # process; the abstract trace must be the one the forked exploration saw, and the violation must reappear.
        for item in (acc.first, acc.last):
            if item is None:
                continue
            _, hist, trace_digest = item
            again = [run_history(k, seed, hist)[1] for _ in range(2)]
            if again[0] != trace_digest or again[1] != trace_digest:
                core.eprint(f"C05: replay of {hist} (k={k}) from scratch does not reproduce the explored trace")
                sys.exit(2)
        for key, (_, _, what, hist) in sorted(acc.viol.items()):
            rp = {"k": k, "seed": seed, "history": hist}
            got = [v[0] for v in run_history(k, seed, hist)[0]]
            if key not in got:
                # fall back to the whole batch of the last event
                hist2 = [*hist[:-1], [x for x in hist[-1] if not isinstance(x, dict)]] if hist else hist
                got = [v[0] for v in run_history(k, seed, hist2)[0]]
                if key not in got:
                    core.eprint(f"C05: violation {key} at {hist} (k={k}) does not reproduce from scratch")
                    sys.exit(2)
                rp["history"] = hist2
            if key not in violations:
                violations[key] = core.Violation(key, f"k={k} history={rp['history']}: {what}", rp)
        states |= acc.states
        transitions += acc.transitions
        injections += acc.injections
        executions += acc.executions
        plans, _ = make_plan(k)
        per_world.append({"circuits": k, "depth": depth, "alphabet": alpha, "executions": acc.executions,
                          "transitions": acc.transitions, "injections": acc.injections,
                          "abstract_states": len(acc.states), "events_by_kind": dict(sorted(acc.by_kind.items())),
                          "histories_ended_by_violation": acc.pruned_violating,
                          "ids": [{"origin": p.origin, "path": p.path, "link_ids": p.ids} for p in plans]})
        for hist in ([acc.varied[3]] if acc.varied else []) + [it[1] for it in (acc.first, acc.last) if it]:
            if {"k": k, "history": hist} not in samples:
                samples.append({"k": k, "history": hist})
    fam = explore_family(seed, ctx.jobs, ctx.thorough)
    for key, (what, case) in sorted(fam["viol"].items()):
        rp = {"family": case[0], "seed": seed, "case": case}
        if key not in [v[0] for v in run_family_case(seed, tuple(_untuple(case)))[0]]:
            core.eprint(f"C05: violation {key} of case {case} does not reproduce from scratch")
            sys.exit(2)
        if key not in violations:
            violations[key] = core.Violation(key, f"case={case}: {what}", rp)
    applied = sum(n for k, n in fam["status"].items() if not k.endswith(":n/a"))
    states |= fam["states"]
    transitions += applied
    executions += applied
    injections += fam["injections"]
    samples += [{"family": c[0], "case": c} for c in fam["samples"]]
    cov = {
        "states": len(states),
        "transitions": transitions,
        "traces_validated_against_impl": executions,
        "samples": samples,
        "exhaustive": True,
        "injections_each_followed_by_oracle": injections,
        "worlds": per_world,
        "scenario_families": {
            "cases_enumerated": fam["cases"], "by_outcome": dict(sorted(fam["status"].items())),
            "halfbuilt/closing": "create(id in use) by the adversary (2 variants) at every node that routes the id, (a) "
                                 "after j = 0..n-1 delivered handshake datagrams of a 1/2/3-hop build with 0 or 2 READY "
                                 "circuits around, then the handshake completes: READY, planned tables only, traffic "
                                 "delivered; (b) 0 s / 2.5 s after a teardown by originator or exit with "
                                 "remove_tunnel_delay = 5 (CLOSING), 0 s or 61 s after the build; n/a = that node does "
                                 "not hold the id at that moment",
            "simfirst": "three circuits ending at one exit send their first packet; the cells reach the exit in every "
                        "order, 0..3 loop iterations apart, before any exit socket is open",
            "nested": "a datagram arrives from outside on circuit A's exit socket whose payload is a tunnel DATA "
                      "message naming the first id of every circuit (own and others), from the named circuit's first "
                      "hop (exact address / same IP other port) and from an unrelated address",
            "hidden": "HiddenTunnelCommunity nodes: O1's circuit registers 1..2 (thorough ..3) rendezvous cookies at X1, is "
                      "removed (destroy by originator / by the exit / silently + inactivity), optionally its id is "
                      "given to O2 61 s later, then ADV or O1 sends link-e2e(each cookie) over its own circuit (built "
                      "before or after); control: the same link while the circuit is alive really joins the two",
            "reuse": "O1 -1-> X1 -2-> X2 is built up to X1's create for X2 or X2's created (held back), O1 destroys "
                     "it, O2 asks X1 for id 1 (1-hop and 2-hop) 0/30/61 s later, or 0/6 s later when O1's extend had "
                     "arrived 55 s late; then the held datagram is delivered"},
        "bounds": [{"circuits": k, "depth": d} for k, d in bounds(ctx)],
        "state_definition": "digest of (routing-table key sets per node with originator circuit state, live/dying "
                            "flag per circuit, forward/reply delivery counts per circuit, open exit sockets, number "
                            "of 61 s waits, loop exception count); no merging is done on it - it only measures variety",
        "search": "every sequence of enabled events up to the depth, histories are not extended past a violation",
    }
    assumptions = [
        "crypto primitives (ipv8_rust_tunnels) trusted; ephemeral keys/nonces are the library's own randomness",
        "circuit ids are forced (planned queue answering getrandbits(32) in community.py) so that every id value is "
        "in use at several nodes for different circuits; ids never collide at one node between honest circuits "
        "(an honest 2^-32 collision is outside the statement)",
        "remove_tunnel_delay = 0 so that an accepted destroy is visible in the tables at once (other settings default)",
        "a circuit that received a destroy signed by its adjacent peer (or was torn down through the API) is 'dying': "
        "its entries may disappear, nothing may be added or replaced, isolation of its data still checked",
        "forged events are only aimed at live circuits; replay of a genuine cell on its own circuit is not in the "
        "statement and not explored",
        "PythonCryptoEndpoint only (the Rust endpoint is not explored)",
    ]
    return core.Report(LEVEL, cov, list(violations.values()), assumptions)


def _untuple(case: list) -> list:
    return [tuple(x) if isinstance(x, list) else x for x in case]


def replay(ctx: core.Ctx, data) -> list:  # noqa: ANN001
    if data.get("family"):
        viol, _, _, _ = run_family_case(int(data["seed"]), tuple(_untuple(data["case"])))
        seen = {}
        for key, what in viol:
            seen.setdefault(key, core.Violation(key, what))
        return list(seen.values())
    hist = [[(x if not isinstance(x, dict) else {"only": int(x["only"])}) for x in ev] for ev in data["history"]]
    viol, _ = run_history(int(data["k"]), int(data["seed"]), hist)
    seen = set()
    out = []
    for key, what, n, _ in viol:
        if key not in seen:
            seen.add(key)
            out.append(core.Violation(key, f"k={data['k']} after event {n}: {what}"))
    return out
