"""
C06 - An exit node never emits traffic its exit policy forbids.

Bounded exhaustive input enumeration on the *real* TunnelExitSocket of a live exit node (TunnelWorld, FakeTransports):

* inner layer: a 1-hop circuit O->X is built once per flag set, the exit socket is opened by one packet from the previous
  hop, then ``exit_socket.sendto`` (tunnel -> outside) and the transports' ``protocol.datagram_received`` (outside ->
  tunnel) are driven directly with every payload of a product over the bytes the classifier inspects;
* outer layer: a boundary set of payloads x destination kinds x sources of the tunnelled data goes end-to-end through
  1- and 2-hop circuits (a fresh world per case), including "previous hop moved" histories (the exit knows the previous
  hop as a verified peer and an authentic signed datagram with its key arrives from another address);
* configuration routes: two exit nodes built one after the other in one process through ipv8.configuration +
  ipv8_service.IPv8 and through ipv8.loader, every ordered pair of flag configurations - each node must apply its own;
* flag-change window: settings.peer_flags is reassigned at every loop iteration between the first data cell and the end
  of the socket creation - what leaves must be allowed by the flags in force when it leaves.

Oracles (reported under different keys):
  gate:*   given the classifier's own verdicts (could_be_bt / could_be_ipv8 evaluated by the harness) and the node's
           flags, emission happens iff the policy of the statement allows it (mc/ref/c06_exitpolicy.allowed)
  shape:*  the classifier verdicts agree with the reference shapes written from the BEPs the docstrings cite
  e2e:*, null-destination:*, open:*   the same gate end-to-end, nothing towards 0.0.0.0:0, the outside socket is only
           opened by data from the previous hop's IP address (= the address the circuit's create came from)
  config:<route>:*, window:*   the gate under the node's own configuration / under the flags in force at emission
"""
from __future__ import annotations

import socket
import sys

from ipv8.messaging.anonymization.exit_socket import DataChecker
from ipv8.messaging.anonymization.payload import DataPayload
from ipv8.messaging.anonymization.tunnel import (
    CIRCUIT_STATE_READY,
    PEER_FLAG_EXIT_BT,
    PEER_FLAG_EXIT_IPV8,
    PEER_FLAG_RELAY,
    PEER_FLAG_SPEED_TEST,
)
from ipv8.messaging.interfaces.udp.endpoint import UDPv4Address, UDPv6Address

from .. import core, simnet
from ..ref import c06_exitpolicy as ref
from ..tunnelworld import TunnelWorld

LEVEL = "exploration"

assert (PEER_FLAG_RELAY, PEER_FLAG_EXIT_BT, PEER_FLAG_EXIT_IPV8, PEER_FLAG_SPEED_TEST) == \
       (ref.FLAG_RELAY, ref.FLAG_EXIT_BT, ref.FLAG_EXIT_IPV8, ref.FLAG_SPEED_TEST)

# all 8 subsets of {EXIT_BT, EXIT_IPV8, RELAY}; SPEED_TEST always set (a node without any flag joins no circuit)
FLAGSETS: list[tuple] = [tuple(sorted({PEER_FLAG_SPEED_TEST}
                                      | ({PEER_FLAG_EXIT_BT} if i & 1 else set())
                                      | ({PEER_FLAG_EXIT_IPV8} if i & 2 else set())
                                      | ({PEER_FLAG_RELAY} if i & 4 else set()))) for i in range(8)]
FLAG_NAMES = {PEER_FLAG_RELAY: "RELAY", PEER_FLAG_EXIT_BT: "EXIT_BT", PEER_FLAG_EXIT_IPV8: "EXIT_IPV8",
              PEER_FLAG_SPEED_TEST: "SPEED_TEST"}
PLAIN = (PEER_FLAG_RELAY, PEER_FLAG_SPEED_TEST)        # originator, relay and bystander


def flag_str(fs) -> str:  # noqa: ANN001
    return "{" + ",".join(FLAG_NAMES[f] for f in sorted(fs)) + "}"


OUT4 = UDPv4Address("9.9.9.9", 99)
OUT6 = UDPv6Address("2001:db8::9", 99)
SRC4 = ("9.9.9.9", 99)
SRC6 = ("2001:db8::9", 99, 0, 0)         # what asyncio hands to datagram_received on an IPv6 socket
# an IPv4 host that reaches the dual-stack IPv6 socket: the kernel reports it as ::ffff:a.b.c.d; asyncio passes the
# 4-tuple (host, port, flowinfo, scope id), the 2-tuple form is what a caller of the protocol by hand would pass
SRC6_MAPPED = ("::ffff:" + SRC4[0], SRC4[1], 0, 0)
SRC6_MAPPED2 = SRC6_MAPPED[:2]
DIRS = ("out4", "out6", "in4", "in6", "in6m", "in6m2")
# the statement demands the filter for everything that comes back; whether datagrams from a mapped source are tunnelled at
# all is not promised (the unchanged tree drops them: "we have a separate endpoint for that"), so allowed ones may be dropped
MAY_DROP = frozenset({"in6m", "in6m2"})
DIR_KEY = {"out4": "out", "out6": "out", "in4": "in", "in6": "in", "in6m": "in-mapped", "in6m2": "in-mapped"}

FILLERS = (0xA5, 0xC3, 0x96)             # rotated by VERIF_SEED; none of them starts or ends any shape
MAXLEN = 1400

# ---------------------------------------------------------------------------------------------------------------------
# payload space of the inner layer
# ---------------------------------------------------------------------------------------------------------------------
# every length at which some classifier branch changes its mind, +-1, and 64
THRESH = (0, 1, 2, 3, 4, 7, 8, 9, 11, 12, 13, 19, 20, 21, 22, 23, 24, 64)
ALL_LENGTHS = tuple(range(65)) + (65, 127, 128, MAXLEN)
PLANE_LENGTHS = (2, 8, 12, 20, 23, 64)

B0_QUICK = (0x00, 0x01, 0x02, 0x10, 0x11, 0x12, 0x21, 0x31, 0x41, 0x42, 0x51, 0x63, 0x64, 0x65, 0x81, 0xFF)
B0_FULL = (0x00, 0x01, 0x02, 0x03, 0x04, 0x10, 0x11, 0x12, 0x21, 0x31, 0x40, 0x41, 0x42, 0x51, 0x61, 0x63, 0x64, 0x65,
           0x80, 0x81, 0xF1, 0xFE, 0xFF)
B1_QUICK = (0x00, 0x01, 0x02, 0x03, 0x04, 0x05, 0x64, 0x65, 0x80, 0xFF)
B1_FULL = (0x00, 0x01, 0x02, 0x03, 0x04, 0x05, 0x10, 0x64, 0x65, 0x80, 0xFE, 0xFF)

# bytes 2-3 and 8-11: the action values 0, 3 (last valid), 4 (first invalid) and a value that is only invalid through its
# high-order bytes (catches a field read with the wrong width); None keeps the template's bytes
W23 = (None, b"\x00\x00", b"\x00\x03", b"\x00\x04", b"\x01\x00")
W8 = (None, b"\x00\x00\x00\x00", b"\x00\x00\x00\x03", b"\x00\x00\x00\x04", b"\x00\x01\x00\x00")
LAST = (None, ord("e"), ord("f"))

# the full (byte0, byte1) plane is crossed with these (w23, w8, last) settings: neutral, and each other shape switched
# on or nearly on, one at a time
PLANE_COMBOS = ((None, None, None), (b"\x00\x00", None, None), (b"\x00\x04", None, None),
                (None, b"\x00\x00\x00\x00", None), (None, b"\x00\x00\x00\x04", None), (None, None, ord("e")))


def templates(prefix: bytes, fill: int) -> dict[str, bytes]:
    tail = bytes([fill]) * MAXLEN
    t = {"F": tail,
         "P": prefix + tail[22:],
         "Q": prefix[:2] + bytes(b ^ 0xFF for b in prefix[2:]) + tail[22:]}
    for k in range(22):
        t[f"P^{k}"] = prefix[:k] + bytes([prefix[k] ^ 0x01]) + prefix[k + 1:] + tail[22:]
    return t


def payloads(tmpl: bytes, lengths, b0, b1s, combos):  # noqa: ANN001, ANN201
    """Yield (bytes, params).  b0 None = keep the template's first two bytes (b1s must then be (None,))."""
    for L in lengths:
        for w23, w8, last in combos:
            ba = bytearray(tmpl[:L])
            if w23 is not None:
                for k in (0, 1):
                    if 2 + k < L:
                        ba[2 + k] = w23[k]
            if w8 is not None:
                for k in range(4):
                    if 8 + k < L:
                        ba[8 + k] = w8[k]
            if last is not None and L > 0:
                ba[L - 1] = last
            if b0 is not None and L > 0:
                ba[0] = b0
            for b1 in b1s:
                if b1 is not None and L > 1:
                    ba[1] = b1
                if last is not None and 0 < L <= 2:
                    ba[L - 1] = last
                yield bytes(ba)


# ---------------------------------------------------------------------------------------------------------------------
# inner layer
# ---------------------------------------------------------------------------------------------------------------------

class HarnessError(Exception):
    pass


class Inner:
    """A live exit node with an open exit socket for one flag set."""

    def __init__(self, flag_idx: int, seed: int) -> None:
        self.flag_idx = flag_idx
        self.flags = frozenset(FLAGSETS[flag_idx])
        self.w = w = TunnelWorld(("c06-inner", seed, flag_idx), {"O": set(PLAIN), "X": set(self.flags)},
                                 key_offset=seed % 8)
        try:
            if set(w.ov["X"].settings.peer_flags) != set(self.flags):
                raise HarnessError("flag set not applied")
            self._open("X")
        except BaseException:
            w.close()
            raise

    @classmethod
    def attach(cls, w: TunnelWorld, xname: str, flags) -> "Inner":  # noqa: ANN001
        """The same driver on an exit node of an existing world; `flags` is what the reference policy is computed from."""
        self = cls.__new__(cls)
        self.flag_idx = FLAGSETS.index(tuple(sorted(flags))) if tuple(sorted(flags)) in FLAGSETS else -1
        self.flags = frozenset(flags)
        self.w = w
        self._open(xname)
        return self

    def _open(self, xname: str) -> None:
        w = self.w
        c = w.build_circuit("O", [xname])
        if c.state != CIRCUIT_STATE_READY:
            raise HarnessError(f"1-hop circuit to exit {xname} (policy flags {flag_str(self.flags)}) did not become ready")
        x = w.ov[xname]
        self.prefix = x.get_prefix()
        self.cid = c.circuit_id
        # one packet of the tunnel overlay itself (allowed under every flag set) from the previous hop opens the socket
        w.send_out("O", c, tuple(OUT4), self.prefix + b"\xee" + b"\x00" * 8)
        w.flush()
        self.es = es = x.exit_sockets[c.circuit_id]
        if not (es.enabled and es.transport_ipv4 is not None and es.transport_ipv6 is not None):
            raise HarnessError("exit socket not open after data from the previous hop")
        self.t4, self.t6 = es.transport_ipv4, es.transport_ipv6
        self.o_addr = tuple(w.nodes["O"].address)
        self.x_addr = tuple(w.nodes[xname].address)
        self._clear()

    def _clear(self) -> None:
        self.t4.sent.clear()
        self.t6.sent.clear()
        self.w.loop.outside_log.clear()
        self.w.wire_log.clear()
        self.w.inflight.clear()

    def close(self) -> None:
        self.w.close()

    def observe(self, data: bytes, direction: str) -> tuple[bool, str]:
        """Drive one packet through the real socket.  Returns (emitted, problem-or-'')."""
        w = self.w
        problem = ""
        self.raised = None
        try:
            if direction == "out4":
                self.es.sendto(data, OUT4)
            elif direction == "out6":
                self.es.sendto(data, OUT6)
            elif direction == "in4":
                self.t4.protocol.datagram_received(data, SRC4)
            elif direction == "in6":
                self.t6.protocol.datagram_received(data, SRC6)
            elif direction == "in6m":
                self.t6.protocol.datagram_received(data, SRC6_MAPPED)
            else:
                self.t6.protocol.datagram_received(data, SRC6_MAPPED2)
        except Exception as e:  # noqa: BLE001
            self.raised = problem = f"raised {type(e).__name__}: {e}"
        s4, s6, wl = self.t4.sent, self.t6.sent, w.wire_log
        if not (s4 or s6 or wl):
            return False, problem
        if direction[0] == "o":
            want4 = [(data, OUT4)] if direction == "out4" else []
            want6 = [(data, OUT6)] if direction == "out6" else []
            if s4 != want4 or s6 != want6 or wl:
                problem = problem or (f"expected exactly the payload towards {OUT4 if want4 else OUT6}, saw ipv4 socket "
                                      f"{[(d.hex(), a) for d, a in s4]}, ipv6 socket {[(d.hex(), a) for d, a in s6]}, "
                                      f"{len(wl)} datagrams on the overlay endpoint")
        else:
            ok = len(wl) == 1 and not s4 and not s6
            if ok:
                dg = wl[0]
                f = w.cell_fields(dg.data)
                ok = (tuple(dg.dst) == self.o_addr and tuple(dg.src) == self.x_addr and f is not None
                      and f[0] == self.cid and not f[1])
            if not ok:
                problem = problem or (f"expected one encrypted cell of circuit {self.cid} towards the previous hop "
                                      f"{self.o_addr}, saw {[(tuple(d.src), tuple(d.dst), len(d.data)) for d in wl]} and "
                                      f"{len(s4) + len(s6)} datagrams on the outside sockets")
        self._clear()
        return True, problem


def classify(data: bytes) -> tuple:
    """The implementation's own verdicts."""
    return (bool(DataChecker.could_be_utp(data)), bool(DataChecker.could_be_udp_tracker(data)),
            bool(DataChecker.could_be_dht(data)), bool(DataChecker.could_be_bt(data)),
            bool(DataChecker.could_be_ipv8(data)))


SHAPE_NAMES = ("utp", "udp_tracker", "dht", "bt", "ipv8")
REF_SHAPES = tuple(ref.SHAPES[n] for n in SHAPE_NAMES)


def _smaller(a, b) -> bool:  # noqa: ANN001
    """Order used to keep the minimal failing input per key: shorter data first, then bytes, then the rest."""
    return (len(a["data"]), a["data"], a.get("flags", 0), a.get("dir", "")) < \
           (len(b["data"]), b["data"], b.get("flags", 0), b.get("dir", ""))


def _note(viols: dict, key: str, what: str, rp: dict) -> None:
    cur = viols.get(key)
    if cur is None or _smaller(rp, cur[1]):
        viols[key] = (what, rp)


def check_shapes(data: bytes, verdicts: tuple, viols: dict) -> None:
    for name, impl, fn in zip(SHAPE_NAMES, verdicts, REF_SHAPES):
        want = fn(data)
        if impl != want:
            side = "accepts-unshaped" if impl else "rejects-shaped"
            _note(viols, f"shape:{name}:{side}",
                  f"DataChecker.could_be_{name}({data[:40].hex()}{'..' if len(data) > 40 else ''}, len {len(data)}) = "
                  f"{impl}, the reference shape says {want}", {"layer": "shape", "data": data.hex()})


def judge(inner: Inner, data: bytes, verdicts: tuple, direction: str, emitted: bool, problem: str, viols: dict) -> None:
    """Compare one observation with the policy gate of the statement (slow path: only called on a mismatch)."""
    bt, ipv8 = verdicts[3], verdicts[4]
    own = data[:22] == inner.prefix
    want = ref.allowed(bt, ipv8, own, inner.flags)
    if emitted == want and not (emitted and problem):
        return
    if direction in MAY_DROP and not emitted:
        return
    cls = ref.shape_class(bt, ipv8, own)
    rp = {"layer": "inner", "flags": inner.flag_idx, "dir": direction, "data": data.hex()}
    side = "to the outside" if direction[0] == "o" else "into the tunnel"
    desc = (f"flags {flag_str(inner.flags)}, {direction}, payload {data[:40].hex()}{'..' if len(data) > 40 else ''} "
            f"(len {len(data)}; classifier: bt={bt} ipv8={ipv8}, own prefix={own})")
    if emitted and not want:
        _note(viols, f"gate:{DIR_KEY[direction]}:emitted-forbidden:{cls}", f"forbidden packet went {side}: {desc}", rp)
    elif want and not emitted:
        _note(viols, f"gate:{DIR_KEY[direction]}:dropped-allowed:{cls}",
              f"allowed packet did not go {side}: {desc} {problem}", rp)
    else:
        _note(viols, f"gate:{DIR_KEY[direction]}:altered", f"{desc}: {problem}", rp)


def check_gate(inner: Inner, data: bytes, verdicts: tuple, direction: str, viols: dict) -> bool:
    emitted, problem = inner.observe(data, direction)
    judge(inner, data, verdicts, direction, emitted, problem, viols)
    return emitted


_SEED = 0
_THOROUGH = False


def inner_items(thorough: bool) -> list[tuple]:
    items = []
    b0s = B0_FULL if thorough else B0_QUICK
    for fi in range(8):
        for t in ("F", "P", "Q"):
            items.append(("grid", fi, t, None))
            for b0 in b0s:
                items.append(("grid", fi, t, b0))
        for k in range(22):
            items.append(("grid", fi, f"P^{k}", None))
        if thorough:
            for t in ("F", "P"):
                for b0 in range(256):
                    items.append(("plane", fi, t, b0))
        else:
            for lo in range(0, 256, 32):
                items.append(("plane-thin", fi, "F", lo))
    return items


def run_inner_items(chunk: list) -> list:
    out = []
    for part, fi, tname, b0 in chunk:
        try:
            inner = Inner(fi, _SEED)
        except HarnessError as e:
            out.append((part, 0, 0, 0, 0, 0, set(), {"harness:inner-setup": (
                f"flags {flag_str(FLAGSETS[fi])}: {e}", {"layer": "setup", "flags": fi, "data": ""})}))
            continue
        try:
            tmpl = templates(inner.prefix, FILLERS[_SEED % len(FILLERS)])[tname]
            if part == "grid":
                combos = [(a, b, c) for a in W23 for b in W8 for c in LAST]
                gen = payloads(tmpl, ALL_LENGTHS if _THOROUGH else THRESH, b0,
                               (B1_FULL if _THOROUGH else B1_QUICK) if b0 is not None else (None,), combos)
                dirs = DIRS         # everything at the threshold lengths; IPv4 and the mapped source at the lengths in between
            elif part == "plane":
                gen = payloads(tmpl, PLANE_LENGTHS, b0, range(256), PLANE_COMBOS)
                dirs = ("out4", "in4", "in6m")
            else:   # quick: the whole (byte0, byte1) plane at one length above every threshold, everything else neutral
                gen = (p for x in range(b0, b0 + 32) for p in payloads(tmpl, (24,), x, range(256), PLANE_COMBOS[:1]))
                dirs = ("out4", "in4", "in6m")
            seen: set = set()
            viols: dict = {}
            outcomes: set = set()
            n = evals = n_emitted = n_raised = 0
            thresh, dirs4 = frozenset(THRESH), tuple(d for d in dirs if d in ("out4", "in4", "in6m"))
            observe, prefix, flags, allowed, ref_verdicts = inner.observe, inner.prefix, inner.flags, ref.allowed, ref.verdicts
            may_drop = MAY_DROP
            for data in gen:
                if data in seen:
                    continue
                seen.add(data)
                n += 1
                v = classify(data)
                if v != ref_verdicts(data):
                    check_shapes(data, v, viols)
                own = data[:22] == prefix
                want = allowed(v[3], v[4], own, flags)
                em = 0
                dd = dirs if len(data) in thresh else dirs4
                evals += len(dd)
                for d in dd:
                    emitted, problem = observe(data, d)
                    if emitted:
                        em += 1
                    if (emitted != want or problem) and (emitted or d not in may_drop):
                        if inner.raised:
                            n_raised += 1
                        judge(inner, data, v, d, emitted, problem, viols)
                n_emitted += em
                outcomes.add((fi, v[3], v[4], own, em))
            out.append((part, n, evals, n_emitted, evals - n_emitted, n_raised, outcomes, viols))
        finally:
            inner.close()
    return out


# ---------------------------------------------------------------------------------------------------------------------
# outer layer: end to end
# ---------------------------------------------------------------------------------------------------------------------

def outer_payloads(prefix: bytes) -> dict[str, bytes]:
    other = prefix[:2] + bytes(b ^ 0xFF for b in prefix[2:])
    tid = b"\x12\x34\x56\x78"
    p = {
        # BEP 29 (uTP): type/version, extension, connection id, timestamps, window, seq, ack
        "utp-syn": bytes.fromhex("4100" "8644" "6ed69ec1" "00000000" "00100000" "f32e" "0000"),
        "dht-ping": b"d1:ad2:id20:abcdefghij0123456789e1:q4:ping1:t2:aa1:y1:qe",                        # BEP 5
        "tracker-connect": bytes.fromhex("0000041727101980" "00000000") + tid,                           # BEP 15 request
        "ipv8-other": other + b"\xf5" + b"\x07" * 20,
        "ipv8-own": prefix + b"\xee" + b"\x07" * 20,
        "junk": b"GET / HTTP/1.1\r\nHost: example\r\n\r\n",
        "bt+ipv8": other[:8] + b"\x00\x00\x00\x01" + other[12:] + b"\xf5" + b"\x07" * 20,
        "empty": b"",
        "own-prefix-only": prefix,
        # thorough only from here
        "utp-data-sack": bytes.fromhex("0101" "8644" "6ed69ec1" "0000aaaa" "00100000" "f32e" "0001" "0004" "ffffffff"),
        "utp-ext4": bytes.fromhex("0104" "8644" "6ed69ec1" "0000aaaa" "00100000" "f32e" "0001"),
        "utp-version2": bytes.fromhex("0200" "8644" "6ed69ec1" "0000aaaa" "00100000" "f32e" "0001"),
        "utp-type5": bytes.fromhex("5100" "8644" "6ed69ec1" "0000aaaa" "00100000" "f32e" "0001"),
        "utp-19-bytes": bytes.fromhex("2100" "8644" "6ed69ec1" "0000aaaa" "00100000" "f32e" "00"),
        "tracker-announce-response": bytes.fromhex("00000001") + tid + bytes.fromhex("00000708" "00000001" "00000002"),
        "tracker-error": bytes.fromhex("00000003") + tid + b"fail",
        "tracker-action4": bytes.fromhex("00000004") + tid + b"fail",
        "dht-error": b"d1:eli201e23:A Generic Error Ocurrede1:t2:aa1:y1:ee",
        "dht-unterminated": b"d1:ad2:id20:abcdefghij0123456789e1:q4:ping1:t2:aa1:y1:q",
        "ipv8-version1": b"\x00\x01" + other[2:] + b"\xf5" + b"\x07" * 20,
        "ipv8-version3": b"\x00\x03" + other[2:] + b"\xf5" + b"\x07" * 20,
        "own-prefix-1-bit-off": prefix[:21] + bytes([prefix[21] ^ 1]) + b"\xee" + b"\x07" * 20,
        "dns-query": bytes.fromhex("abcd01000001000000000000") + b"\x07example\x00" + bytes.fromhex("00010001"),
    }
    return p


QUICK_PAYLOADS = ("utp-syn", "dht-ping", "tracker-connect", "ipv8-other", "ipv8-own", "junk", "bt+ipv8", "empty",
                  "own-prefix-only")
WELL_FORMED_BT = ("utp-syn", "utp-data-sack", "dht-ping", "dht-error", "tracker-connect", "tracker-announce-response",
                  "tracker-error")


def _numeric_null_host() -> str | None:
    """A host string that is *not* an IP literal for the wire format but that the system resolver maps to 0.0.0.0."""
    for h in ("0", "0.0"):
        try:
            socket.inet_pton(socket.AF_INET, h)
            continue
        except OSError:
            pass
        try:
            info = socket.getaddrinfo(h, 0, type=socket.SOCK_DGRAM, flags=socket.AI_NUMERICHOST)
        except OSError:
            continue
        if info and info[0][4][0] == "0.0.0.0":
            return h
    return None


NULL_HOST = _numeric_null_host()

RESOLVER = {"good.example": ["5.6.7.8"], "six.example": ["2001:db8::2"], "dual.example": ["2001:db8::3", "5.6.7.9"],
            "null.example": ["0.0.0.0"]}
if NULL_HOST is not None:
    RESOLVER[NULL_HOST] = ["0.0.0.0"]     # what socket.getaddrinfo answers for it on this system, without any DNS

# name -> (destination given to the originator, acceptable final destinations, kind for violation keys)
DESTS: dict[str, tuple] = {
    "ipv4": (("9.9.9.9", 99), [("9.9.9.9", 99)], "ipv4"),
    "ipv6": (("2001:db8::1", 53), [("2001:db8::1", 53)], "ipv6"),
    "domain->ipv4": (("good.example", 80), [("5.6.7.8", 80)], "domain"),
    "domain->ipv6": (("six.example", 80), [("2001:db8::2", 80)], "domain"),
    "domain->both": (("dual.example", 80), [("5.6.7.9", 80), ("2001:db8::3", 80)], "domain"),
    "domain-unresolvable": (("nx.example", 80), [], "domain"),
    "null": (("0.0.0.0", 0), [], "null"),
    "ipv4-any-port-5": (("0.0.0.0", 5), [("0.0.0.0", 5)], "ipv4"),
    "null-by-resolution": (("null.example", 0), [], "after-resolution"),
    # the IPv4-mapped spelling of the null address (leaves through the exit's dual-stack IPv6 socket)
    "null-ipv4-mapped": (("::ffff:0.0.0.0", 0), [], "null"),
}
if NULL_HOST is not None:
    DESTS["null-by-numeric-host"] = ((NULL_HOST, 0), [], "after-resolution")

SOURCES = ("previous-hop", "same-ip-other-port", "other-ip", "other-ip-same-port", "originator",
           # addresses that merely *look like* the previous hop's: its IP as a textual suffix / prefix / with a zero-padded
           # or widened octet - any comparison that is not an equality of the whole IP shows up here
           "ip-textual-suffix", "ip-textual-prefix", "ip-octet-widened", "ipv6-mapped-look-alike",
           # "previous hop moved": the exit knows the previous hop as a verified peer; an authentic signed datagram with
           # that key (an introduction-request) reaches the exit from another address - after the circuit was joined or
           # before its create arrived - and then the data cell comes from that address.  The circuit's previous hop stays
           # the address its create came from.
           "moved-v4-after-join", "moved-v6-after-join", "moved-v4-before-create", "moved-v6-before-create")


def outer_cases(thorough: bool) -> list[tuple]:
    names = list(outer_payloads(b"\x00" * 22)) if thorough else list(QUICK_PAYLOADS)
    cases = []
    for fi in range(8):
        for hops in (1, 2):
            for pn in names:
                for dn in DESTS:
                    cases.append((fi, hops, pn, dn, "previous-hop"))
                for sn in SOURCES[1:]:
                    if sn == "originator" and hops == 1:
                        continue
                    cases.append((fi, hops, pn, "ipv4", sn))
    return cases


MOVED_SOURCES = tuple(sn for sn in SOURCES if sn.startswith("moved-"))


def _signed_datagram_from(w: TunnelWorld, prev_name: str, moved) -> tuple:  # noqa: ANN001
    """
    An authentic introduction-request of the previous hop reaches the exit X from the address `moved`.
    Returns (harness problem key or None, text, the exit's Network now lists the peer at `moved`).
    """
    x_node = w.nodes["X"]
    key_bin = w.nodes[prev_name].my_peer.public_key.key_to_bin()
    known = x_node.network.get_verified_by_public_key_bin(key_bin)
    if known is None:
        return "harness:previous-hop-not-verified", f"the exit does not know {prev_name} as a verified peer", False
    n0 = len(w.inflight)
    w.nodes[prev_name].run(w.ov[prev_name].walk_to, x_node.address)
    w.loop.settle()
    mine = [d for d in w.inflight[n0:] if tuple(d.dst) == tuple(x_node.address)]
    if len(mine) != 1:
        return "harness:no-signed-datagram", f"walk_to produced {len(mine)} datagrams towards the exit", False
    w.inflight.remove(mine[0])
    w.inject(moved, tuple(x_node.address), mine[0].data)
    w.flush()
    return None, "", tuple(known.address) == tuple(moved)


def run_outer(case: tuple, seed: int) -> tuple[list, tuple]:
    """One fresh world.  Returns ([(key, what)], observation)."""
    fi, hops, pname, dname, sname = case
    flags = frozenset(FLAGSETS[fi])
    viol: list = []
    w = TunnelWorld(("c06-outer", seed), {"O": set(PLAIN), "R": set(PLAIN), "X": set(flags), "Z": set(PLAIN)},
                    key_offset=seed % 8)
    try:
        w.loop.resolver.update(RESOLVER)
        x, o = w.ov["X"], w.ov["O"]
        x_addr = tuple(w.nodes["X"].address)
        prev_name = "O" if hops == 1 else "R"
        prev = tuple(w.nodes[prev_name].address)
        moved = None
        rebound = None
        if sname.startswith("moved-"):
            moved = UDPv6Address("2001:db8::66", prev[1]) if "-v6-" in sname else UDPv4Address("6.6.6.6", prev[1])
            if sname.endswith("before-create"):
                rebound = _signed_datagram_from(w, prev_name, moved)
        c = w.build_circuit("O", ["X"] if hops == 1 else ["R", "X"])
        if c.state != CIRCUIT_STATE_READY:
            return viol, ("not-built", fi, hops)
        prefix = x.get_prefix()
        data = outer_payloads(prefix)[pname]
        dest, finals, dkind = DESTS[dname]
        es = next(iter(x.exit_sockets.values()))
        if moved is None and tuple(es.hop.address) != prev:
            return [("harness:previous-hop", f"exit socket hop {es.hop.address} != {prev}")], ("harness",)
        if moved is not None and sname.endswith("after-join"):
            rebound = _signed_datagram_from(w, prev_name, moved)
        if rebound is not None and rebound[0]:
            return [(rebound[0], rebound[1])], ("harness",)
        v = classify(data)
        bt, ipv8, own = v[3], v[4], data[:22] == prefix
        allowed = ref.allowed(bt, ipv8, own, flags)
        cls = ref.shape_class(bt, ipv8, own)
        desc = (f"flags {flag_str(flags)}, {hops} hop(s), payload {pname} ({data[:32].hex()}{'..' if len(data) > 32 else ''}"
                f", len {len(data)}; classifier bt={bt} ipv8={ipv8} own prefix={own}), destination {dname} {dest}")

        # what reaches the originator's data handler (decrypted), observed without changing behaviour
        got: list = []
        orig_handler = o.decode_map_private[DataPayload.msg_id]

        def spy(addr, raw, cid):  # noqa: ANN001, ANN202
            try:
                pl, _ = o.serializer.unpack_serializable(DataPayload, raw, offset=23)
                got.append((tuple(pl.org_address), pl.data))
            except Exception as e:  # noqa: BLE001
                got.append(("undecodable", repr(e)))
            return orig_handler(addr, raw, cid)
        o.decode_map_private[DataPayload.msg_id] = spy

        def emissions() -> list:
            return [(t.local_addr[0], d, tuple(a)) for t in w.loop.transports for d, a in t.sent]

        deliveries = 0          # packets that certainly reached an open (or opening) exit socket
        maybe = 0               # packets the exit may or may not accept (same IP as the previous hop, other port)
        # --- phase A: the cell that carries the data reaches the exit from somewhere else than the previous hop ----
        if sname != "previous-hop":
            w.send_out("O", c, dest, data)
            w.loop.settle()
            captured = None
            for _ in range(10):
                if not w.inflight:
                    break
                dg = w.inflight[0]
                if tuple(dg.dst) == x_addr and w.kind(dg) == "cell:enc":
                    captured = w.inflight.pop(0)
                    break
                w.deliver(0)
            if captured is None:
                return [("harness:no-cell", f"{desc}: no data cell towards the exit was seen")], ("harness",)
            src = {"same-ip-other-port": (prev[0], prev[1] + 4321),
                   "other-ip": tuple(w.nodes["Z"].address),
                   "other-ip-same-port": ("7.7.7.7", prev[1]),
                   "originator": tuple(w.nodes["O"].address),
                   "ip-textual-suffix": ("1" + prev[0], prev[1]),                       # 2.2.2.2 -> 12.2.2.2
                   "ip-textual-prefix": (prev[0] + "1", prev[1]),                       # 2.2.2.2 -> 2.2.2.21
                   "ip-octet-widened": (prev[0].replace(".", ".1", 1), prev[1]),        # 2.2.2.2 -> 2.12.2.2
                   "ipv6-mapped-look-alike": ("2001:db8::" + prev[0], prev[1])}.get(sname, moved)
            w.inject(src, x_addr, captured.data)
            w.flush()
            w.run_for(1.0)
            if src[0] != prev[0]:
                if w.loop.transports or es.enabled:
                    viol.append((f"open:foreign-source:{'moved-previous-hop' if moved is not None else sname}",
                                 f"{desc}: the data cell arrived from {src} (previous hop is {prev}) and the exit opened "
                                 f"{len(w.loop.transports)} outside sockets (enabled={es.enabled}); "
                                 f"emitted {[(d.hex()[:24], a) for _, d, a in emissions()]}"))
            else:
                maybe += 1
        opened_by_a = len(w.loop.transports)

        # --- phase B: the genuine packet from the previous hop -------------------------------------------------------
        w.send_out("O", c, dest, data)
        w.flush()
        w.run_for(1.0)
        deliveries += 1
        em = emissions()
        for fam, d, a in em:
            if ref.is_null_address(a):
                viol.append((f"null-destination:{dkind}", f"{desc}: the exit emitted {len(d)} bytes towards {a}"))
        em_ok = [(fam, d, a) for fam, d, a in em if not ref.is_null_address(a)]
        if not allowed:
            if em_ok:
                viol.append((f"e2e:out:emitted-forbidden:{cls}",
                             f"{desc}: forbidden packet left the exit: {[(d.hex()[:24], a) for _, d, a in em_ok]}"))
        elif not finals:
            if em_ok:
                viol.append((f"e2e:out:wrong-destination:{dkind}",
                             f"{desc}: nothing can be emitted for this destination, saw {[a for _, _, a in em_ok]}"))
        else:
            good = [e for e in em_ok if e[1] == data and e[2] in finals]
            if len(em_ok) != len(good):
                viol.append((f"e2e:out:wrong-destination:{dkind}",
                             f"{desc}: expected the unmodified payload towards one of {finals}, saw "
                             f"{[(f, d.hex()[:24], a) for f, d, a in em_ok]}"))
            elif not deliveries <= len(good) <= deliveries + maybe:
                viol.append((f"e2e:out:dropped-allowed:{cls}:{dkind}" if len(good) < deliveries else "e2e:out:duplicated",
                             f"{desc}: {deliveries} allowed packet(s) delivered to the exit by the previous hop (+{maybe} "
                             f"from its IP, other port), {len(good)} emitted"))

        # --- phase C: the same payload arrives from the outside on every open socket ---------------------------------
        n_in = 0
        got.clear()
        expect_got = []
        for t in list(w.loop.transports):
            if t.closed:
                continue
            if t.local_addr[0] == "::":
                t.inject(data, SRC6)
                expect_got.append((SRC6[:2], data))
            else:
                t.inject(data, SRC4)
                expect_got.append((SRC4, data))
            n_in += 1
            w.flush()
        if n_in:
            if not allowed and got:
                viol.append((f"e2e:in:emitted-forbidden:{cls}",
                             f"{desc}: forbidden packet from outside reached the originator: "
                             f"{[(s, d.hex()[:24] if isinstance(d, bytes) else d) for s, d in got]}"))
            elif allowed and got != expect_got:
                key = f"e2e:in:dropped-allowed:{cls}" if len(got) < len(expect_got) else "e2e:in:altered"
                viol.append((key, f"{desc}: injected {[(s, len(d)) for s, d in expect_got]} from outside, the originator "
                                  f"received {[(s, d.hex()[:24] if isinstance(d, bytes) else d) for s, d in got]}"))
        n_got = len(got)
        # ... and from an IPv4 host that hit the dual-stack IPv6 socket (mapped source, both tuple forms): nothing forbidden
        # may come back; whether allowed datagrams of such a source are tunnelled is not promised
        n_mapped = 0
        for t in list(w.loop.transports):
            if t.closed or t.local_addr[0] != "::":
                continue
            for src in (SRC6_MAPPED, SRC6_MAPPED2):
                got.clear()
                t.inject(data, src)
                w.flush()
                n_mapped += len(got)
                if got and not allowed:
                    viol.append((f"e2e:in-mapped:emitted-forbidden:{cls}",
                                 f"{desc}: forbidden packet from the IPv4-mapped source {src} on the IPv6 socket reached the "
                                 f"originator: {[(s, d.hex()[:24] if isinstance(d, bytes) else d) for s, d in got]}"))
                elif got and [d for _, d in got] != [data]:
                    viol.append(("e2e:in-mapped:altered", f"{desc}: injected {len(data)} bytes from {src}, the originator "
                                 f"received {[(s, d.hex()[:24] if isinstance(d, bytes) else d) for s, d in got]}"))
        obs = ("ran", fi, hops, pname, dname, sname, cls, allowed, opened_by_a, len(w.loop.transports),
               tuple(sorted((f, len(d), a) for f, d, a in em)), n_in, n_got, len(w.loop.exceptions),
               None if rebound is None else rebound[2], n_mapped)
        return viol, obs
    finally:
        w.close()


# ---------------------------------------------------------------------------------------------------------------------
# destination histories: what an exit socket remembers about one destination must not decide about the next
# ---------------------------------------------------------------------------------------------------------------------
HIST_DESTS = [("null.example", 5), ("null.example", 0), ("good.example", 80), ("good.example", 0), ("0.0.0.0", 5),
              ("9.9.9.9", 99)]
HIST_FINAL = {("null.example", 5): ("0.0.0.0", 5), ("null.example", 0): None, ("good.example", 80): ("5.6.7.8", 80),
              ("good.example", 0): ("5.6.7.8", 0), ("0.0.0.0", 5): ("0.0.0.0", 5), ("9.9.9.9", 99): ("9.9.9.9", 99)}


def history_cases(thorough: bool) -> list[tuple]:
    import itertools  # noqa: PLC0415
    n = len(HIST_DESTS)
    cases = [tuple(c) for c in itertools.product(range(n), repeat=2)]
    if thorough:
        cases += [tuple(c) for c in itertools.product(range(n), repeat=3)]
    return cases


def run_history(case: tuple, seed: int) -> tuple[list, tuple]:
    """One exit socket (all exit flags), packets to the destinations of `case` one after the other on one circuit."""
    viol: list = []
    w = TunnelWorld(("c06-history", seed), {"O": set(PLAIN), "X": set(FLAGSETS[7])}, key_offset=seed % 8)
    try:
        w.loop.resolver.update(RESOLVER)
        c = w.build_circuit("O", ["X"])
        if c.state != CIRCUIT_STATE_READY:
            return [("harness:history-setup", "circuit not ready")], ("harness",)
        data0 = outer_payloads(w.ov["X"].get_prefix())["dht-ping"]
        seq = [HIST_DESTS[i] for i in case]
        trail = []
        for k, dest in enumerate(seq):
            data = data0
            before = [(d, tuple(a)) for t in w.loop.transports for d, a in t.sent]
            w.send_out("O", c, dest, data)
            w.flush()
            after = [(d, tuple(a)) for t in w.loop.transports for d, a in t.sent]
            new = after[len(before):]
            desc = f"packets to {seq[:k + 1]} one after the other on one circuit (all exit flags set)"
            for d, a in new:
                if ref.is_null_address(a):
                    viol.append(("null-destination:after-history", f"{desc}: emission towards {a}"))
            want = HIST_FINAL[dest]
            mine = [a for d, a in new]
            if want is None and mine:
                viol.append(("null-destination:after-history", f"{desc}: the last packet left towards {mine}"))
            elif want is not None and mine != [want]:
                viol.append(("history:allowed-packet-misdirected", f"{desc}: the last packet (BitTorrent-shaped, allowed) "
                                                                   f"left towards {mine}, expected exactly {want}"))
            trail.append(tuple(mine))
        return viol, ("ran", tuple(trail))
    finally:
        w.close()


def run_history_cases(chunk: list) -> list:
    return [(tuple(c), *run_history(tuple(c), _SEED)) for c in chunk]


def run_outer_cases(chunk: list) -> list:
    out = []
    for case in chunk:
        v, obs = run_outer(tuple(case), _SEED)
        out.append((tuple(case), v, obs))
    return out


# ---------------------------------------------------------------------------------------------------------------------
# configuration routes: the policy of a node is the one THIS node was configured with
# ---------------------------------------------------------------------------------------------------------------------
# Two exit nodes are built one after the other in one process, the way deployments do it, each with its own flag
# configuration (one of the 8 flag sets, or None = the operator does not mention peer_flags at all).  Each node must then
# apply the policy of its *own* configuration, whatever was configured first.

CONFIG_ROUTES = (
    "service-default",   # get_default_configuration(), edit the HiddenTunnelCommunity entry's "initialize", ipv8_service.IPv8
    "service-builder",   # ConfigBuilder() (starts from the default configuration), same edit, finalize(), IPv8
    "loader-item",       # ipv8.loader: launcher.community_kwargs["peer_flags"] = ... (item assignment), IPv8CommunityLoader
    "loader-update",     # launcher.community_kwargs.update(...)
    "loader-assign",     # launcher.community_kwargs = {...}
    "loader-get-kwargs",  # launcher class overriding get_kwargs
    # a settings object edited in place, the idiom of the repository's own tests and documentation: the operator ADDS
    # flags to whatever the defaults are
    "attr-ior",          # settings = TunnelSettings(); settings.peer_flags |= {...}
    "attr-add",          # for f in ...: settings.peer_flags.add(f)
    "attr-update",       # settings.peer_flags.update({...})
    # the operator's settings object receives my_peer / endpoint / network by merging the attribute dict of a freshly
    # made default settings object into it - what ipv8.test.mocking.MockIPv8(..., settings=...) does for every user of
    # the library's testing API
    "merged-dict",       # settings.peer_flags = {...}; settings.__dict__.update(TunnelSettings(...).__dict__)
)
ADDITIVE_ROUTES = ("attr-ior", "attr-add", "attr-update")
CONFIG_PAYLOADS = ("dht-ping", "utp-syn", "tracker-connect", "ipv8-other", "ipv8-own", "bt+ipv8", "junk")


def _adopt(node, o) -> None:  # noqa: ANN001
    """Give a deployment-built overlay the simulated node's address (what Node.add_overlay does for the attr route)."""
    o.my_peer.address = node.address
    node.my_peer = o.my_peer
    node.network = o.network
    o.my_estimated_wan = node.address
    o.my_estimated_lan = node.address
    node.overlays.append(o)


def _build_configured(route: str, node, flags):  # noqa: ANN001, ANN202
    """Build a tunnel overlay for `node` through `route`; flags None = peer_flags not mentioned by the operator."""
    import base64  # noqa: PLC0415
    from types import SimpleNamespace  # noqa: PLC0415

    from .. import fixtures  # noqa: PLC0415
    other = {"min_circuits": 0, "max_circuits": 0}      # what else this operator sets (never peer flags)
    if route == "merged-dict":
        from ipv8.messaging.anonymization.community import TunnelCommunity, TunnelSettings  # noqa: PLC0415
        from ipv8.peerdiscovery.network import Network  # noqa: PLC0415
        settings = TunnelSettings()
        for k, v in other.items():
            setattr(settings, k, v)
        if flags is not None:
            settings.peer_flags = set(flags)
        settings.__dict__.update(TunnelSettings(my_peer=node.my_peer, endpoint=node.endpoint, network=Network()).__dict__)
        o = TunnelCommunity(settings)
    elif route in ADDITIVE_ROUTES:
        from ipv8.messaging.anonymization.community import TunnelCommunity, TunnelSettings  # noqa: PLC0415
        from ipv8.peerdiscovery.network import Network  # noqa: PLC0415
        settings = TunnelSettings()
        for k, v in other.items():
            setattr(settings, k, v)
        if flags is not None:
            if route == "attr-ior":
                settings.peer_flags |= set(flags)
            elif route == "attr-add":
                for f in sorted(flags):
                    settings.peer_flags.add(f)
            else:
                settings.peer_flags.update(set(flags))
        settings.my_peer, settings.endpoint, settings.network = node.my_peer, node.endpoint, Network()
        o = TunnelCommunity(settings)
    elif route.startswith("service"):
        from ipv8.configuration import ConfigBuilder, get_default_configuration  # noqa: PLC0415
        from ipv8_service import IPv8  # noqa: PLC0415
        key_b64 = base64.b64encode(fixtures.private_bin(node.key_index)).decode()
        if route == "service-default":
            configuration = get_default_configuration()
            configuration["logger"] = {"level": "CRITICAL"}
            for key in configuration["keys"]:
                key["file"] = ""
                key["bin"] = key_b64
        else:
            builder = ConfigBuilder().set_log_level("CRITICAL")
            alias = builder.config["keys"][0]["alias"]
            builder.add_key_from_bin(alias, key_b64)
            configuration = builder.config
        configuration["overlays"] = [ov for ov in configuration["overlays"] if ov["class"] == "HiddenTunnelCommunity"]
        for ov in configuration["overlays"]:
            ov["walkers"], ov["bootstrappers"], ov["on_start"] = [], [], []
            ov["initialize"].update(other)
            if flags is not None:
                ov["initialize"]["peer_flags"] = set(flags)
        if route == "service-builder":
            configuration = builder.finalize()
        ipv8 = IPv8(configuration, endpoint_override=node.endpoint)
        o = ipv8.overlays[0]
    else:
        from ipv8.loader import CommunityLauncher, IPv8CommunityLoader  # noqa: PLC0415
        from ipv8.messaging.anonymization.community import TunnelCommunity  # noqa: PLC0415
        from ipv8.peerdiscovery.network import Network  # noqa: PLC0415
        conf = dict(other)
        if flags is not None:
            conf["peer_flags"] = set(flags)

        class TunnelLauncher(CommunityLauncher):
            def get_overlay_class(self):  # noqa: ANN202
                return TunnelCommunity

            def get_my_peer(self, ipv8, session):  # noqa: ANN001, ANN202, ARG002
                return node.my_peer

        if route == "loader-get-kwargs":
            class KwargsLauncher(TunnelLauncher):
                def get_kwargs(self, session):  # noqa: ANN001, ANN202, ARG002
                    return dict(conf)
            launcher = KwargsLauncher()
        else:
            launcher = TunnelLauncher()
            if route == "loader-item":
                for k, v in conf.items():
                    launcher.community_kwargs[k] = v
            elif route == "loader-update":
                launcher.community_kwargs.update(conf)
            else:
                launcher.community_kwargs = dict(conf)
        provider = SimpleNamespace(endpoint=node.endpoint, network=Network(), overlays=[], strategies=[])
        loader = IPv8CommunityLoader()
        loader.set_launcher(launcher)
        loader.load(provider, SimpleNamespace())
        o = provider.overlays[0]
    _adopt(node, o)
    return o


def config_cases(thorough: bool) -> list[tuple]:
    specs = [None, *range(8)]
    pairs = [(a, b) for a in specs for b in specs]
    return [(route, a, b) for route in CONFIG_ROUTES for a, b in pairs]


def run_config(case: tuple, seed: int) -> tuple[list, tuple]:
    route, first, second = case
    viol: list = []
    # every case starts where a fresh process starts: an earlier case of this worker may have edited the class-level
    # default in place (that is exactly what the in-place routes probe for)
    from ipv8.messaging.anonymization.community import TunnelSettings  # noqa: PLC0415
    TunnelSettings._peer_flags = set(ref.DEFAULT_FLAGS)  # noqa: SLF001
    w = TunnelWorld(("c06-config", seed), {"O": set(PLAIN)}, key_offset=seed % 8)
    try:
        obs = []
        for i, (name, spec) in enumerate((("X1", first), ("X2", second))):
            node = w.add_node(name, seed % 8 + 1 + i)
            configured = None if spec is None else FLAGSETS[spec]
            w.ov[name] = node.run(_build_configured, route, node, configured)
        simnet.introduce(w, list(w.ov.values()))
        for name, spec in (("X1", first), ("X2", second)):
            policy = frozenset(ref.configured_flags(None if spec is None else FLAGSETS[spec]))
            if route in ADDITIVE_ROUTES:
                policy = frozenset(ref.DEFAULT_FLAGS | policy)      # this operator added its flags to the defaults
            which = "first" if name == "X1" else "second"
            other = second if name == "X1" else first
            try:
                inner = Inner.attach(w, name, policy)
            except HarnessError as e:
                viol.append(("harness:config-setup", f"{route}: {e}"))
                continue
            effective = set(w.ov[name].settings.peer_flags)
            desc = (f"route {route}: {which} instance configured with "
                    f"{'no peer_flags (defaults)' if spec is None else flag_str(FLAGSETS[spec])}, the other instance with "
                    f"{'no peer_flags' if other is None else flag_str(FLAGSETS[other])}; policy of this node "
                    f"{flag_str(policy)}, its settings now say {flag_str(effective)}")
            pl = outer_payloads(inner.prefix)
            row = []
            for pname in CONFIG_PAYLOADS:
                data = pl[pname]
                v = classify(data)
                want = ref.allowed(v[3], v[4], data[:22] == inner.prefix, policy)
                for d in ("out4", "in4", "in6m"):
                    emitted, problem = inner.observe(data, d)
                    row.append(emitted)
                    if (emitted != want or (emitted and problem)) and (emitted or d not in MAY_DROP):
                        kind = "emitted-forbidden" if emitted and not want else \
                            "dropped-allowed" if want and not emitted else "altered"
                        viol.append((f"config:{route}:{kind}", f"{desc}: {pname} ({data[:24].hex()}..) {d}: emitted={emitted}, "
                                                                f"this node's configuration says {want} {problem}"))
            obs.append((which, spec, tuple(row)))
        return viol, ("ran", route, tuple(obs))
    finally:
        w.close()


def run_config_cases(chunk: list) -> list:
    return [(tuple(c), *run_config(tuple(c), _SEED)) for c in chunk]


# ---------------------------------------------------------------------------------------------------------------------
# flag changes while the outside sockets are being created
# ---------------------------------------------------------------------------------------------------------------------
# The first data of a circuit enables the exit socket; the sockets are created by a task over the next loop iterations and
# packets wait in the socket's queue meanwhile.  The operator changes settings.peer_flags (F0 -> F1) before loop iteration
# k; a second batch of packets is processed in iteration a (a = 1: together with the first).  Whatever leaves a socket in iteration i must be allowed by the
# flags in force during iteration i.

WINDOW_ITERATIONS = 8        # the unchanged tree is quiescent after 5 iterations; 8 leaves room
WINDOW_BATCH_A = (("dht-ping", "ipv4"), ("ipv8-other", "ipv4"), ("ipv8-own", "ipv4"), ("bt+ipv8", "ipv4"), ("junk", "ipv4"))
WINDOW_BATCH_B = (("utp-syn", "ipv6"), ("ipv8-other", "ipv6"), ("ipv8-own", "ipv6"), ("tracker-connect", "ipv6"),
                  ("junk", "ipv6"))       # 10 packets in all = the capacity of the socket's queue


# "dns" mode: the sockets are open already (an earlier packet was exited), every packet of the two batches names a host, so
# each one waits for its own name lookup (a task of the exit socket) before it can leave; the flags change during the lookups.
WINDOW_DNS_A = tuple((p, "domain->ipv4") for p, _ in WINDOW_BATCH_A)
WINDOW_DNS_B = tuple((p, "domain->ipv6") for p, _ in WINDOW_BATCH_B)


def window_cases(thorough: bool) -> list[tuple]:
    ks = range(WINDOW_ITERATIONS)
    arrivals = (1, 2, 3, 4, 5) if thorough else (1, 3)
    out = [(f0, f1, k, a) for f0 in range(8) for f1 in range(8) if f0 != f1 for k in ks for a in arrivals]
    out += [(f0, f1, k, a, "dns") for f0 in range(8) for f1 in range(8) if f0 != f1 for k in range(6)
            for a in ((1, 2, 3) if thorough else (1, 2))]
    return out


def run_window(case: tuple, seed: int) -> tuple[list, tuple]:
    f0, f1, k, a = case[:4]
    dns = len(case) > 4 and case[4] == "dns"
    batch_a, batch_b = (WINDOW_DNS_A, WINDOW_DNS_B) if dns else (WINDOW_BATCH_A, WINDOW_BATCH_B)
    viol: list = []
    w = TunnelWorld(("c06-window", seed), {"O": set(PLAIN), "X": set(FLAGSETS[f0])}, key_offset=seed % 8)
    try:
        c = w.build_circuit("O", ["X"])
        if c.state != CIRCUIT_STATE_READY:
            return [("harness:window-setup", "circuit not ready")], ("harness",)
        x = w.ov["X"]
        prefix = x.get_prefix()
        pl = outer_payloads(prefix)
        in_force = frozenset(FLAGSETS[f0])
        desc0 = (f"flags {flag_str(FLAGSETS[f0])} -> {flag_str(FLAGSETS[f1])} before loop iteration {k + 1}, second batch of "
                 f"packets arrives in iteration {a}" + (", sockets open, every destination is a host name" if dns else ""))

        def send(batch) -> None:  # noqa: ANN001
            for pname, dn in batch:
                w.send_out("O", c, DESTS[dn][0], pl[pname])
            while w.inflight:
                w.deliver(0, settle=False)

        seen = 0
        if dns:
            w.loop.resolver.update(RESOLVER)
            # an earlier packet (allowed under every flag set that exits anything; harmless otherwise) opened the sockets
            w.nodes["X"].run(setattr, x.settings, "peer_flags", set(FLAGSETS[7]))
            w.send_out("O", c, DESTS["ipv4"][0], pl["bt+ipv8"])
            w.flush()
            w.nodes["X"].run(setattr, x.settings, "peer_flags", set(FLAGSETS[f0]))
            seen = len(w.loop.outside_log)
        emitted: list = []
        trail = []
        for i in range(1, WINDOW_ITERATIONS + 1):
            if i - 1 == k:
                w.nodes["X"].run(setattr, x.settings, "peer_flags", set(FLAGSETS[f1]))
                in_force = frozenset(FLAGSETS[f1])
            if i == 1:
                send(batch_a)
            if i == a:
                send(batch_b)
            if w.loop.has_work():
                w.loop.iteration()
            log = w.loop.outside_log
            for _, data, addr in log[seen:]:
                v = classify(data)
                own = data[:22] == prefix
                cls = ref.shape_class(v[3], v[4], own)
                emitted.append((data, tuple(addr)))
                trail.append((i, cls))
                if not ref.allowed(v[3], v[4], own, in_force):
                    viol.append((f"window:emitted-forbidden:{cls}" + ("|after-name-lookup" if dns else ""),
                                 f"{desc0}: in iteration {i}, with {flag_str(in_force)} in force, {data[:24].hex()}.. "
                                 f"(bt={v[3]} ipv8={v[4]} own prefix={own}) left towards {tuple(addr)}"))
                if ref.is_null_address(addr):
                    viol.append(("null-destination:window", f"{desc0}: emission towards {tuple(addr)}"))
            seen = len(log)
        w.flush()
        if len(w.loop.outside_log) != seen:
            viol.append(("harness:window-too-short", f"{desc0}: emissions after {WINDOW_ITERATIONS} iterations"))
        # packets allowed under both flag sets are allowed at every moment: they must have left, once
        for pname, dn in batch_a + batch_b:
            data = pl[pname]
            v = classify(data)
            own = data[:22] == prefix
            if ref.allowed(v[3], v[4], own, FLAGSETS[f0]) and ref.allowed(v[3], v[4], own, FLAGSETS[f1]):
                n = emitted.count((data, tuple(DESTS[dn][1][0])))
                if n != 1:
                    viol.append((f"window:{'dropped-allowed' if n == 0 else 'duplicated'}:{ref.shape_class(v[3], v[4], own)}"
                                 + ("|after-name-lookup" if dns else ""),
                                 f"{desc0}: {pname} to {dn} is allowed before and after the change, emitted {n} times"))
        return viol, ("ran", tuple(trail))
    finally:
        w.close()


def run_window_cases(chunk: list) -> list:
    return [(tuple(c), *run_window(tuple(c), _SEED)) for c in chunk]


def sample_checks(viols: dict) -> int:
    """Well-formed protocol samples must be recognised (the converse of the could-be direction)."""
    n = 0
    for name, data in outer_payloads(b"\x00\x02" + b"\x42" * 20).items():
        v = classify(data)
        check_shapes(data, v, viols)
        n += 1
        if name in WELL_FORMED_BT and not v[3]:
            _note(viols, "shape:bt:rejects-sample", f"well-formed BitTorrent sample {name} is not recognised",
                  {"layer": "shape", "data": data.hex()})
        if name.startswith("dht-") and ref.is_bencoded_dict(data) != (name != "dht-unterminated"):
            raise HarnessError(f"sample {name} vs reference bencode parser")
    return n


# ---------------------------------------------------------------------------------------------------------------------
# entry points
# ---------------------------------------------------------------------------------------------------------------------

def run(ctx: core.Ctx) -> core.Report:
    global _SEED, _THOROUGH
    _SEED = ctx.seed
    _THOROUGH = ctx.thorough
    viols: dict = {}

    n_samples = sample_checks(viols)

    # determinism self-check of the end-to-end layer: first and last case twice, observation logs must be equal
    cases = outer_cases(ctx.thorough)
    for case in (cases[0], cases[-1]):
        a, b = run_outer(case, _SEED), run_outer(case, _SEED)
        if a != b:
            core.eprint(f"C06: replay of {case} is not deterministic:\n {a}\n {b}")
            sys.exit(2)
    wc = window_cases(ctx.thorough)
    for case in (wc[0], wc[-1]):
        a, b = run_window(case, _SEED), run_window(case, _SEED)
        if a != b:
            core.eprint(f"C06: replay of window case {case} is not deterministic:\n {a}\n {b}")
            sys.exit(2)

    items = inner_items(ctx.thorough)
    # big items first so the pool drains evenly
    items.sort(key=lambda it: (it[0] != "plane", it[3] is None, it[1], it[2], it[3] or 0))
    res = core.pmap(run_inner_items, items, ctx.jobs, chunk=1)
    per_part: dict[str, dict] = {}
    outcomes: set = set()
    for part, n, evals, em, dr, rz, oc, v in res:
        pp = per_part.setdefault(part, {"payloads": 0, "evaluations": 0, "emitted": 0, "dropped": 0, "raised": 0})
        pp["raised"] += rz
        pp["payloads"] += n
        pp["evaluations"] += evals
        pp["emitted"] += em
        pp["dropped"] += dr
        outcomes |= oc
        for k, (what, rp) in v.items():
            _note(viols, k, what, dict(rp, seed=_SEED))
    inner_evals = sum(p["evaluations"] for p in per_part.values())
    inner_payloads = sum(p["payloads"] for p in per_part.values())

    ores = core.pmap(run_outer_cases, cases, ctx.jobs, chunk=8)
    outer_obs: set = set()
    not_built = 0
    outer_viols: dict = {}
    for case, v, obs in sorted(ores, key=lambda r: r[0]):
        if obs and obs[0] == "not-built":
            not_built += 1
        outer_obs.add(obs[6:] if obs and obs[0] == "ran" else obs)
        for key, what in v:
            if key not in outer_viols:      # cases are sorted: the first one per key is the canonical one
                outer_viols[key] = (what, {"layer": "outer", "case": list(case), "seed": _SEED})
    if not_built:
        outer_viols["harness:circuit-not-built"] = (f"{not_built} end-to-end cases could not build their circuit", None)

    # configuration routes and the flag-change window (same bookkeeping: sorted cases, first case per key is canonical)
    ccases, wcases = config_cases(ctx.thorough), window_cases(ctx.thorough)
    hcases = history_cases(ctx.thorough)
    extra_obs: dict[str, set] = {"config": set(), "window": set(), "history": set()}
    for layer, fn, lcases in (("config", run_config_cases, ccases), ("window", run_window_cases, wcases),
                              ("history", run_history_cases, hcases)):
        lres = core.pmap(fn, lcases, ctx.jobs, chunk=8)
        for case, v, obs in sorted(lres, key=lambda r: tuple(-1 if x is None else x for x in r[0])):
            extra_obs[layer].add(obs[1:] if layer in ("window", "history") else obs[2:])
            for key, what in v:
                if key not in outer_viols:
                    outer_viols[key] = (what, {"layer": layer, "case": list(case), "seed": _SEED})

    violations = [core.Violation(k, w, rp) for k, (w, rp) in sorted(viols.items())]
    # the end-to-end layer repeats the gate check: keep its verdict only where the inner layer has not already reported
    # the same direction / kind / shape class (one defect, one key)
    violations += [core.Violation(k, w, rp) for k, (w, rp) in sorted(outer_viols.items())
                   if not (k.startswith("e2e:") and ":".join(["gate", *k.split(":")[1:4]]) in viols)]

    emitted_classes = [o for o in outcomes if o[4]]
    cov = {
        "evaluations": inner_evals + len(cases) + len(ccases) * 2 * len(CONFIG_PAYLOADS) * 3
        + len(wcases) * len(WINDOW_BATCH_A + WINDOW_BATCH_B) + sum(len(c) for c in hcases),
        "distinct_nontrivial": len(outcomes) + len(outer_obs) + len(extra_obs["config"]) + len(extra_obs["window"])
        + len(extra_obs["history"]),
        "rule": "one evaluation = one packet driven through the real TunnelExitSocket of a live exit node under one flag set "
                "(inner layer: sendto / transport protocol datagram_received called directly; outer layer: one fresh "
                "world, packet sent through a real 1- or 2-hop circuit and injected from outside); distinct_nontrivial = "
                "distinct (flag set, classifier bt?, ipv8?, own prefix?, directions emitted) outcomes of the inner layer + distinct "
                "(shape class, allowed?, sockets opened, emissions, cells back, ...) observations of the outer layer + distinct "
                "per-node emission rows of the configuration-route layer + distinct (iteration, shape class) emission trails "
                "of the flag-change-window layer (there one evaluation = one packet as well)",
        "exhaustive": True,
        "samples": [{"layer": "inner", "item": list(map(str, items[0]))},
                    {"layer": "inner", "item": list(map(str, items[-1]))},
                    {"layer": "outer", "case": list(cases[0])}, {"layer": "outer", "case": list(cases[-1])}],
        "flag_sets": [flag_str(f) for f in FLAGSETS],
        "inner": {
            "parts": per_part,
            "distinct_payloads_per_item_summed": inner_payloads,
            "classifier_comparisons": inner_payloads * len(SHAPE_NAMES),
            "items": len(items),
            "outcome_classes": len(outcomes),
            "emitted_outcome_classes": len(emitted_classes),
            "lengths_grid": list(ALL_LENGTHS if ctx.thorough else THRESH),
            "lengths_plane": list(PLANE_LENGTHS) if ctx.thorough else [24],
            "directions": {"grid": list(DIRS), "grid_between_threshold_lengths": ["out4", "in4", "in6m"],
                           "plane": ["out4", "in4", "in6m"]},
            "inbound_sources": {"in4": list(SRC4), "in6": list(SRC6), "in6m": list(SRC6_MAPPED), "in6m2": list(SRC6_MAPPED2)},
            "byte0_grid": list(B0_FULL if ctx.thorough else B0_QUICK),
            "byte1_grid": list(B1_FULL if ctx.thorough else B1_QUICK),
            "byte0_byte1_plane": "all 65536 pairs",
            "templates": ["F (filler)", "P (tunnel prefix)", "Q (other community)", "P^k k=0..21 (prefix, one byte off)"],
            "filler": FILLERS[_SEED % len(FILLERS)],
        },
        "outer": {
            "cases": len(cases),
            "distinct_observations": len(outer_obs),
            "payloads": list(outer_payloads(b"\x00" * 22)) if ctx.thorough else list(QUICK_PAYLOADS),
            "destinations": {k: list(v[0]) for k, v in DESTS.items()},
            "sources": list(SOURCES),
            "hops": [1, 2],
            "circuits_not_built": not_built,
            "numeric_null_host": NULL_HOST,
        },
        "config_routes": {
            "cases": len(ccases),
            "routes": list(CONFIG_ROUTES),
            "configurations": "ordered pairs over the 8 flag sets + 'peer_flags not mentioned' (9 x 9), two nodes built in "
                              "that order in one process, each judged by its own configuration",
            "payloads": list(CONFIG_PAYLOADS),
            "directions": ["out4", "in4", "in6m"],
            "distinct_observations": len(extra_obs["config"]),
        },
        "flag_change_window": {
            "cases": len(wcases),
            "flag_pairs": "all 56 ordered pairs of different flag sets",
            "change_before_iteration": [k + 1 for k in range(WINDOW_ITERATIONS)],
            "second_batch_in_iteration": sorted({c[3] for c in wcases}),
            "packets_per_case": len(WINDOW_BATCH_A + WINDOW_BATCH_B),
            "distinct_observations": len(extra_obs["window"]),
        },
        "well_formed_samples_checked": n_samples,
    }
    return core.Report(LEVEL, cov, violations, [
        "the gate oracle takes the classifier's own verdicts as given; whether those verdicts are BitTorrent-/IPv8-shaped "
        "is the separate shape:* oracle, whose reference follows the BEPs named in the DataChecker docstrings "
        "(the statement does not define the shapes)",
        "both directions of the gate are checked (forbidden never emitted, allowed emitted) so that a run cannot pass "
        "vacuously; dropped-allowed violations have their own keys",
        "payload bytes the classifier does not inspect are a constant filler (no random remainder); lengths above 64 are "
        "65, 127, 128, 1400 only",
        "name resolution is the VirtualLoop stub; the only system fact used is that getaddrinfo maps the numeric host "
        f"{NULL_HOST!r} to 0.0.0.0 (checked at start-up with AI_NUMERICHOST)",
        "'::' port 0 and 0.0.0.0 with a non-zero port are not null addresses for this check (the statement names 0.0.0.0:0)",
        "exceptions raised by sendto/datagram_received are not violations by themselves (C03 covers the receive path)",
        "crypto primitives trusted; PythonCryptoEndpoint only",
        "datagrams from an IPv4-mapped source (::ffff:a.b.c.d) on the IPv6 socket: only 'nothing forbidden is tunnelled back' is "
        "demanded, allowed ones may be dropped or delivered (the statement does not promise delivery; the unchanged tree drops)",
        "the circuit's previous hop is the address its create came from; a node's policy is computed from the flags its own "
        "operator configured (not mentioned = the documented default RELAY+SPEED_TEST); an emission is judged by the flags "
        "in force in the loop iteration in which it leaves; after the socket is open the source of data cells is not judged "
        "(the statement only restricts what opens it)",
    ])


def replay(ctx: core.Ctx, data) -> list:  # noqa: ANN001
    global _SEED
    if not data:
        return []
    _SEED = seed = int(data.get("seed", 0))
    viols: dict = {}
    if data["layer"] == "shape":
        raw = bytes.fromhex(data["data"])
        check_shapes(raw, classify(raw), viols)
    elif data["layer"] == "setup":
        try:
            Inner(int(data["flags"]), seed).close()
        except HarnessError as e:
            return [core.Violation("harness:inner-setup", str(e))]
    elif data["layer"] == "inner":
        raw = bytes.fromhex(data["data"])
        inner = Inner(int(data["flags"]), seed)
        try:
            check_gate(inner, raw, classify(raw), data["dir"], viols)
        finally:
            inner.close()
    elif data["layer"] == "config":
        v, _ = run_config(tuple(data["case"]), seed)
        return [core.Violation(k, w) for k, w in v]
    elif data["layer"] == "window":
        v, _ = run_window(tuple(data["case"]), seed)
        return [core.Violation(k, w) for k, w in v]
    elif data["layer"] == "history":
        v, _ = run_history(tuple(data["case"]), seed)
        return [core.Violation(k, w) for k, w in v]
    else:
        v, _ = run_outer(tuple(data["case"]), seed)
        return [core.Violation(k, w) for k, w in v]
    return [core.Violation(k, w) for k, (w, _) in sorted(viols.items())]
