"""
C19 - Stored identity data survives a crash at any point.                       level: fault_enumeration

One execution = a scripted workload session on file-backed ``IdentityDatabase`` (driven through
``IdentityManager``/``PseudonymManager``) and ``AttestationsDB`` in a *separate worker process*
(mc/ref/c19_worker.py, plain library, no seams) that is SIGKILLed at one crash point, followed by a *fresh*
process that reopens both databases through the library's reload path and reports what it sees.  The parent
(this module) enumerates every crash point of every session of every workload:

  sys     the n-th pwrite/write/fsync/fdatasync/ftruncate/unlink/rename on a file below the database directory
          (LD_PRELOAD shim native/c19_crashshim.c), killed *before* the call is made or *after* it completed
  torn    a pwrite cut short at a 4 KiB page-cache boundary inside the buffer (what the kernel does when the
          fatal signal lands between two pages of one write)
  py      before / after the n-th ``Database.execute/executescript/executemany/commit`` call
  double  (thorough) after a sys crash, the recovering process (open + close) is itself killed at every one of
          its own system calls, then a third process reopens

Crash model: process kill.  Everything handed to the kernel survives, nothing is dropped or reordered; power
loss is not modelled.

Oracle (written from the statement; the acknowledged-insert log is the only input besides the observation):
  * the reopening process exits normally and both opens, all reads and both closes raise nothing;
  * ``PRAGMA integrity_check`` on each file says ok (plain sqlite3, not the library);
  * acked <= present <= begun, per table, comparing complete rows byte for byte, both as read with plain
    sqlite3 and as loaded by the library (get_tokens_for / get_credentials_for / get_all);
  * the rebuilt PseudonymManager verifies: every token path, every metadata signature, every attestation
    signature against the stored authority, no own metadata without its token.
"""
from __future__ import annotations

import atexit
import json
import os
import shutil
import subprocess
import sys

from .. import core, fixtures

LEVEL = "fault_enumeration"

VERIF = core.VERIF
SHIM_SRC = os.path.join(VERIF, "native", "c19_crashshim.c")
SHIM_SO = os.path.join(VERIF, "build", "c19_crashshim.so")
PY = "/venv/bin/python"
REPO = os.environ.get("VERIF_REPO", "/repo")
RECOVERY_SESSION = {"ops": [["open"]], "end": "close"}
QUICK_TORN = ("single", "resume", "upgrade")    # quick tears writes (first boundary) only here; thorough everywhere


class MachineryError(Exception):
    pass


# ------------------------------------------------------------------------------------------------------------
# workloads (scripted; the seed only rotates which fixture identities play owner / foreigner / authorities)
# ------------------------------------------------------------------------------------------------------------

def workloads(ctx: core.Ctx) -> list[dict]:
    keys = fixtures.rotate(ctx.seed, 4)
    w = [
        # 16 insert calls through every insert path, one session, clean close
        {"name": "single", "keys": keys, "sessions": [
            {"ops": [["open"], ["cred", "a", None, 0], ["cred", "b", "a", 1], ["content", "c", 20000],
                     ["again", "a"], ["subst", 2, 1], ["blob", "x", 300], ["blob", "y", 30000],
                     ["latecontent", "late", 700],
                     # boundary values of the record alphabet: empty / one-zero-byte content, empty blob
                     ["content", "empty", 0], ["content", "nul", -1], ["blob", "void", 0]],
             "end": "close"}]},
        # the first process dies without closing (WAL left behind), the second one recovers and goes on
        {"name": "resume", "keys": keys, "double": True, "sessions": [
            {"ops": [["cred", "a", None, 0], ["blob", "x", 2000]], "end": "abandon"},
            {"ops": [["cred", "b", "a", 1], ["blob", "z", 9000], ["content", "d", 9000],
                     # valid chain tokens whose metadata is rejected: the token alone is stored (and acknowledged)
                     ["badcred", "e", "b", "badsig"], ["blob", "z2", 300], ["badcred", "f", "e", "wrongptr"],
                     ["blob", "z3", 300]], "end": "close"}]},
        # a version-1 wallet file (fabricated, "setup" sessions are not crash-enumerated) is upgraded on open
        {"name": "upgrade", "keys": keys, "double": True, "sessions": [
            {"ops": [["legacy", ["old1", "old2"], 3000]], "end": "abandon", "setup": True},
            {"ops": [["blob", "new", 500]], "end": "close"}]},
        # the application batches through ``with database:`` (Database.__enter__/__exit__, IgnoreCommits): a block
        # left normally, one ended by IgnoreCommits, one aborted by an application error the caller catches, nested
        # blocks - each followed by ordinary inserts, on both databases.  The process is never closed cleanly.
        {"name": "batching", "keys": keys, "sessions": [
            {"ops": [["open"],
                     ["with", "identity", "ok", [["cred", "a", None, 0]]],
                     ["with", "wallet", "ok", [["blob", "w1", 300]]],
                     ["with", "identity", "ignore", [["cred", "b", "a", None]]],
                     ["cred", "c", "a", None],
                     ["with", "wallet", "ignore", [["blob", "w2", 300]]],
                     ["blob", "w3", 300],
                     ["with", "identity", "error", [["cred", "d", "a", None]]],
                     ["cred", "e", "c", None],
                     ["with", "wallet", "error", [["blob", "w4", 300]]],
                     ["blob", "w5", 9000],
                     ["with", "identity", "ok", [["cred", "f", "e", None],
                                                 ["with", "identity", "ok", [["cred", "g", "f", 1]]],
                                                 ["cred", "h", "g", None]]],
                     ["with", "wallet", "ok", [["blob", "w6", 300], ["with", "wallet", "ok", [["blob", "w7", 300]]]]]],
             "end": "abandon"}]},
        # records arrive through the real IdentityCommunity packet handlers, in the first session of the file: we
        # attest for a solicited subject (on_disclosure: metadata + our attestation), a wallet insert as an idle
        # moment of the identity database, a disclosure with a garbage tail (the handler raises after the metadata
        # insert), another idle moment, then we are the subject and receive an attestation (on_attest)
        {"name": "network", "keys": keys, "sessions": [
            {"ops": [["net_attest", "n1"], ["blob", "i1", 300], ["net_garbage", "n2"], ["blob", "i2", 300],
                     ["net_subject", "n3"], ["content", "empty", 0]], "end": "abandon"}]},
        # two connections of one process to an existing wallet file (the pseudonyms of a CommunicationManager share their
        # working directory), writing in turn; never closed
        {"name": "two-connections", "keys": keys, "double": True, "sessions": [
            {"ops": [["blob", "w0", 300]], "end": "close", "setup": True},
            {"ops": [["blob", "a1", 300], ["blob", "a2", 300], ["blob2", "b1", 300], ["blob", "a3", 300],
                     ["blob2", "b2", 300], ["blob2", "b3", 300]], "end": "abandon"}]},
        # several inserts on both databases issued within one iteration of a running asyncio loop; never closed
        {"name": "one-iteration", "keys": keys, "sessions": [
            {"ops": [["cred", "a", None, 0], ["cred", "b", "a", 1], ["blob", "x", 300], ["blob", "y", 300],
                     ["content", "c", 300]], "end": "abandon", "loop": True}]},
        # wallet rows written by the real AttestationCommunity.on_attestation_complete with an application completion
        # callback that returns / raises, each followed by identity-database traffic only; never closed
        {"name": "callbacks", "keys": keys, "sessions": [
            {"ops": [["complete", "k1", 300, "ok"], ["cred", "a", None, 0], ["complete", "k2", 300, "raises"],
                     ["cred", "b", "a", None], ["content", "empty", 0]], "end": "abandon"}]},
        # a pseudonym with more tokens than TokenTree.unchained holds (100): 135 credentials in chain order are
        # set-up (a "setup" session is run, not crash-enumerated); three more are added under full enumeration, and
        # every reopen (including the recovering session's own) rebuilds the 135+ token tree
        {"name": "long-chain", "keys": keys, "skip_py_reads": True, "sessions": [
            {"ops": [["chain", 135]], "end": "close", "setup": True},
            {"ops": [["cred", "x1", "c134", None], ["cred", "x2", "x1", 0], ["cred", "x3", "x2", None]],
             "end": "abandon"}]},
    ]
    if ctx.thorough:
        w += [
            # three generations: close / abandon / close, the tree grows over process boundaries
            {"name": "generations", "keys": keys, "sessions": [
                {"ops": [["cred", "a", None, 0], ["blob", "p", 100]], "end": "close"},
                {"ops": [["cred", "b", "a", None], ["subst", 1, 1], ["blob", "q", 17000]], "end": "abandon"},
                {"ops": [["cred", "c", "b", 1], ["again", "c"], ["content", "e", 40000], ["blob", "r", 100]],
                 "end": "close"}]},
            # enough WAL traffic to cross the 1000-frame auto-checkpoint inside one session
            {"name": "autocheckpoint", "keys": keys, "modes": ["before"], "sessions": [
                {"ops": [["open"], ["cred", "a", None, 0]] + [["blob", "big%d" % i, 150000] for i in range(56)]
                 + [["cred", "b", "a", 1]], "end": "close"}]},
        ]
    return w


# ------------------------------------------------------------------------------------------------------------
# plumbing: shim, scratch, sub-processes
# ------------------------------------------------------------------------------------------------------------

def ensure_shim() -> None:
    if os.path.exists(SHIM_SO) and os.path.getmtime(SHIM_SO) >= os.path.getmtime(SHIM_SRC):
        return
    os.makedirs(os.path.dirname(SHIM_SO), exist_ok=True)
    tmp = f"{SHIM_SO}.{os.getpid()}.tmp"
    r = subprocess.run(["gcc", "-O2", "-shared", "-fPIC", "-o", tmp, SHIM_SRC, "-ldl"],  # noqa: S603, S607
                       capture_output=True, text=True)
    if r.returncode != 0:
        raise MachineryError("cannot compile the crash shim:\n" + r.stderr[-2000:])
    os.replace(tmp, SHIM_SO)


_ROOT: str | None = None
_COUNTER = 0


def scratch_root() -> str:
    global _ROOT
    if _ROOT is None:
        parent = os.path.join(VERIF, "build", "scratch")
        os.makedirs(parent, exist_ok=True)
        for name in os.listdir(parent):     # left behind by a run that was itself killed
            if name.startswith("c19-") and name[4:].isdigit() and not os.path.exists(f"/proc/{name[4:]}"):
                shutil.rmtree(os.path.join(parent, name), ignore_errors=True)
        _ROOT = os.path.join(parent, f"c19-{os.getpid()}")
        shutil.rmtree(_ROOT, ignore_errors=True)
        os.makedirs(_ROOT)
        atexit.register(cleanup)
    return _ROOT


def cleanup() -> None:
    global _ROOT
    if _ROOT is not None:
        shutil.rmtree(_ROOT, ignore_errors=True)
        _ROOT = None


def new_dir(tag: str) -> str:
    global _COUNTER
    _COUNTER += 1
    d = os.path.join(scratch_root(), f"{tag}-{os.getpid()}-{_COUNTER}")
    os.makedirs(os.path.join(d, "db"))
    return d


def clone(src: str, tag: str) -> str:
    global _COUNTER
    _COUNTER += 1
    d = os.path.join(scratch_root(), f"{tag}-{os.getpid()}-{_COUNTER}")
    shutil.copytree(src, d)
    return d


def base_env() -> dict:
    env = {k: v for k, v in os.environ.items() if not k.startswith(("C19_", "LD_PRELOAD"))}
    env.update(PYTHONPATH=VERIF, PYTHONHASHSEED="0", PYTHONDONTWRITEBYTECODE="1", VERIF_REPO=REPO)
    return env


def spec_json(w: dict, session: int) -> str:
    return json.dumps({"keys": w["keys"], "sessions": w["sessions"] + [RECOVERY_SESSION], "session": session})


def run_worker(rundir: str, w: dict, session: int, crash: dict | None, trace: bool = False) -> dict:
    """Run one session in a worker process; crash = {"kind","n","mode","torn"} or None."""
    env = base_env()
    env["LD_PRELOAD"] = SHIM_SO
    env["C19_SCRATCH"] = os.path.join(rundir, "db")
    if trace:
        env["C19_TRACE"] = os.path.join(rundir, "trace.log")
    if crash is not None:
        if crash["kind"] == "py":
            env["C19_PYKILL_AT"] = str(crash["n"])
            env["C19_PYKILL_MODE"] = crash["mode"]
        else:
            env["C19_KILL_AT"] = str(crash["n"])
            env["C19_KILL_MODE"] = crash["mode"]
            env["C19_TORN_INDEX"] = str(crash.get("torn") or 1)
    r = subprocess.run([PY, "-m", "mc.ref.c19_worker", "run", rundir, spec_json(w, session)],  # noqa: S603
                       env=env, capture_output=True, text=True, timeout=300, cwd=VERIF)
    out = {"rc": r.returncode, "stderr": r.stderr[-1500:]}
    if r.returncode == 0:
        try:
            out.update(json.loads(r.stdout))
        except ValueError as e:
            raise MachineryError(f"worker produced no report: {r.stdout[-300:]!r} {r.stderr[-600:]!r}") from e
    return out


def run_check(rundir: str, w: dict) -> tuple[int, dict | None, str]:
    r = subprocess.run([PY, "-m", "mc.ref.c19_worker", "check", rundir, spec_json(w, 0)],  # noqa: S603
                       env=base_env(), capture_output=True, text=True, timeout=300, cwd=VERIF)
    obs = None
    if r.returncode == 0:
        try:
            obs = json.loads(r.stdout)
        except ValueError:
            obs = None
    return r.returncode, obs, r.stderr[-1500:]


def read_log(rundir: str) -> list[dict]:
    path = os.path.join(rundir, "ack.log")
    if not os.path.exists(path):
        return []
    out = []
    with open(path, "rb") as f:
        for line in f.read().split(b"\n"):
            if line:
                out.append(json.loads(line))     # the log is written with single os.write calls of whole lines
    return out


def read_trace(rundir: str) -> list[dict]:
    out = []
    path = os.path.join(rundir, "trace.log")
    if not os.path.exists(path):
        raise MachineryError("the crash shim wrote no trace: LD_PRELOAD did not take effect")
    with open(path) as f:
        for line in f:
            n, call, rel, size, off = line.split()
            out.append({"n": int(n), "call": call, "file": rel, "size": int(size), "off": int(off)})
    return out


def disk_state(rundir: str) -> tuple:
    db = os.path.join(rundir, "db")
    out = []
    for root, _, files in os.walk(db):
        for f in files:
            p = os.path.join(root, f)
            out.append((os.path.relpath(p, db), os.path.getsize(p)))
    return tuple(sorted(out))


# ------------------------------------------------------------------------------------------------------------
# the oracle
# ------------------------------------------------------------------------------------------------------------

TABLES = {"Tokens": "identity", "Metadata": "identity", "Attestations": "identity", "attestations": "wallet"}


def ledger(events: list[dict]) -> tuple[dict, dict, tuple | None]:
    """acked rows, begun rows (per table) and the last begun-but-unacknowledged insert at the time of the kill."""
    begun = {t: set() for t in TABLES}
    acked = {t: set() for t in TABLES}
    open_: dict[int, tuple] = {}        # insert number within the session -> (table, row), not yet acknowledged
    for ev in events:
        if ev["e"] == "B":
            open_[ev["i"]] = (ev["t"], tuple(ev["row"]))
            begun[ev["t"]].add(tuple(ev["row"]))
        elif ev["e"] == "A":
            for i in ev["i"]:
                t, row = open_.pop(i)
                if t == "Tokens":
                    # one token, two forms: the record that carries the content is the complete one and supersedes
                    # the hash-only form of the same token (same key, previous hash, signature, content hash),
                    # whichever was acknowledged first
                    if row[4] is not None:
                        acked[t].discard((*row[:4], None))
                    elif any(r[:4] == row[:4] and r[4] is not None for r in acked[t]):
                        continue
                acked[t].add(row)
        elif ev["e"] == "S":
            open_ = {}          # a new process: whatever was unacknowledged in the previous one stays that way
    pending = open_[max(open_)] if open_ else None
    return acked, begun, pending


def short(row: tuple) -> str:
    return "(" + ", ".join("NULL" if c is None else (c[:10] + (".." if len(c) > 10 else "")) for c in row) + ")"


def oracle(events: list[dict], rc: int, obs: dict | None, stderr: str) -> tuple[list, dict]:
    acked, begun, pending = ledger(events)
    v: list = []
    info = {"acked": sum(len(s) for s in acked.values()), "in_progress": pending[0] if pending else None,
            "in_progress_visible": None}
    if rc != 0 or obs is None:
        last = stderr.strip().splitlines()[-1] if stderr.strip() else ""
        v.append((f"reopen-process-died:rc={rc}", f"the reopening process exited with {rc}: {last[:300]}"))
        return v, info

    def compare(view: str, table: str, rows: list) -> bool:
        have = {tuple(r) for r in rows}
        lost = acked[table] - have
        if table == "Tokens":
            # an acknowledged hash-only token is present when the stored row of that token has gained its content
            # meanwhile (an insert of the complete form was in progress when the process died; alien rows are judged below)
            lost = {r for r in lost if not (r[4] is None and any(h[:4] == r[:4] for h in have))}
        alien = have - begun[table]
        if lost:
            v.append((f"acked-record-lost:{table}:{view}",
                      f"{len(lost)} record(s) of {table} whose insert call had returned are not in the reopened "
                      f"database ({view} view), e.g. {short(sorted(lost, key=repr)[0])}"))
        if alien:
            v.append((f"unknown-or-partial-record:{table}:{view}",
                      f"{len(alien)} row(s) of {table} visible after reopening ({view} view) are not a complete "
                      f"record of the workload, e.g. {short(sorted(alien, key=repr)[0])}"))
        if view == "file" and pending and pending[0] == table:
            info["in_progress_visible"] = pending[1] in have
        return not lost and not alien

    # Per database the checks are tiered, so that one root cause gives one key: cannot open > file damaged >
    # cannot read/close > rows in the file > rows as the library loads them > pseudonym verification.
    for db in ("identity", "wallet"):
        o, raw = obs[db], obs["raw_" + db]
        tables = [t for t, d in TABLES.items() if d == db]

        def failed(phase: str) -> bool:
            res = o.get(phase)
            if res is None or res == "ok":
                return False
            exc = res.split(":")[0]
            where = res.rsplit("@", 1)[-1].strip()
            v.append((f"reopen-{phase}-failed:{db}:{exc}@{where}", f"{db} database: {phase} raised {res}"))
            return True

        if not raw.get("exists"):
            for t in tables:        # the kill came before the file was created: nothing can have been acknowledged
                compare("file", t, [])
            continue
        if failed("open"):
            continue
        if raw.get("error") or raw.get("integrity") != ["ok"]:
            v.append((f"file-damaged:{db}", f"plain sqlite3 on the {db} file after the library reopened and closed it: "
                      f"{raw.get('error') or raw.get('integrity')!r}"[:400]))
            continue
        file_ok = {t: compare("file", t, raw.get(t, [])) for t in tables}
        if failed("read") | failed("close"):
            continue
        if db == "identity":
            for t, field in (("Tokens", "tokens"), ("Metadata", "metadata"), ("Attestations", "attestations")):
                if file_ok[t]:
                    compare("library", t, o["own"][field] + o["foreign"][field])
            if all(file_ok.values()):
                allbad = o["own"]["bad"] + o["foreign"]["bad"]
                for b in sorted({b.split(":")[0] for b in allbad}):
                    v.append((f"pseudonym-does-not-verify:{b}", f"rebuilt pseudonym fails verification: {allbad[:4]}"))
                if o["own"]["dangling_metadata"]:
                    v.append(("pseudonym-does-not-verify:metadata-without-token", "own metadata whose token is not in "
                              f"the rebuilt tree: {o['own']['dangling_metadata'][:4]}"))
        elif file_ok["attestations"]:
            compare("library", "attestations", o["rows"])
            if o["by_hash_mismatch"]:
                v.append(("wallet-lookup-by-hash", f"get_attestation_by_hash disagrees with get_all for "
                          f"{o['by_hash_mismatch'][:4]}"))
    return v, info


# ------------------------------------------------------------------------------------------------------------
# executing one crash scenario
# ------------------------------------------------------------------------------------------------------------

def describe(crash: dict) -> str:
    s = f"{crash['kind']}#{crash['n']}:{crash['mode']}"
    if crash["mode"] == "torn":
        s += f"@{crash['torn']}"
    if crash.get("site"):
        s += f"[{crash['site']}]"
    return s


def crash_once(rundir: str, w: dict, session: int, crash: dict) -> None:
    r = run_worker(rundir, w, session, crash)
    if r["rc"] != -9:
        raise MachineryError(f"workload {w['name']} session {session}: crash point {describe(crash)} was not "
                             f"reached (worker exit {r['rc']}); the number of crash points is not reproducible. "
                             f"{r['stderr'][-400:]}")


def judge(rundir: str, w: dict) -> tuple[list, dict, tuple]:
    state = disk_state(rundir)
    rc, obs, stderr = run_check(rundir, w)
    v, info = oracle(read_log(rundir), rc, obs, stderr)
    return v, info, state


def execute(template: str, w: dict, session: int, chain: list[dict]) -> list[dict]:
    """
    Run a crash chain starting from the template state (sessions < ``session`` completed).  chain[0] kills the
    workload session; an optional chain[1] kills the recovery session that follows.  Returns one result per check.
    """
    results = []
    rundir = clone(template, "run")
    try:
        crash_once(rundir, w, session, chain[0])
        if len(chain) == 1:
            v, info, state = judge(rundir, w)
            results.append({"chain": chain, "violations": v, "info": info, "state": state})
        else:
            rec = len(w["sessions"])        # index of RECOVERY_SESSION in the spec
            if chain[1]["n"] == "all":
                probe = clone(rundir, "probe")
                try:
                    r = run_worker(probe, w, rec, None, trace=True)
                    if r["rc"] != 0:
                        # the recovering process itself fails: that is the single-crash verdict, reported there
                        seconds = []
                    else:
                        seconds = [{"kind": "sys", "n": t["n"], "mode": "before", "torn": 0,
                                    "site": f"{t['call']} {t['file']}"} for t in read_trace(probe)]
                finally:
                    shutil.rmtree(probe, ignore_errors=True)
            else:
                seconds = [chain[1]]
            for second in seconds:
                d2 = clone(rundir, "run2")
                try:
                    crash_once(d2, w, rec, second)
                    v, info, state = judge(d2, w)
                    results.append({"chain": [chain[0], second], "violations": v, "info": info, "state": state})
                finally:
                    shutil.rmtree(d2, ignore_errors=True)
    finally:
        shutil.rmtree(rundir, ignore_errors=True)
    return results


_PLAN: dict = {}        # (workload index, session) -> {"w":…, "template":…}; filled before the pool forks


def _pool_fn(chunk: list) -> list:
    out = []
    for wi, session, chain in chunk:
        p = _PLAN[(wi, session)]
        try:
            for r in execute(p["template"], p["w"], session, chain):
                r.update(wi=wi, session=session)
                out.append(r)
        except MachineryError as e:
            out.append({"wi": wi, "session": session, "chain": chain, "machinery": str(e)})
    return out


# ------------------------------------------------------------------------------------------------------------
# planning: templates, measuring runs, the list of crash points
# ------------------------------------------------------------------------------------------------------------

def prepare(w: dict, session: int) -> dict:
    """
    Template = state after the sessions before ``session``; then one unkilled, traced run of the session.

    A session that fails although nobody killed it (the worker exits with a Python exception) is not a machinery
    problem but a tree that misbehaves, typically because an earlier session's records are gone: the directory is
    judged by the normal oracle and the session is not crash-enumerated (``failed`` says why).
    """
    template = new_dir("tmpl")

    def gave_up(s: int, rundir: str, r: dict) -> dict:
        v, info, _ = judge(rundir, w)
        last = (r["stderr"].strip().splitlines() or ["?"])[-1]
        if not v:
            v = [(f"session-failed:{last.split(':')[0][:40]}", f"session {s} of the workload cannot be carried out "
                  f"although nothing was killed: {last[:300]}")]
        else:
            v = [(k, f"{what} [noticed because session {s} then failed with: {last[:160]}]") for k, what in v]
        return {"w": w, "template": template, "trace": [], "py_trace": [], "baseline_violations": v,
                "inserts": 0, "baseline_acked": info["acked"], "failed": f"session {s}: {last[:200]}"}

    for s in range(session):
        r = run_worker(template, w, s, None)
        if r["rc"] != 0:
            return gave_up(s, template, r)
    probe = clone(template, "measure")
    try:
        r = run_worker(probe, w, session, None, trace=True)
        if r["rc"] != 0:
            return gave_up(session, probe, r)
        trace = read_trace(probe)
        v, info, _ = judge(probe, w)
        events = read_log(probe)
    finally:
        shutil.rmtree(probe, ignore_errors=True)
    return {"w": w, "template": template, "trace": trace, "py_trace": r["py_trace"], "baseline_violations": v,
            "inserts": sum(1 for e in events if e["e"] == "B"), "baseline_acked": info["acked"]}


def torn_points(t: dict) -> int:
    """Number of 4 KiB file-offset boundaries strictly inside a pwrite."""
    if t["call"] != "pwrite" or t["off"] < 0:
        return 0
    first = (t["off"] // 4096 + 1) * 4096
    end = t["off"] + t["size"]
    return max(0, (end - 1 - first) // 4096 + 1) if first < end else 0


def plan_items(ctx: core.Ctx, wi: int, session: int, p: dict) -> list:
    w = p["w"]
    modes = w.get("modes") or (["before", "after"] if ctx.thorough else ["before"])
    items = []
    trace = p["trace"]
    for t in trace:
        site = f"{t['call']} {t['file']}"
        for mode in modes:
            items.append((wi, session, [{"kind": "sys", "n": t["n"], "mode": mode, "torn": 0, "site": site}]))
        if "modes" not in w:
            for j in range(1, torn_points(t) + 1):
                if ctx.thorough or (j == 1 and w["name"] in QUICK_TORN):
                    items.append((wi, session, [{"kind": "sys", "n": t["n"], "mode": "torn", "torn": j, "site": site}]))
    if trace and "after" not in modes:
        t = trace[-1]
        items.append((wi, session, [{"kind": "sys", "n": t["n"], "mode": "after", "torn": 0,
                                     "site": f"{t['call']} {t['file']}"}]))
    for n, what in enumerate(p["py_trace"], 1):
        if w.get("skip_py_reads") and what.startswith("execute:SELECT"):
            continue        # the 135 reads of the reload; the disk cannot differ from the neighbouring points
        for mode in ("before", "after"):
            items.append((wi, session, [{"kind": "py", "n": n, "mode": mode, "torn": 0, "site": what}]))
    if ctx.thorough and w.get("double"):
        for t in trace:
            items.append((wi, session, [{"kind": "sys", "n": t["n"], "mode": "before", "torn": 0,
                                         "site": f"{t['call']} {t['file']}"},
                                        {"kind": "sys", "n": "all", "mode": "before", "torn": 0}]))
    return items


def order_key(r: dict) -> tuple:
    return (r["wi"], r["session"], len(r["chain"]),
            tuple((c["kind"], c["n"] if isinstance(c["n"], int) else -1, c["mode"], c["torn"]) for c in r["chain"]))


# ------------------------------------------------------------------------------------------------------------
# entry points
# ------------------------------------------------------------------------------------------------------------

def run(ctx: core.Ctx) -> core.Report:
    try:
        return _run(ctx)
    except MachineryError as e:
        core.eprint(f"C19: machinery failure: {e}")
        cleanup()
        sys.exit(2)
    except Exception:  # noqa: BLE001
        import traceback
        core.eprint("C19: machinery failure:\n" + traceback.format_exc())
        cleanup()
        sys.exit(2)
    finally:
        cleanup()


def _run(ctx: core.Ctx) -> core.Report:
    ensure_shim()
    ws = workloads(ctx)
    violations: dict[str, core.Violation] = {}
    items: list = []
    per_workload = []
    _PLAN.clear()
    for wi, w in enumerate(ws):
        for session in range(len(w["sessions"])):
            if w["sessions"][session].get("setup"):
                continue
            p = prepare(w, session)
            _PLAN[(wi, session)] = p
            for key, what in p["baseline_violations"]:
                violations.setdefault("no-crash:" + key, core.Violation(
                    "no-crash:" + key, f"[{w['name']} session {session}, no kill injected (the session ends with "
                                       f"{w['sessions'][session].get('end', 'close')!r})] {what}",
                    {"workload": w, "session": session, "chain": []}))
            mine = plan_items(ctx, wi, session, p)
            items += mine
            per_workload.append({"workload": w["name"], "session": session, "end": w["sessions"][session].get("end"),
                                 "insert_calls": p["inserts"], "syscall_points": len(p["trace"]),
                                 "python_points": len(p["py_trace"]), "planned_chains": len(mine),
                                 **({"not_enumerated_because": p["failed"]} if p.get("failed") else {})})
    # doubles are long: one per chunk, scheduled first
    doubles = [i for i in items if len(i[2]) == 2]
    singles = [i for i in items if len(i[2]) == 1]
    results = []
    with core.Pool(_pool_fn, ctx.jobs, maxtasks=None) as pool:
        for res in pool.map_chunks([[d] for d in doubles] + core.chunks(singles, 4)):
            results.extend(res)
    broken = [r for r in results if "machinery" in r]
    if broken:
        raise MachineryError(broken[0]["machinery"])
    results.sort(key=order_key)

    by_kind: dict[str, int] = {}
    by_site: dict[str, int] = {}
    outcome = {"no_insert_in_progress": 0, "in_progress_record_visible": 0, "in_progress_record_absent": 0}
    states = set()
    counts: dict[str, dict] = {}
    for r in results:
        w = ws[r["wi"]]
        kind = "+".join(f"{c['kind']}-{c['mode']}" for c in r["chain"])
        by_kind[kind] = by_kind.get(kind, 0) + 1
        site = r["chain"][-1].get("site", "?")
        site = site if r["chain"][-1]["kind"] == "sys" else "py:" + site.split(":")[0]
        by_site[site] = by_site.get(site, 0) + 1
        vis = r["info"]["in_progress_visible"]
        outcome["no_insert_in_progress" if r["info"]["in_progress"] is None or vis is None else
                "in_progress_record_visible" if vis else "in_progress_record_absent"] += 1
        states.add(core.digest((w["name"], r["session"], r["state"], r["info"]["acked"], vis)))
        for key, what in r["violations"]:
            c = counts.setdefault(key, {"executions": 0, "sessions": set()})
            c["executions"] += 1
            c["sessions"].add(f"{w['name']}/{r['session']}")
            if key not in violations:
                where = f"{w['name']} session {r['session']}, killed at " + " then ".join(describe(c) for c in r["chain"])
                violations[key] = core.Violation(key, f"[{where}; {r['info']['acked']} inserts acknowledged] {what}",
                                                 {"workload": w, "session": r["session"], "chain": r["chain"]})
    for key in [k for k in violations if "no-crash:" + k in violations]:
        del violations[key]     # the same thing already happens without any crash; reported once, as no-crash
    samples = [{"workload": ws[r["wi"]]["name"], "session": r["session"],
                "killed_at": [describe(c) for c in r["chain"]], "acknowledged_inserts": r["info"]["acked"],
                "insert_in_progress": r["info"]["in_progress"],
                "in_progress_record_visible_after_reopen": r["info"]["in_progress_visible"],
                "files_after_kill": [list(f) for f in r["state"]]}
               for r in (results[len(results) // 3], results[len(results) // 2], results[-1])] if results else []
    cov = {
        "evaluations": len(results),
        "distinct_nontrivial": len(states),
        "rule": "one evaluation = worker process really SIGKILLed at the crash point (exit status -9 verified), then "
                "a fresh process reopens both databases and the oracle runs; crash points are enumerated from a "
                "traced unkilled run of the same session, every one of them is executed. distinct_nontrivial = "
                "number of distinct (workload, session, database files and their sizes right after the kill, number "
                "of acknowledged inserts, whether the in-progress record is visible after reopening) tuples",
        "samples": samples,
        "exhaustive": True,
        "exclusions": "workload long-chain: Python-level points at SELECT statements (the per-credential reads of the "
                      "reload) are not executed, every other Python-level point and every system-call point is; "
                      "sessions marked setup are run but not crash-enumerated",
        "workloads": [{"name": w["name"], "sessions": w["sessions"]} for w in ws],
        "per_session": per_workload,
        "executions_by_kind": dict(sorted(by_kind.items())),
        "executions_by_kill_site": dict(sorted(by_site.items())),
        "outcomes": outcome,
        "violating_executions_by_key": {k: {"executions": c["executions"], "sessions": sorted(c["sessions"])}
                                        for k, c in sorted(counts.items())},
        "fixture_keys": ws[0]["keys"],
        "crash_model": "process kill (SIGKILL); the kernel keeps everything already written; no power loss",
    }
    return core.Report(LEVEL, cov, list(violations.values()), [
        "process-kill crash model only: nothing handed to the kernel is lost or reordered (no power loss, no fsync lies)",
        "SQLite itself, the kernel and the file system are trusted; the -shm file is written through mmap and is not a "
        "crash point (SQLite rebuilds it)",
        "wallet attestation objects and secret keys are byte-string stand-ins: AttestationsDB only calls "
        "serialize_private() / serialize() on them",
        "at most one attestation per (subject, metadata) is inserted, because the Attestations table's primary key "
        "(public_key, metadata_pointer) makes INSERT OR IGNORE drop a second authority's attestation even without a "
        "crash; that is not a crash-safety matter and is not judged here",
        "torn writes are cut only at 4 KiB page-cache boundaries" + ("" if ctx.thorough else
                                                                     f" (quick: first boundary, workloads {QUICK_TORN})"),
        "the acknowledgement is logged after each IdentityDatabase.insert_* / AttestationsDB.insert_attestation call "
        "returns (class-level wrapper in the worker), which is the granularity the statement uses",
    ])


def replay(ctx: core.Ctx, data: dict) -> list:
    try:
        ensure_shim()
        w, session, chain = data["workload"], data["session"], data["chain"]
        p = prepare(w, session)
        out = []
        if not chain or p.get("failed"):
            out = [core.Violation("no-crash:" + k, what) for k, what in p["baseline_violations"]]
        else:
            for r in execute(p["template"], w, session, chain):
                out += [core.Violation(k, f"[killed at {' then '.join(describe(c) for c in r['chain'])}] {what}")
                        for k, what in r["violations"]]
        return out
    except MachineryError as e:
        core.eprint(f"C19: machinery failure: {e}")
        sys.exit(2)
    finally:
        cleanup()
