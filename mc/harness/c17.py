"""
C17 - Identity attestations and token disclosure require the owner's consent.

Three real ``IdentityCommunity`` nodes (attester T, honest subject B, dishonest subject D; fixture keys, in-memory
databases, verified peers of each other) on SimNet.  Explicit-state BFS (the discipline of ``core.bfs``, own driver
that also collects per-transition statistics) over histories of user actions
(registrations, attestation requests, self-advertisements), virtual time steps, and adversarial traffic (replayed
disclosures from either address, a stolen chain re-disclosed under another signature, token requests from permitted
and unpermitted peers, forged / third-party / altered attestations).  Every datagram a node sends is judged, at the
moment it is sent, by the consent table reference in ``mc/ref/c17_consent.py``; every ``Attestations`` row of every
database is re-verified after every event.
"""
from __future__ import annotations

import json
import struct
import os
import traceback
from dataclasses import dataclass

from ipv8.attestation.communication_manager import CommunicationChannel
from ipv8.attestation.default_identity_formats import FORMATS
from ipv8.attestation.identity.community import IdentityCommunity, IdentitySettings
from ipv8.attestation.identity.manager import IdentityManager
from ipv8.attestation.identity.metadata import Metadata
from ipv8.attestation.wallet.bonehexact.algorithm import BonehExactAlgorithm
from ipv8.attestation.wallet.community import AttestationCommunity, AttestationSettings
from ipv8.attestation.identity.payload import (
    AttestPayload,
    DisclosePayload,
    MissingResponsePayload,
    RequestMissingPayload,
)
from ipv8.messaging.payload_headers import BinMemberAuthenticationPayload
from ipv8.peer import Peer

from .. import core, fixtures, seams, simnet
from ..ref import c17_consent as refm

LEVEL = "model_checking"

NODES = ("T", "B", "D")
HASHES = [bytes([0x11]) * 32, bytes([0x22]) * 32]
NAMES = ["n1", "n2"]
EXTRA = {"k": "v"}
# add_known_hash metadata alphabet: not fixed / fixed to {"k":"v"} / fixed to "exactly no extra fields" (boundary: {})
REG_MD = [None, EXTRA, {}]
# extra metadata a subject puts into its credential: none / {"k":"v"} / a superset of it
REQ_EXTRA = [None, EXTRA, {"k": "v", "role": "admin"}]
# hand-crafted dishonest disclosures of D: what is wrong with the disclosure x which attestations ride along
DIS_DEFECTS = ["forged-token-signature", "token-of-another-key", "altered-metadata-signature"]
DIS_ATTS = ["none", "valid-last", "forged-first-valid-last"]
# consent route (b): the subject asks through its CommunicationChannel, the attester's user accepts the outstanding request
CH_NAME = "n1"
CH_FORMAT = "id_metadata"
CH_REQUEST_MD = [{}, EXTRA]                                   # metadata of the request the attester's user is shown
CH_SWAP_MD = [{}, EXTRA, {"k": "v", "role": "admin"}]         # what a dishonest subject advertises instead
SHA1_PAD = b"SHA-1" + bytes(7)                                # documented padding of 20-byte attribute hashes

_CHANNEL_KEY = None


def channel_key():  # noqa: ANN201
    """
    One Boneh secret key per process for all channel requests (key generation costs ~0.2 s and is not what is explored).
    Generated under a fixed seed, outside any world, before workers fork.
    """
    global _CHANNEL_KEY
    if _CHANNEL_KEY is None:
        seams.reseed(("c17-channel-key",))
        _CHANNEL_KEY = BonehExactAlgorithm(CH_FORMAT, FORMATS).generate_secret_key()
    return _CHANNEL_KEY
FAKE_POINTER = bytes([0xFA]) * 32
PAYLOADS = {1: DisclosePayload, 2: AttestPayload, 3: RequestMissingPayload, 4: MissingResponsePayload}
KIND = {1: "disclose", 2: "attest", 3: "request-missing", 4: "missing-response"}
DELIVERY_CAP = 64      # datagrams per event; never reached on the explored space (measured, reported)
EXPIRED = 301.0        # age bucket: anything older than 300 s can never be signed for again

EXPLANATION = (
    "BFS over histories of user actions (T.add_known_hash, B/D.request_attestation_advertisement, B.self_advertise; in "
    "config 'fields' the registration metadata ranges over None / {k:v} / {} and the credential's extra fields over "
    "none / {k:v} / a superset), "
    "virtual time steps (299 s / 301 s) and adversarial datagrams (replay of a recorded disclosure from its own or the "
    "other subject's address, B's chain re-disclosed under D's signature, RequestMissing from T / D, attest messages "
    "that are valid, third-party signed, address-spoofed or altered, a disclosure that carries the subject's own "
    "attestation over the disclosed metadata, a second differently dated metadata object over an already "
    "disclosed token) on three real IdentityCommunity nodes; after every "
    "event the network is drained FIFO and every AttestPayload / MissingResponsePayload a real node sends is judged by "
    "the consent-table reference at the moment it is sent; every Attestations row of every database is re-verified "
    "after every event.  Hash and name indices are introduced in order (symmetry).  States are merged on a digest of "
    "the consent tables (ages, not absolute time), database rows, token trees, chains, permissions, peer addresses, "
    "recorded disclosures and the reference model's state, with token/metadata hashes replaced by structural labels."
)
ASSUMPTIONS = [
    "signature primitives (ipv8_rust_tunnels) trusted; the oracle calls PublicKey.verify directly",
    "'has not attested it already' is read per metadata object (test_advertise_twice expects a second credential over "
    "the same hash to be attested while the registration is young)",
    "the reference is permissive: it remembers every registration ever made (the implementation keeps one per hash) "
    "and pools every token/metadata a node was shown regardless of sender",
    "registration age exactly 300 s is not produced (time steps are 299 s and 301 s)",
    "nodes are introduced by inserting verified peers directly (no introduction datagrams); FIFO delivery only, no "
    "loss/reordering (C17 quantifies over histories and inputs, not schedules)",
    "a RequestMissing identical to one already delivered while draining after the same event is dropped: the library "
    "answers a fruitless MissingResponse with the same RequestMissing again (endless exchange that changes no state)",
    "the digest ignores the 'date' value inside metadata and absolute time: no handler reads them (only presence of "
    "'date' and the age of a registration)",
]


@dataclass
class Msg:
    msg_id: int
    key: bytes          # public key in the authentication header
    signed: bool        # packet signature valid under that key (Rust primitive)
    payload: object


class W:
    """One explored world: the real nodes, the reference, and the bookkeeping the digest needs."""

    def __init__(self, m: "Model") -> None:
        self.m = m
        self.sim = simnet.World(("c17", m.seed))
        self.ov: dict[str, IdentityCommunity] = {}
        curve = m.cfg.get("curve", "curve25519")
        idx = fixtures.rotate(m.seed, len(NODES), curve)
        shared = IdentityManager(":memory:") if m.cfg.get("shared_manager") else None
        for name, ki in zip(NODES, idx):
            if curve != "curve25519" and name == "D":
                # the fixture file holds two keys per legacy curve: attester and subject B share the curve (uniform
                # signature length in everything they exchange), the bystander D gets a key of another legacy curve
                node = self.sim.add_node(name, m.seed % 2, curve="medium" if curve != "medium" else "low")
            else:
                node = self.sim.add_node(name, ki, curve=curve)
            # shared_manager: B and D are two pseudonyms of one process (CommunicationManager gives all its pseudonyms
            # the same IdentityManager); each still has its own key, overlay and token chain
            manager = shared if shared is not None and name in ("B", "D") else IdentityManager(":memory:")
            settings = IdentitySettings(identity_manager=manager)
            self.ov[name] = node.add_overlay(IdentityCommunity, settings)
        # "fully introduced": every node has every other node as a verified peer at its true address
        for a in NODES:
            for b in NODES:
                if a != b:
                    self.ov[a].network.add_verified_peer(Peer(self.ov[b].my_peer.public_key.key_to_bin(),
                                                              self.sim.nodes[b].address))
        self.key = {n: self.ov[n].my_peer.public_key.key_to_bin() for n in NODES}
        self.channel: dict[str, CommunicationChannel] = {}
        self.channel_consents: list = []      # (subject key, name, shown metadata) the attester's user accepted, in order
        self.channel_hashes = 0
        if m.cfg.get("channel"):
            key = channel_key()
            for name in ("T", "D"):
                ws = AttestationSettings()
                ws.working_directory = ":memory:"
                wallet = self.sim.nodes[name].add_overlay(AttestationCommunity, ws)
                self.channel[name] = self.sim.nodes[name].run(CommunicationChannel, wallet, self.ov[name])
            self._hook_channels(key)
        self.keyname = {v: k for k, v in self.key.items()}
        self.addrname = {tuple(self.sim.nodes[n].address): n for n in NODES}
        self.slen = refm.sig_len(self.key["T"])
        # reference
        self.consent = {n: refm.Consent([self.key[x] for x in NODES]) for n in NODES}
        self.chain = {n: refm.Chain() for n in NODES}
        self.attest_received: dict[str, set] = {n: set() for n in NODES}
        # bookkeeping
        self.labels: dict[bytes, tuple] = {h: ("h", i) for i, h in enumerate(HASHES)}
        self.labels[FAKE_POINTER] = ("fake",)
        self.disclosures: dict[str, list] = {"B": [], "D": []}     # recorded disclosure datagrams per sender
        self.used_h = 0
        self.used_n = 0
        self.withheld = b""               # tokens D left out of its last disclosure
        self.viol: list = []
        self.judged = 0                   # index into sim.wire_log up to which sends were judged
        self.cut = 0
        self.max_deliveries = 0
        self.counts = {"attest_sent": 0, "missing_response_nonempty": 0, "pingpong_cut": 0}

    def _hook_channels(self, key) -> None:  # noqa: ANN001
        """
        (1) The subject's wallet hands out the fixture secret key instead of generating one.
        (2) The reference learns the attribute hash of an accepted request at the moment the attester's wallet reports
            it (AttestationCommunity calls its completion callback with the hash of the blob it just made); the
            metadata of the consent record is what the user was SHOWN, never what the channel looks up later.
        """
        d_wallet = self.channel["D"].attestation_overlay
        original_algorithm = d_wallet.get_id_algorithm

        def algorithm_with_fixture_key(id_format: str):  # noqa: ANN202
            algorithm = original_algorithm(id_format)
            algorithm.generate_secret_key = lambda: key
            return algorithm
        d_wallet.get_id_algorithm = algorithm_with_fixture_key

        t_channel = self.channel["T"]
        library_callback = t_channel.on_attestation_complete

        def completion_seen_by_reference(for_peer, attribute_name, attribute_hash, id_format, from_peer=None):  # noqa: ANN001, ANN202
            subject = for_peer.public_key.key_to_bin()
            for i, (c_key, c_name, c_md) in enumerate(self.channel_consents):
                if c_key == subject and c_name == attribute_name:
                    del self.channel_consents[i]
                    padded = SHA1_PAD + attribute_hash if len(attribute_hash) == 20 else attribute_hash
                    self.labels[padded] = ("h-channel", self.channel_hashes)
                    self.channel_hashes += 1
                    self.consent["T"].register(padded, attribute_name, subject, c_md, self.now())
                    break
            return library_callback(for_peer, attribute_name, attribute_hash, id_format, from_peer)
        t_channel.attestation_overlay.set_attestation_request_complete_callback(completion_seen_by_reference)

    # -- helpers -----------------------------------------------------------------------------------------------------
    def now(self) -> float:
        return seams.CLOCK.now

    def peer_of(self, viewer: str, target: str) -> Peer:
        p = self.ov[viewer].network.get_verified_by_public_key_bin(self.key[target])
        assert p is not None
        return p

    def label(self, b: bytes):  # noqa: ANN201
        return self.labels.get(b) or b.hex()

    def kn(self, key_bin: bytes) -> str:
        return self.keyname.get(bytes(key_bin)) or bytes(key_bin).hex()

    def decode(self, data: bytes) -> Msg | None:
        ov = self.ov["T"]
        if len(data) < 24 or data[:22] != ov.get_prefix() or data[22] not in PAYLOADS:
            return None
        try:
            auth, _ = ov.serializer.unpack_serializable(BinMemberAuthenticationPayload, data, offset=23)
            key = auth.public_key_bin
            slen = refm.sig_len(key)
            remainder = data[2 + len(key):-slen]
            payload = ov.serializer.unpack_serializable_list([PAYLOADS[data[22]]], remainder, offset=23)[0]
        except Exception:  # noqa: BLE001
            return None
        return Msg(data[22], key, refm.sig_ok(key, data[-slen:], data[:-slen]), payload)

    def pack(self, signer: str, payload) -> bytes:  # noqa: ANN001
        return self.sim.nodes[signer].run(self.ov[signer].ezr_pack, payload.msg_id, payload)

    def inject(self, src: str, dst: str, data: bytes) -> None:
        self.sim.inject(self.sim.nodes[src].address, self.sim.nodes[dst].address, data)

    def bad(self, key: str, what: str) -> None:
        self.viol.append((key, what))


class Model(core.BfsModel):
    """
    cfg: hashes, names (1|2), reg_keys, reg_md (indices into REG_MD), req_subjects, req_extra (indices into REQ_EXTRA),
         rm_known (list),
         time (list of seconds), groups (which of ALL_GROUPS are in the alphabet), max_replay, reqatt_subjects
    """

    def __init__(self, name: str, cfg: dict, seed: int) -> None:
        self.name, self.cfg, self.seed = name, dict(cfg), seed
        c = self.cfg
        H, N = range(c["hashes"]), range(c["names"])
        al: list = []
        al += [("reg", h, n, k, md) for h in H for n in N for k in c["reg_keys"] for md in c["reg_md"]]
        al += [("time", dt) for dt in c["time"]]
        al += [("req", s, h, n, x) for s in c["req_subjects"] for h in H for n in N for x in c["req_extra"]]
        g = set(c["groups"])
        if "adv" in g:
            al += [("adv", "B")]
        if "advd" in g:
            al += [("adv", "D")]
        if "rmd" in g:
            al += [("rmto", "T", "D", known) for known in c["rm_known"]]
        if "replay" in g:
            al += [("replay", s, j, mode) for s in c["req_subjects"] for j in range(c["max_replay"])
                   for mode in ("own", "other")]
        if "steal" in g:
            al += [("steal",)]
        if "rm" in g:
            al += [("rm", k, known) for k in ("T", "D") for known in c["rm_known"]]
        if "att" in g:
            al += [("att", v) for v in ("T-valid", "D-carries-T", "D-own-from-T-address", "T-altered")]
        if "reqatt" in g:
            al += [("reqatt", s) for s in c["reqatt_subjects"]]
        if "remeta" in g:
            al += [("remeta", s) for s in c["req_subjects"]]
        if "channel" in g:
            al += [("creq", i) for i in range(len(CH_REQUEST_MD))]
            al += [("cswap", i) for i in range(len(CH_SWAP_MD))]
            al += [("cattest",)]
        if "dis" in g:
            al += [("dis", src, defect, att) for src in ("own", "other") for defect in DIS_DEFECTS for att in DIS_ATTS]
            # a genuine new credential together with a second, validly signed metadata (over the next token) whose body
            # is the JSON list [k] (the attester's checks raise on it; k varies the order the two are looked at); the
            # datagram is delivered twice
            al += [("dis", "own", f"poisoned-sibling:{k}", "none") for k in range(4)]
        if "withheld" in g:
            # D discloses a genuine new credential but withholds the token underneath it; `mr`: D hands that token in
            # later (a MissingResponse nobody asked for any more)
            al += [("dis", "own", "withheld-parent", "none"), ("mr", "D")]
        self.alphabet = al

    def params(self) -> dict:
        return {"config": self.name, "cfg": self.cfg, "seed": self.seed}

    # -- BfsModel ----------------------------------------------------------------------------------------------------
    def initial(self) -> W:
        return W(self)

    def dispose(self, w: W) -> None:
        w.sim.close()

    def enabled(self, w: W):  # noqa: ANN201
        out = []
        for i, ev in enumerate(self.alphabet):
            kind = ev[0]
            if kind in ("reg", "req"):
                h, n = (ev[1], ev[2]) if kind == "reg" else (ev[2], ev[3])
                # symmetry: hash / name indices are introduced in order (h2 only after h1 was used, ...)
                if h > w.used_h or n > w.used_n:
                    continue
            elif kind == "replay":
                if ev[2] >= len(w.disclosures[ev[1]]):
                    continue
            elif kind == "steal":
                if not w.disclosures["B"]:
                    continue
            elif kind == "remeta":
                if not w.ov[ev[1]].metadata_chain:
                    continue
            elif kind == "creq":
                # one channel request at a time: nothing outstanding at T, nothing pending at D
                if w.channel["T"].attestation_requests or self._pending_at_subject(w):
                    continue
            elif kind == "cswap":
                if not self._pending_at_subject(w):
                    continue
            elif kind == "cattest":
                if not w.channel["T"].attestation_requests:
                    continue
            elif kind == "mr":
                if not w.withheld:
                    continue
            elif kind == "dis" and ev[2] == "withheld-parent":
                if w.withheld:
                    continue
            out.append(i)
        return out

    def apply(self, w: W, ev):  # noqa: ANN001, ANN201
        ev = tuple(ev)
        w.viol = []
        kind = ev[0]
        sim, ov = w.sim, w.ov
        if kind == "reg":
            _, h, n, k, md = ev
            self._use(w, h, n)
            meta = None if REG_MD[md] is None else dict(REG_MD[md])
            sim.nodes["T"].run(ov["T"].add_known_hash, HASHES[h], NAMES[n], w.key[k], meta)
            w.consent["T"].register(HASHES[h], NAMES[n], w.key[k], meta, w.now())
        elif kind == "time":
            sim.run_for(float(ev[1]))
        elif kind == "req":
            _, s, h, n, x = ev
            self._use(w, h, n)
            before = len(sim.wire_log)
            sim.nodes[s].run(ov[s].request_attestation_advertisement, w.peer_of(s, "T"), HASHES[h], NAMES[n],
                             "id_metadata", None if REQ_EXTRA[x] is None else dict(REQ_EXTRA[x]))
            self._record_request(w, s, before, (h, n, x))
        elif kind == "reqatt":
            # the subject first attests its own new credential and ships that attestation inside the disclosure
            s = ev[1]
            self._use(w, 0, 0)
            o = ov[s]
            cred = sim.nodes[s].run(o.self_advertise, HASHES[0], NAMES[0], "id_metadata", None)
            if cred is not None:
                att = o.pseudonym_manager.create_attestation(cred.metadata, o.my_peer.key)
                o.pseudonym_manager.add_attestation(o.my_peer.public_key, att)
                o.permissions[w.peer_of(s, "T")] = len(o.token_chain)
                disclosure = o.pseudonym_manager.disclose_credentials([cred], {att.get_hash()})
                before = len(sim.wire_log)
                sim.nodes[s].run(o.ez_send, w.peer_of(s, "T"), DisclosePayload(*o._fit_disclosure(disclosure)))
                self._record_request(w, s, before, (0, 0, "self-attested"))
        elif kind == "dis":
            self._dishonest_disclosure(w, *ev[1:])
        elif kind == "mr":
            w.inject("D", "T", w.pack("D", MissingResponsePayload(w.withheld)))
        elif kind == "creq":
            # D asks T for an attestation of attribute "n1" through its CommunicationChannel
            self._use(w, 0, 0)
            sim.nodes["D"].run(w.channel["D"].request_attestation, w.peer_of("D", "T"), CH_NAME, CH_FORMAT,
                               dict(CH_REQUEST_MD[ev[1]]))
        elif kind == "cswap":
            # dishonest subject: the credential it is going to advertise carries other metadata than it asked for
            ch = w.channel["D"]
            ch.attestation_metadata[(ch.identity_overlay.my_peer, CH_NAME)] = dict(CH_SWAP_MD[ev[1]])
        elif kind == "cattest":
            # T's user looks at the outstanding request (peer, name, metadata as shown by the channel / REST) and accepts
            ch = w.channel["T"]
            (peer, name), (_future, shown) = next(iter(ch.attestation_requests.items()))
            w.channel_consents.append((peer.public_key.key_to_bin(), name, json.loads(shown)))
            sim.nodes["T"].run(ch.attest, peer, name, b"value")
            sim.loop.settle()
        elif kind == "remeta":
            # the subject signs a SECOND Metadata object over its latest token (same hash, name, schema and extra
            # fields, other 'date') and discloses token chain + new metadata to T
            s = ev[1]
            o = ov[s]
            first = o.metadata_chain[-1]
            fields = json.loads(first.serialized_json_dict)
            fields["date"] = fields["date"] + 1.0
            second = Metadata(first.token_pointer, json.dumps(fields).encode(), private_key=o.my_peer.key)
            w.labels[second.get_hash()] = ("md-second", w.label(first.get_hash()))
            _, tokens, _, _ = o.pseudonym_manager.create_disclosure({first}, set())
            raw = second.get_plaintext_signed()
            blob = len(raw).to_bytes(4, "big") + raw
            sim.nodes[s].run(o.ez_send, w.peer_of(s, "T"), DisclosePayload(blob, tokens, b"", b""))
        elif kind == "adv":
            s = ev[1]
            self._use(w, 0, 0)
            cred = sim.nodes[s].run(ov[s].self_advertise, HASHES[0], NAMES[0], "id_metadata", None)
            if cred is not None:
                idx = len(w.chain[s].tokens)
                w.chain[s].created(cred.metadata.token_pointer)
                w.labels[cred.metadata.token_pointer] = ("tok", s, idx, 0)
                w.labels[cred.metadata.get_hash()] = ("md", s, idx, 0, 0, 0)
        elif kind == "replay":
            _, s, j, mode = ev
            dg = w.disclosures[s][j]
            src = s if mode == "own" else ("D" if s == "B" else "B")
            w.inject(src, "T", dg.data)
        elif kind == "steal":
            last = w.decode(w.disclosures["B"][-1].data).payload
            w.inject("D", "T", w.pack("D", DisclosePayload(last.metadata, last.tokens, last.attestations,
                                                            last.authorities)))
        elif kind == "rm":
            _, k, known = ev
            w.inject(k, "B", w.pack(k, RequestMissingPayload(known)))
        elif kind == "rmto":
            _, k, target, known = ev
            w.inject(k, target, w.pack(k, RequestMissingPayload(known)))
        elif kind == "att":
            self._attest_event(w, ev[1])
        else:
            raise ValueError(ev)
        obs = self._pump(w)
        return (kind, obs)

    # -- event helpers -----------------------------------------------------------------------------------------------
    @staticmethod
    def _pending_at_subject(w: W) -> bool:
        """D's wallet still waits for the attestation blob of its request (the cache times out after a while)."""
        wallet = w.channel["D"].attestation_overlay
        return any(k.startswith("receive-request-attestation") for k in wallet.request_cache._identifiers)

    @staticmethod
    def _use(w: W, h: int, n: int) -> None:
        w.used_h = max(w.used_h, h + 1)
        w.used_n = max(w.used_n, n + 1)

    @staticmethod
    def _record_request(w: W, s: str, before: int, what: tuple) -> None:
        """The subject's user created a credential and disclosed it to T: read both off the wire."""
        h, n, x = what
        for dg in w.sim.wire_log[before:]:
            msg = w.decode(dg.data)
            if dg.sender is w.sim.nodes[s].endpoint and msg is not None and msg.msg_id == 1:
                w.disclosures[s].append(dg)
                mds = refm.parse_metadata(msg.payload.metadata, w.slen)
                if len(mds) == 1:
                    md_hash, pointer, _js, _sig = mds[0]
                    idx = len(w.chain[s].tokens)
                    w.chain[s].created(pointer)
                    w.chain[s].open_to(w.key["T"])
                    w.labels[pointer] = ("tok", s, idx, h)
                    w.labels[md_hash] = ("md", s, idx, h, n, x)

    def _dishonest_disclosure(self, w: W, src: str, defect: str, atts: str) -> None:
        """
        D makes a new, genuine credential for (h1, n1) and discloses it to T in a hand-made DisclosePayload (signed by
        D, sent from D's own address or relayed from B's) that is broken in one way, optionally with attestation
        blocks riding along (the last one validly signed by D over its own new metadata).
        """
        o = w.ov["D"]
        self._use(w, 0, 0)
        if defect == "withheld-parent":
            # an earlier credential of D (over something else): the new credential's token is chained after its token
            first = w.sim.nodes["D"].run(o.self_advertise, bytes([0xF3]) * 32, "other", "id_metadata", None)
            if first is None:
                return
            w.chain["D"].created(first.metadata.token_pointer)
            w.labels[first.metadata.token_pointer] = ("tok", "D", len(w.chain["D"].tokens) - 1, "withheld")
            w.labels[first.metadata.get_hash()] = ("md", "D", len(w.chain["D"].tokens) - 1, "withheld")
        cred = w.sim.nodes["D"].run(o.self_advertise, HASHES[0], NAMES[0], "id_metadata", None)
        if cred is None:
            return
        pointer, md_hash = cred.metadata.token_pointer, cred.metadata.get_hash()
        idx = len(w.chain["D"].tokens)
        w.chain["D"].created(pointer)
        w.chain["D"].open_to(w.key["T"])
        o.permissions[w.peer_of("D", "T")] = len(o.token_chain)
        w.labels[pointer] = ("tok", "D", idx, 0)
        w.labels[md_hash] = ("md", "D", idx, 0, 0, f"crafted:{defect}")
        metadata, tokens, _, _ = o.pseudonym_manager.disclose_credentials([cred], set())
        d_key = o.my_peer.key
        if defect == "forged-token-signature":
            extra = pointer + bytes([0xF0]) * 32 + bytes([1]) * w.slen
            w.labels[refm.obj_hash(extra)] = ("tok-forged", "D", idx)
            tokens += extra
        elif defect == "token-of-another-key":
            text = pointer + bytes([0xF1]) * 32
            extra = text + w.ov["B"].my_peer.key.signature(text)
            w.labels[refm.obj_hash(extra)] = ("tok-foreign", "D", idx)
            tokens += extra
        elif defect == "altered-metadata-signature":
            metadata = metadata[:-1] + bytes([metadata[-1] ^ 1])
            for h, *_ in refm.parse_metadata(metadata, w.slen):
                w.labels[h] = ("md-altered", "D", idx)
        elif defect == "withheld-parent":
            own = o.pseudonym_manager.tree.elements[pointer].get_plaintext_signed()
            size = len(own)
            w.withheld = b"".join(tokens[i:i + size] for i in range(0, len(tokens), size) if tokens[i:i + size] != own)
            tokens = own
            o.permissions[w.peer_of("D", "T")] = 0        # D does not hand the rest out when asked either
        elif defect.startswith("poisoned-sibling:"):
            tree = o.pseudonym_manager.tree
            tok2 = tree.add_by_hash(bytes([0xF2]) * 32, tree.elements[pointer])
            p2 = tok2.get_hash()
            w.chain["D"].created(p2)
            w.labels[p2] = ("tok", "D", idx + 1, "poisoned")
            text = p2 + b"[%d]" % int(defect.split(":")[1])
            raw = text + d_key.signature(text)
            w.labels[refm.obj_hash(raw)] = ("md-poisoned", "D", idx + 1, defect)
            metadata += struct.pack(">I", len(raw)) + raw
            tokens += tok2.get_plaintext_signed()
        else:
            raise ValueError(defect)
        valid = md_hash + d_key.signature(md_hash)
        authority = len(w.key["D"]).to_bytes(2, "big") + w.key["D"]
        if atts == "none":
            attestations, authorities = b"", b""
        elif atts == "valid-last":
            attestations, authorities = valid, authority
        elif atts == "forged-first-valid-last":
            attestations, authorities = md_hash + bytes([2]) * w.slen + valid, authority * 2
        else:
            raise ValueError(atts)
        datagram = w.pack("D", DisclosePayload(metadata, tokens, attestations, authorities))
        w.inject("D" if src == "own" else "B", "T", datagram)
        if defect.startswith("poisoned-sibling:"):
            w.inject("D", "T", datagram)

    @staticmethod
    def _record_new_credential(w: W, s: str, dg, msg: Msg) -> None:  # noqa: ANN001
        """A real node disclosed a credential the bookkeeping has not seen (it was made inside the channel flow)."""
        mds = refm.parse_metadata(msg.payload.metadata, w.slen)
        if len(mds) != 1 or mds[0][1] in w.chain[s].tokens:
            return
        md_hash, pointer, js, _sig = mds[0]
        idx = len(w.chain[s].tokens)
        w.chain[s].created(pointer)
        w.chain[s].open_to(w.key["T"])
        w.disclosures[s].append(dg)
        try:
            fields = json.loads(js)
            extras = tuple(sorted((k, v) for k, v in fields.items() if k not in refm.RESERVED))
        except Exception:  # noqa: BLE001
            extras = ("?",)
        w.labels[pointer] = ("tok", s, idx, "channel")
        w.labels[md_hash] = ("md", s, idx, "channel", extras)

    def _attest_event(self, w: W, variant: str) -> None:
        b = w.ov["B"]
        pointer = b.metadata_chain[-1].get_hash() if b.metadata_chain else FAKE_POINTER
        t_key, d_key = w.ov["T"].my_peer.key, w.ov["D"].my_peer.key
        if variant == "T-valid":              # T's user attests out of band; the packet is T's
            att = pointer + t_key.signature(pointer)
            w.inject("T", "B", w.pack("T", AttestPayload(att)))
        elif variant == "D-carries-T":        # an attestation signed by a third party (T), sent and signed by D
            att = pointer + t_key.signature(pointer)
            w.inject("D", "B", w.pack("D", AttestPayload(att)))
        elif variant == "D-own-from-T-address":   # D's own attestation in D's packet, source address spoofed as T's
            att = pointer + d_key.signature(pointer)
            w.inject("T", "B", w.pack("D", AttestPayload(att)))
        elif variant == "T-altered":          # T's packet, attestation whose pointer was altered after signing
            altered = bytes([pointer[0] ^ 1]) + pointer[1:]
            w.labels.setdefault(altered, ("altered", w.label(pointer)))
            att = altered + t_key.signature(pointer)
            w.inject("T", "B", w.pack("T", AttestPayload(att)))
        else:
            raise ValueError(variant)

    # -- delivery with the oracle in the loop ------------------------------------------------------------------------
    def _pump(self, w: W) -> tuple:
        """
        FIFO delivery until quiet, no time passes.  Before a datagram is delivered the reference is told what the
        receiver is shown; after it was handled everything the receiver sent is judged.  A RequestMissing identical to
        one already delivered in this pump is dropped: the library answers a fruitless MissingResponse with the same
        RequestMissing again (endless ping-pong), the repeated exchange changes no state.
        """
        sim = w.sim
        obs: list = []
        self._judge_new_sends(w, None, obs)
        seen_rm: set = set()
        delivered = 0
        while sim.inflight:
            dg = sim.inflight[0]
            msg = w.decode(dg.data)
            dst = w.addrname.get(tuple(dg.dst))
            if msg is not None and msg.msg_id == 3:
                k = (tuple(dg.src), tuple(dg.dst), msg.key, msg.payload.known)
                if k in seen_rm:
                    sim.drop(0)
                    w.counts["pingpong_cut"] += 1
                    continue
                seen_rm.add(k)
            delivered += 1
            if delivered > DELIVERY_CAP:
                w.bad("harness:delivery-cap", f"more than {DELIVERY_CAP} datagrams in one event")
                while sim.inflight:
                    sim.drop(0)
                break
            if msg is not None and msg.signed and dst is not None:
                if msg.msg_id == 1:
                    w.consent[dst].shown(msg.payload.metadata, msg.payload.tokens, msg.payload.attestations)
                elif msg.msg_id == 4:
                    w.consent[dst].shown(b"", msg.payload.tokens)
                elif msg.msg_id == 2:
                    w.attest_received[dst].add((msg.key, bytes(msg.payload.attestation)))
            sim.deliver(0)
            self._judge_new_sends(w, msg, obs)
        w.max_deliveries = max(w.max_deliveries, delivered)
        return tuple(obs)

    def _judge_new_sends(self, w: W, trigger: Msg | None, obs: list) -> None:
        log = w.sim.wire_log
        while w.judged < len(log):
            dg = log[w.judged]
            w.judged += 1
            sender = dg.sender.name
            msg = w.decode(dg.data)
            if msg is None:
                obs.append((sender, "other"))
                continue
            to = w.addrname.get(tuple(dg.dst), "?")
            if msg.msg_id == 1 and sender in w.disclosures and msg.key == w.key[sender]:
                self._record_new_credential(w, sender, dg, msg)
            if msg.msg_id == 2:
                w.counts["attest_sent"] += 1
                att = refm.parse_attestation(msg.payload.attestation, w.slen)
                pointer = att[0] if att else b""
                verdict = w.consent[sender].judge_attest(pointer, w.now())
                if (verdict is None and trigger is not None and trigger.msg_id in (1, 4) and trigger.signed
                        and not refm.tokens_all_signed(trigger.payload.tokens, trigger.key)):
                    verdict = ("disclosure-unverified", "it answers a disclosure that contains a token which is not "
                                                        "validly signed by the discloser")
                obs.append((sender, to, "attest", w.label(pointer), verdict[0] if verdict else "ok"))
                if verdict:
                    w.bad(f"attest:{verdict[0]}",
                          f"{sender} sent an attestation over {w.label(pointer)} to {to}: {verdict[1]}")
            elif msg.msg_id == 4:
                requester = trigger.key if (trigger is not None and trigger.msg_id == 3 and trigger.signed) else None
                verdict = w.chain[sender].judge_tokens(msg.payload.tokens, w.slen, requester)
                toks = [w.label(t[0]) for t in refm.parse_tokens(msg.payload.tokens, w.slen)]
                if toks:
                    w.counts["missing_response_nonempty"] += 1
                obs.append((sender, to, "missing-response", tuple(toks), verdict[0] if verdict else "ok"))
                if verdict:
                    w.bad(f"missing-response:{verdict[0]}",
                          f"{sender} answered a token request of {w.kn(requester) if requester else None} with "
                          f"{toks}: {verdict[1]}")
            else:
                obs.append((sender, to, KIND[msg.msg_id]))

    # -- digest ------------------------------------------------------------------------------------------------------
    def digest(self, w: W):  # noqa: ANN201
        L, kn, now = w.label, w.kn, w.now()
        out: list = [w.used_h, w.used_n, len(w.withheld)]
        for n in NODES:
            ov = w.ov[n]
            db = ov.identity_manager.database
            table = tuple((L(h), v[0], kn(v[2]), None if v[3] is None else tuple(sorted(v[3].items())),
                           min(round(now - (v[1] - seams.VClock.EPOCH), 3), EXPIRED))
                          for h, v in ov.known_attestation_hashes.items())      # insertion order is read by the code
            toks = sorted((kn(pk), repr(L(refm.obj_hash(prev + ch + sig))))
                          for pk, prev, sig, ch in db.execute(
                              "SELECT public_key, previous_token_hash, signature, content_hash FROM Tokens",
                              fetch_all=True) or [])
            mds = sorted((kn(pk), repr(L(refm.obj_hash(ptr + js + sig))))
                         for pk, ptr, sig, js in db.execute(
                             "SELECT public_key, token_pointer, signature, serialized_json_dict FROM Metadata",
                             fetch_all=True) or [])
            atts = sorted((kn(pk), kn(ak), repr(L(ptr)), refm.sig_ok(bytes(ak), bytes(sig), bytes(ptr)))
                          for pk, ak, ptr, sig in db.execute(
                              "SELECT public_key, authority_key, metadata_pointer, signature FROM Attestations",
                              fetch_all=True) or [])
            pseudonyms = sorted((kn(k), tuple(sorted(repr(L(h)) for h in p.tree.elements)),
                                 tuple(repr(L(t.get_hash())) for t in p.tree.unchained))
                                for k, p in ov.identity_manager.pseudonyms.items())
            own = (tuple(L(t.get_hash()) for t in ov.token_chain), tuple(L(m.get_hash()) for m in ov.metadata_chain),
                   tuple(sorted((kn(p.public_key.key_to_bin()), _perm(i, L)) for p, i in ov.permissions.items())))
            addrs = tuple(w.addrname.get(tuple(w.peer_of(n, o).address), "?") for o in NODES if o != n)
            c = w.consent[n]
            ref = (
                tuple(sorted({(L(h), nm, kn(k), None if md is None else tuple(sorted(md.items())),
                               min(round(now - t, 3), EXPIRED)) for h, nm, k, md, t in c.registrations}, key=repr)),
                tuple(sorted(repr(L(h)) for h in c.tokens)), tuple(sorted(repr(L(h)) for h in c.metadata)),
                tuple(sorted(repr(L(h)) for h in c.attested)), tuple(sorted(repr(L(h)) for h in c.third_party)),
                tuple(sorted((repr(L(t)), repr(L(m))) for t, m in c.attested_tokens.items())),
                tuple(L(h) for h in w.chain[n].tokens), tuple(sorted((kn(k), i) for k, i in w.chain[n].opened.items())),
                tuple(sorted((kn(k), repr(L(a[:32])), refm.sig_ok(k, a[32:], a[:32])) for k, a in w.attest_received[n])),
            )
            # every other plain attribute of the overlay object (a table or stamp somebody adds there is state as well)
            extra = tuple(sorted((k, repr(_plain(v, w, now))) for k, v in vars(ov).items() if k not in _COVERED_ATTRS))
            out.append((n, table, tuple(toks), tuple(mds), tuple(atts), tuple(pseudonyms), own, addrs, ref, extra))
        out.append(tuple((s, tuple(L(refm.parse_metadata(w.decode(dg.data).payload.metadata, w.slen)[0][0])
                                   for dg in w.disclosures[s])) for s in ("B", "D")))
        for n, ch in sorted(w.channel.items()):
            wallet = ch.attestation_overlay
            out.append((
                "channel", n,
                tuple(sorted((kn(p.public_key.key_to_bin()), name, shown)
                             for (p, name), (_f, shown) in ch.attestation_requests.items())),
                tuple(sorted((kn(p.public_key.key_to_bin()), name, tuple(sorted(md.items())))
                             for (p, name), md in ch.attestation_metadata.items())),
                tuple(sorted(k.split(":")[0] for k in wallet.request_cache._identifiers)),
                tuple(sorted((len(v)) for v in wallet.allowed_attestations.values())),
                len(list(wallet.database.execute(f"SELECT 1 FROM {wallet.database.db_name}", fetch_all=True) or [])),  # noqa: S608
                len(wallet.attestation_keys),
            ))
        out.append(tuple((kn(k), nm, tuple(sorted(md.items()))) for k, nm, md in w.channel_consents))
        return tuple(out)

    # -- oracle on stored state --------------------------------------------------------------------------------------
    def check(self, w: W, hist, ev, obs) -> list:  # noqa: ANN001
        v = list(w.viol)
        for n in NODES:
            ov = w.ov[n]
            rows = ov.identity_manager.database.execute(
                "SELECT public_key, authority_key, metadata_pointer, signature FROM Attestations", fetch_all=True) or []
            for pk, ak, ptr, sig in rows:
                pk, ak, ptr, sig = bytes(pk), bytes(ak), bytes(ptr), bytes(sig)
                if not refm.sig_ok(ak, sig, ptr):
                    v.append(("stored-attestation:invalid-signature",
                              f"{n} stores an attestation over {w.label(ptr)} for {w.kn(pk)} under authority "
                              f"{w.kn(ak)} whose signature does not verify under that authority"))
                elif pk == w.key[n] and ak != w.key[n] and (ak, ptr + sig) not in w.attest_received[n]:
                    v.append(("stored-attestation:not-from-sender",
                              f"{n} stores an attestation over {w.label(ptr)} under authority {w.kn(ak)}, but no "
                              f"attest message signed by {w.kn(ak)} carried it"))
        for e in w.sim.loop.exceptions:
            v.append((f"loop-exception:{type(e.get('exception')).__name__}", str(e.get("message"))[:300]))
        w.sim.loop.exceptions.clear()
        return v


# ------------------------------------------------------------------------------------------------------------------
# configurations
# ------------------------------------------------------------------------------------------------------------------

ALL_GROUPS = ["adv", "replay", "steal", "rm", "att", "reqatt", "remeta"]   # "dis" only in the dedicated family


def _cfg(**kw) -> dict:  # noqa: ANN003
    base = {"hashes": 2, "names": 2, "reg_keys": ["B", "D"], "reg_md": [0, 1], "req_subjects": ["B", "D"],
            "req_extra": [0, 1], "rm_known": [0, 1, 2], "groups": list(ALL_GROUPS), "time": [299, 301],
            "max_replay": 4, "reqatt_subjects": ["D"]}
    base.update(kw)
    return base


def configs(ctx: core.Ctx) -> list[tuple[Model, int]]:
    s = ctx.seed
    # who may be attested: two hashes, both subjects register and request; one name, no extra metadata
    subjects = _cfg(names=1, reg_md=[0], req_extra=[0], groups=["replay", "steal", "reqatt", "remeta"])
    # what may be attested: one hash, subject B; both names, with and without fixed / extra metadata
    # metadata: not fixed / {"k":"v"} / {} (exactly nothing) against credentials with none / {"k":"v"} / a superset
    fields = _cfg(hashes=1, reg_keys=["B"], req_subjects=["B"], reg_md=[0, 1, 2], req_extra=[0, 1, 2],
                  groups=["replay", "remeta"])
    # token hand-out and incoming attestations: one hash/name, B requests and self-advertises, T/D ask for tokens
    tokens = _cfg(hashes=1, names=1, reg_keys=["B"], reg_md=[0], req_subjects=["B"], req_extra=[0], time=[301],
                  groups=["adv", "rm", "att", "replay"])
    # dishonest disclosures: D holds (or gets) a registration for (h1, n1) and sends broken hand-made disclosures
    forged = _cfg(hashes=1, names=1, reg_keys=["D"], reg_md=[0], req_subjects=["D"], req_extra=[0], time=[],
                  groups=["dis"])
    # consent route (b): D requests through its CommunicationChannel, T's user accepts the outstanding request it is shown;
    # D may swap the metadata it advertises, replay, re-word the metadata, let the five minutes pass
    channel = _cfg(hashes=1, names=1, reg_keys=[], reg_md=[], req_subjects=["D"], req_extra=[], time=[301],
                   groups=["channel", "replay", "remeta"], max_replay=2, channel=True)
    # B and D are two pseudonyms of ONE process (one IdentityManager): B opens its chain to T, D only grows its own
    # chain; T asks both for tokens
    shared = _cfg(hashes=1, names=1, reg_keys=["B"], reg_md=[0], req_subjects=["B"], req_extra=[0], time=[],
                  groups=["adv", "advd", "rm", "rmd"], shared_manager=True)
    # every identity (attester included) on a legacy curve: ECDSA signatures are randomised, so nothing may identify an
    # attestation, token or metadata by signing it again
    # (no `remeta` here: with two metadata objects the library's iteration order follows the hash of the random
    # signature bytes, and two executions of one history could legitimately differ)
    legacy = _cfg(hashes=1, names=1, reg_keys=["B"], reg_md=[0], req_subjects=["B"], req_extra=[0], time=[299],
                  groups=["replay"], max_replay=2, curve="low")
    # a disclosure that withholds the token underneath the credential, the rest handed in after the five minutes
    withheld = _cfg(hashes=1, names=1, reg_keys=["D"], reg_md=[0], req_subjects=[], req_extra=[], time=[299, 301],
                    groups=["withheld"])
    full = _cfg()
    if ctx.thorough:
        return [
            (Model("full", full, s), 4),
            (Model("subjects", subjects, s), 5),
            (Model("fields", fields, s), 4),
            (Model("fields-2x2", _cfg(hashes=1, reg_keys=["B"], req_subjects=["B"], groups=["replay"]), s), 5),
            (Model("tokens", tokens, s), 5),
            (Model("shared", shared, s), 5),
            (Model("withheld", withheld, s), 6),
            (Model("legacy-low", legacy, s), 5),
            (Model("legacy-high", {**legacy, "curve": "high"}, s), 4),
            (Model("forged", {**forged, "time": [301], "groups": ["dis", "replay"]}, s), 3),
            (Model("channel", {**channel, "time": [299, 301], "max_replay": 3}, s), 6),
        ]
    return [
        (Model("subjects", subjects, s), 4),
        (Model("fields", fields, s), 4),
        (Model("tokens", tokens, s), 4),
        (Model("shared", shared, s), 4),
        (Model("legacy-low", legacy, s), 4),
        (Model("withheld", withheld, s), 5),
        (Model("forged", forged, s), 3),
        (Model("channel", channel, s), 5),
        (Model("full", full, s), 3),
    ]


_COVERED_ATTRS = {"known_attestation_hashes", "token_chain", "metadata_chain", "permissions", "identity_manager",
                  "pseudonym_manager", "endpoint", "network", "my_peer", "request_cache", "decode_map", "logger",
                  "serializer", "crypto", "bootstrappers", "max_peers", "_prefix", "_pending_tasks", "_task_lock",
                  "_shutdown", "_counter", "_logger", "_checker", "_shutdown_tasks", "_discovered_lan_addresses",
                  "last_bootstrap", "my_estimated_wan", "my_estimated_lan", "my_preferred_address", "settings",
                  "global_time", "decode_map_private", "_use_main_thread", "anonymize", "strategies", "on_packet"}


def _plain(v, w, now, depth: int = 0):  # noqa: ANN001, ANN202
    """Canonical form of plain data: hashes and keys as labels, wall-clock stamps as (capped) ages; objects by type."""
    if isinstance(v, (bytes, bytearray)):
        b = bytes(v)
        return w.kn(b) if b in w.keyname else w.label(b)
    if isinstance(v, bool) or v is None or isinstance(v, (int, str)):
        return v
    if isinstance(v, float):
        return ("age", min(round(now - (v - seams.VClock.EPOCH), 3), EXPIRED)) if v > 1e9 else round(v, 6)
    if depth > 3:
        return type(v).__name__
    if isinstance(v, dict):
        return tuple(sorted(((repr(_plain(k, w, now, depth + 1)), repr(_plain(x, w, now, depth + 1))) for k, x in v.items())))
    if isinstance(v, (list, tuple)):
        return tuple(repr(_plain(x, w, now, depth + 1)) for x in v)
    if isinstance(v, (set, frozenset)):
        return tuple(sorted(repr(_plain(x, w, now, depth + 1)) for x in v))
    return type(v).__name__


def _perm(value, label):  # noqa: ANN001, ANN202
    """Canonical form of one `permissions` entry whatever the tree stores there (an index, or the opened tokens)."""
    if isinstance(value, (int, float, str, bytes, type(None))):
        return value
    try:
        return tuple(repr(label(t.get_hash())) if hasattr(t, "get_hash") else type(t).__name__ for t in value)
    except TypeError:
        return type(value).__name__


def _self_check(model: Model, histories: list) -> None:
    """Replay determinism: the same history in two fresh worlds gives the same digest and observations."""
    for h in histories:
        seen = []
        for _ in range(2):
            seams.reseed(("bfs", model.seed))
            w = model.initial()
            try:
                obs = [model.apply(w, tuple(ev)) for ev in h]
                seen.append((core.digest(model.digest(w)), core.digest(obs)))
            finally:
                model.dispose(w)
        if seen[0] != seen[1]:
            core.eprint(f"C17: replaying {h} twice gave different digests/observations - machinery broken")
            raise SystemExit(2)


# ------------------------------------------------------------------------------------------------------------------
# level-synchronous BFS (same discipline as core.bfs: a state is the canonical smallest history reaching it, worlds are
# rebuilt by replay, digest before the stored-state oracle) that additionally returns per-transition statistics
# ------------------------------------------------------------------------------------------------------------------

_MODEL: Model | None = None
STAT_KEYS = ("attest_sent", "missing_response_nonempty", "pingpong_cut")


def _transition(m: Model, w: W, hist: tuple, i: int) -> tuple:
    """Apply alphabet[i] to a world that is at `hist`; digest before the stored-state oracle runs."""
    ev = m.alphabet[i]
    base = dict(w.counts)
    viol: list = []
    obs = None
    try:
        obs = m.apply(w, ev)
    except Exception as e:  # noqa: BLE001
        viol.append((f"exception:{type(e).__name__}:{ev[0]}", traceback.format_exc()[-800:]))
    d = core.digest(m.digest(w))
    try:
        viol.extend(m.check(w, [m.alphabet[j] for j in hist], ev, obs))
    except Exception as e:  # noqa: BLE001
        viol.append((f"oracle-crash:{type(e).__name__}", traceback.format_exc()[-800:]))
    rows = sum(len(list(w.ov[n].identity_manager.database.execute(
        "SELECT 1 FROM Attestations", fetch_all=True) or [])) for n in NODES)
    stats = tuple(w.counts[k] - base[k] for k in STAT_KEYS) + (w.max_deliveries, rows)
    verdicts = tuple(sorted({o[-1] for o in (obs[1] if obs else ()) if len(o) == 5}))
    return d, hist + (i,), viol, core.digest(obs) if obs is not None else b"", stats, verdicts


def _expand(chunk: list) -> list:
    """All successors of each history in the chunk; the world is rebuilt by replay for every transition."""
    m = _MODEL
    assert m is not None
    out = []
    for hist in chunk:
        w0 = m.build(hist)
        en = list(m.enabled(w0))
        m.dispose(w0)
        for i in en:
            w = m.build(hist)
            out.append(_transition(m, w, hist, i))
            m.dispose(w)
    return out


def bfs(model: Model, depth: int, jobs: int, chunk: int = 4) -> dict:
    global _MODEL
    _MODEL = model
    w = model.build(())
    seen = {core.digest(model.digest(w))}
    model.dispose(w)
    frontier: list[tuple] = [()]
    transitions = 0
    outcomes: set = set()
    violations: dict[str, core.Violation] = {}
    levels = []
    totals = dict.fromkeys(STAT_KEYS, 0)
    max_deliveries = 0
    max_rows = 0
    per_event: dict[str, int] = {}
    verdict_classes: dict[str, int] = {}
    completed = 0
    with core.Pool(_expand, jobs) as pool:
        for level in range(1, depth + 1):
            level_new: dict[bytes, tuple] = {}
            for res in pool.map_chunks(core.chunks(frontier, chunk)):
                for d, hist, viol, oh, stats, verdicts in res:
                    transitions += 1
                    outcomes.add(oh)
                    kind = model.alphabet[hist[-1]][0]
                    per_event[kind] = per_event.get(kind, 0) + 1
                    for k, n in zip(STAT_KEYS, stats):
                        totals[k] += n
                    max_deliveries = max(max_deliveries, stats[-2])
                    max_rows = max(max_rows, stats[-1])
                    for vd in verdicts:
                        verdict_classes[vd] = verdict_classes.get(vd, 0) + 1
                    for key, what in viol:
                        cur = violations.get(key)
                        if cur is None or (len(hist), hist) < cur.replay["_h"]:
                            violations[key] = core.Violation(key, what, {"_h": (len(hist), hist)})
                    if d not in seen:
                        cand = level_new.get(d)
                        if cand is None or hist < cand:
                            level_new[d] = hist
            seen.update(level_new)
            nxt = sorted(level_new.values())
            levels.append({"depth": level, "new_states": len(nxt), "frontier_in": len(frontier)})
            if os.environ.get("VERIF_PROGRESS"):
                core.eprint(f"C17 {model.name} level {level}: {levels[-1]} transitions so far {transitions}")
            completed = level
            frontier = nxt
            if not frontier:
                break
    for v in violations.values():
        v.replay = {"history": [list(model.alphabet[j]) for j in v.replay["_h"][1]]}
    # samples: the deepest representative histories with the most distinct event kinds (deterministic choice)
    varied = sorted(frontier, key=lambda h: (-len({model.alphabet[j][0] for j in h}), h))
    samples = [[list(model.alphabet[j]) for j in h] for h in varied[:2]] or [[list(model.alphabet[0])]]
    return {"states": len(seen), "transitions": transitions, "completed_depth": completed, "levels": levels,
            "distinct_outcomes": len(outcomes), "samples": samples,
            "violations": sorted(violations.values(), key=lambda v: (len(v.replay["history"]), v.key)),
            "totals": totals, "max_deliveries_per_event": max_deliveries, "max_attestation_rows": max_rows,
            "transitions_per_event_kind": per_event, "transitions_with_verdict": verdict_classes}


def run(ctx: core.Ctx) -> core.Report:
    total_states = total_trans = 0
    runs, violations, samples = [], [], []
    outcomes = 0
    seen_keys: set = set()
    channel_key()      # before any world exists and before workers fork
    for model, depth in configs(ctx):
        r = bfs(model, depth, ctx.jobs)
        total_states += r["states"]
        total_trans += r["transitions"]
        outcomes += r["distinct_outcomes"]
        runs.append({"config": model.name, "cfg": model.cfg, "alphabet_size": len(model.alphabet),
                     "depth": r["completed_depth"], "states": r["states"], "transitions": r["transitions"],
                     "levels": r["levels"], "distinct_observations": r["distinct_outcomes"],
                     "attestations_sent_by_real_nodes": r["totals"]["attest_sent"],
                     "nonempty_missing_responses": r["totals"]["missing_response_nonempty"],
                     "request_missing_pingpong_cut": r["totals"]["pingpong_cut"],
                     "max_deliveries_per_event": r["max_deliveries_per_event"],
                     "max_attestation_rows_in_a_world": r["max_attestation_rows"],
                     "transitions_per_event_kind": r["transitions_per_event_kind"],
                     "transitions_with_judged_send_by_verdict": r["transitions_with_verdict"]})
        samples.extend(r["samples"])
        if model.cfg.get("curve", "curve25519") == "curve25519":
            _self_check(model, r["samples"])
        # (legacy curves sign with a random nonce: with two credentials in play the library's iteration order follows the
        # hash of random bytes, so two executions of one history may legitimately differ; every execution is still judged)
        for v in r["violations"]:
            if v.key in seen_keys:
                continue
            seen_keys.add(v.key)
            v.what = f"[{model.name}] after {v.replay['history']}: {v.what}"
            v.replay = {**model.params(), "history": v.replay["history"]}
            violations.append(v)
    cov = {
        "states": total_states, "transitions": total_trans, "traces_validated_against_impl": total_trans,
        "samples": samples, "exhaustive": True, "distinct_outcomes": outcomes, "runs": runs,
        "delivery_cap": DELIVERY_CAP,
        "explanation": EXPLANATION,
    }
    return core.Report(LEVEL, cov, violations, ASSUMPTIONS)


def replay(ctx: core.Ctx, data: dict) -> list:
    m = Model(data["config"], data["cfg"], data["seed"])
    hist = [tuple(e) for e in data["history"]]
    channel_key()
    seams.reseed(("bfs", m.seed))
    w = m.initial()
    out: list = []
    try:
        for i, ev in enumerate(hist):
            obs = m.apply(w, ev)
            out.extend(core.Violation(k, what) for k, what in m.check(w, hist[:i], ev, obs))
    finally:
        m.dispose(w)
    return out
